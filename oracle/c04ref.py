"""Independent reference semantics for C04 (exact estimators).

Everything here works on *plain data* (never on quri-parts objects):

  gate spec   dict(name=str, t=[targets], c=[controls], params=[floats], pauli=[ids], um=matrix|None,
                   lin=None | {"coefs": {param_index: coef}, "const": c})      (lin: parametric gates only)
  operator    list of (label, coef) with label = tuple of (qubit, pauli_id), pauli ids X=1, Y=2, Z=3
  state       dict(n=int, vec=None | list of complex, gates=[gate spec])

Conventions (documented in quri-parts): qubit q is bit q of the basis index (little endian); a state is
circuit · initial vector (|0..0> when no vector is given); rotation gates are exp(-i θ P / 2).

The Pauli matrices are built from their action on basis states (bit flips and phases), not by Kronecker
products, so that the index convention of `get_sparse_matrix` is checked against something different.
"""
from __future__ import annotations

import types

import numpy as np

from . import dense

PARAM_BASE = {
    "ParametricRX": "RX",
    "ParametricRY": "RY",
    "ParametricRZ": "RZ",
    "ParametricPauliRotation": "PauliRotation",
}


def pauli_matrix(label, n):
    """dense 2^n x 2^n matrix of a Pauli label; column c -> row c ^ xmask with the phase of each factor"""
    dim = 1 << n
    m = np.zeros((dim, dim), dtype=complex)
    for c in range(dim):
        r = c
        ph = 1.0 + 0j
        for q, p in label:
            if q >= n:
                raise IndexError("label outside the register")
            b = (c >> q) & 1
            if p == 1:
                r ^= 1 << q
            elif p == 2:
                r ^= 1 << q
                ph *= 1j if b == 0 else -1j
            elif p == 3:
                ph *= 1 if b == 0 else -1
            else:
                raise ValueError(p)
        m[r, c] = ph
    return m


def operator_matrix(terms, n):
    dim = 1 << n
    m = np.zeros((dim, dim), dtype=complex)
    for label, coef in terms:
        m += coef * pauli_matrix(label, n)
    return m


def lin_eval(lin, params):
    return sum(float(c) * params[int(i)] for i, c in lin["coefs"].items()) + float(lin.get("const", 0.0))


def bound_gates(gates, params):
    """gate specs with every parametric gate replaced by its rotation at the given parameter values.
    Unbound circuits (lin is None on parametric gates): the k-th parametric gate takes params[k]."""
    out = []
    k = 0
    for g in gates:
        if g["name"] in PARAM_BASE:
            if g.get("lin") is None:
                ang = params[k]
            else:
                ang = lin_eval(g["lin"], params)
            k += 1
            h = dict(g)
            h["name"] = PARAM_BASE[g["name"]]
            h["params"] = [ang]
            out.append(h)
        else:
            out.append(g)
    return out


def _as_gate(g):
    return types.SimpleNamespace(
        name=g["name"],
        target_indices=tuple(g["t"]),
        control_indices=tuple(g.get("c", ())),
        params=tuple(g.get("params", ())),
        pauli_ids=tuple(g.get("pauli", ())),
        unitary_matrix=g.get("um"),
    )


def state_vector(state, params=None):
    n = state["n"]
    gates = state["gates"]
    if params is not None:
        gates = bound_gates(gates, params)
    if state.get("vec") is None:
        psi = np.zeros(1 << n, dtype=complex)
        psi[0] = 1.0
    else:
        psi = np.array(state["vec"], dtype=complex)
    for g in gates:
        psi = dense.gate_unitary(n, _as_gate(g)) @ psi
    return psi


def expectation(terms, state, params=None):
    psi = state_vector(state, params)
    return complex(np.vdot(psi, operator_matrix(terms, state["n"]) @ psi))


def basis_expectation(terms, n, bits):
    """exact value on a computational basis state (only I/Z strings contribute)"""
    tot = 0
    for label, coef in terms:
        if any(p in (1, 2) for _, p in label):
            continue
        s = 1
        for q, p in label:
            if (bits >> q) & 1:
                s = -s
        tot += coef * s
    return tot
