"""Independent semantics for C05 (operator arithmetic): exact integer matrices of Pauli strings
straight from the definition of the tensor product (entry = product of single-qubit entries,
little endian: qubit q is bit q of the basis index) and an exact reference algebra of
operators as {frozenset of (index, id): (re, im)} over Gaussian integers.

Used only to (a) search for a concrete failing input on the REAL code and (b) decide which
divisions are exact in generated histories.  Nothing here is shared with the Lean model or
copied from quri-parts: the single-qubit product table is derived from 2x2 matrix products.
"""
from __future__ import annotations

# Gaussian integers as (re, im)
def gmul(a, b):
    return (a[0] * b[0] - a[1] * b[1], a[0] * b[1] + a[1] * b[0])


def gadd(a, b):
    return (a[0] + b[0], a[1] + b[1])


def gneg(a):
    return (-a[0], -a[1])


def gconj(a):
    return (a[0], -a[1])


def gdiv_exact(c, d):
    """c / d if exact else None"""
    n = gmul(c, gconj(d))
    q = d[0] * d[0] + d[1] * d[1]
    if q == 0 or n[0] % q or n[1] % q:
        return None
    return (n[0] // q, n[1] // q)


I_UNIT = [(1, 0), (0, 1), (-1, 0), (0, -1)]

# 2x2 matrices with Gaussian-integer entries, M[row][col]
M1 = {
    0: [[(1, 0), (0, 0)], [(0, 0), (1, 0)]],
    1: [[(0, 0), (1, 0)], [(1, 0), (0, 0)]],
    2: [[(0, 0), (0, -1)], [(0, 1), (0, 0)]],
    3: [[(1, 0), (0, 0)], [(0, 0), (-1, 0)]],
}


def _mm(a, b):
    return [[gadd(gmul(a[r][0], b[0][c]), gmul(a[r][1], b[1][c])) for c in range(2)] for r in range(2)]


def _scale(m, k):
    return [[gmul(k, x) for x in row] for row in m]


def _derive_table():
    t = {}
    for a in range(4):
        for b in range(4):
            prod = _mm(M1[a], M1[b])
            hit = None
            for c in range(4):
                for e, u in enumerate(I_UNIT):
                    if _scale(M1[c], u) == prod:
                        hit = (c, e)
            assert hit is not None
            t[(a, b)] = hit
    return t


TABLE = _derive_table()  # (a, b) -> (c, exponent of i)


def label_entry(pairs, m: int, n: int):
    """<m| P |n> for P = tensor of the pairs (index, id); None if an index carries two Paulis"""
    d = {}
    for i, p in pairs:
        if i in d and d[i] != p:
            return None
        d[i] = p
    v = (1, 0)
    rest_m, rest_n = m, n
    for i, p in d.items():
        v = gmul(v, M1[p][(m >> i) & 1][(n >> i) & 1])
        rest_m &= ~(1 << i)
        rest_n &= ~(1 << i)
    if rest_m != rest_n:
        return (0, 0)
    return v


def op_matrix(items, nq: int):
    """items: iterable of (pairs, (re, im)); returns dim x dim list of (re, im)"""
    dim = 1 << nq
    out = [[(0, 0)] * dim for _ in range(dim)]
    for pairs, c in items:
        for n in range(dim):
            # a Pauli string has exactly one non-zero entry per column
            d = dict(pairs)
            m = n
            for i, p in d.items():
                if p in (1, 2):
                    m ^= 1 << i
            if m >= dim:
                raise ValueError("index outside the register")
            e = label_entry(pairs, m, n)
            out[m][n] = gadd(out[m][n], gmul(c, e))
    return out


def mat_mul(a, b):
    dim = len(a)
    out = [[(0, 0)] * dim for _ in range(dim)]
    for i in range(dim):
        for k in range(dim):
            if a[i][k] == (0, 0):
                continue
            for j in range(dim):
                if b[k][j] != (0, 0):
                    out[i][j] = gadd(out[i][j], gmul(a[i][k], b[k][j]))
    return out


def mat_add(a, b, sign=1):
    return [[gadd(x, y if sign == 1 else gneg(y)) for x, y in zip(r, s)] for r, s in zip(a, b)]


def mat_scale(a, k):
    return [[gmul(k, x) for x in r] for r in a]


def mat_dagger(a):
    dim = len(a)
    return [[gconj(a[j][i]) for j in range(dim)] for i in range(dim)]


# ---------------------------------------------------------------------------
# reference algebra (mathematical, order-free): {frozenset(pairs): (re, im)} without zero entries
# ---------------------------------------------------------------------------
def label_mul(p, q):
    dp, dq = dict(p), dict(q)
    out, e = {}, 0
    for i in set(dp) | set(dq):
        c, k = TABLE[(dp.get(i, 0), dq.get(i, 0))]
        e = (e + k) % 4
        if c:
            out[i] = c
    return frozenset(out.items()), e


class Ref(dict):
    """exact operator, zero coefficients never stored"""

    @staticmethod
    def of(items):
        r = Ref()
        for l, c in items:
            r.acc(frozenset(l), c)
        return r

    def acc(self, l, c):
        v = gadd(self.get(l, (0, 0)), c)
        if v == (0, 0):
            self.pop(l, None)
        else:
            self[l] = v

    def add(self, o, sign=1):
        r = Ref(self)
        for l, c in o.items():
            r.acc(l, c if sign == 1 else gneg(c))
        return r

    def mul(self, o):
        r = Ref()
        for p, c in self.items():
            for q, d in o.items():
                l, e = label_mul(p, q)
                r.acc(l, gmul(gmul(c, d), I_UNIT[e]))
        return r

    def smul(self, k):
        return Ref.of((l, gmul(k, c)) for l, c in self.items())

    def dagger(self):
        return Ref.of((l, gconj(c)) for l, c in self.items())

    def div(self, k):
        out = Ref()
        for l, c in self.items():
            q = gdiv_exact(c, k)
            if q is None:
                return None
            out[l] = q
        return out

    def maxabs(self):
        return max([max(abs(c[0]), abs(c[1])) for c in self.values()] + [0])
