"""Independent semantics for C08: exact outcome distributions of circuits (dense state
vector, `oracle/dense.py` gate matrices), exact Pauli expectation values computed directly
from the state vector (no measurement circuit, no reconstructor), and the value the property
demands of the sampling estimator.  Used only to validate the real code / search for failing
inputs — never in place of a theorem."""
from __future__ import annotations

import os
import sys

import numpy as np

sys.path.insert(0, os.path.dirname(os.path.dirname(os.path.abspath(__file__))))
from oracle import dense  # noqa: E402


def state_vector(n: int, gates) -> np.ndarray:
    psi = np.zeros(1 << n, dtype=complex)
    psi[0] = 1.0
    for g in gates:
        psi = dense.gate_unitary(n, g) @ psi
    return psi


def probabilities(n: int, gates, snap_bits: int | None = None) -> np.ndarray:
    """outcome probabilities of the circuit on |0…0⟩.  `snap_bits`: for circuits built from
    {H, S, Sdag, X, Y, Z, CNOT, CZ, SWAP} every probability is 0 or 2^-r; snapping to the
    grid 2^-snap_bits removes the round-off of 1/sqrt(2) and makes them exact dyadics."""
    p = np.abs(state_vector(n, gates)) ** 2
    if snap_bits is not None:
        q = np.round(p * (1 << snap_bits)) / (1 << snap_bits)
        if np.max(np.abs(q - p)) > 1e-9:
            raise ValueError("circuit is not a stabilizer circuit: probabilities are not dyadic")
        p = q
    return p


def ideal_counts(n: int, gates, shots, snap_bits: int | None = None) -> dict:
    """exact outcome frequencies: probability × shots for every outcome of non-zero probability"""
    p = probabilities(n, gates, snap_bits)
    return {int(k): float(p[k]) * shots for k in range(1 << n) if p[k] != 0.0}


def pauli_expectation(psi: np.ndarray, n: int, pauli) -> float:
    """⟨ψ|P|ψ⟩ for `pauli` = iterable of (qubit, id) with id 1=X, 2=Y, 3=Z"""
    idx = [q for q, _ in pauli]
    ids = [int(p) for _, p in pauli]
    if not idx:
        return 1.0
    m = dense.embed(n, idx, dense.pauli_matrix_local(ids))
    return float(np.real(np.vdot(psi, m @ psi)))


def demanded_value(n, state_gates, op_items, groups, shots):
    """identity term + Σ over groups with shots > 0 of Σ_{P in group} c_P ⟨P⟩.
    op_items: [(pauli (tuple of (q, id)), coef)], groups: list of lists of paulis, shots aligned."""
    psi = state_vector(n, state_gates)
    coef = {tuple(sorted(p)): c for p, c in op_items}
    val = complex(coef.get((), 0.0))
    for g, s in zip(groups, shots):
        if s > 0:
            for p in g:
                key = tuple(sorted(p))
                if key in coef:
                    val += coef[key] * pauli_expectation(psi, n, key)
    return val
