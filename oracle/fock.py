"""Independent Fock-space semantics for C13 (numpy only; imports neither quri-parts nor OpenFermion).

Conventions (the *definition* the property is checked against):
  * n spin orbitals (modes) 0..n-1; even index = spin up, odd index = spin down.
  * occupation-number basis |occ>, occ an integer bitmask (bit i = mode i occupied),
        |occ> := a†_{i1} a†_{i2} ... |vac>   with  i1 < i2 < ...            (ascending order)
    hence  a†_j |occ> = (-1)^{#{k<j : occ_k}} |occ + j>   (0 if occ_j),   a_j = (a†_j)†.
  * a fermionic operator is a list of (coef, ((mode, action), ...)) with action 1 = creation,
    0 = annihilation, the product written left to right as in the tuple (so it is applied to a
    ket from the right end), exactly the term format of a FermionOperator.
  * a qubit operator is a list of (coef, ((qubit, 'X'|'Y'|'Z'), ...)); qubit q is bit q of the
    computational-basis index (little endian), Y = [[0,-i],[i,0]].
  * SCBK sign convention: the mapping first reorders the modes to "all up, then all down".
    The Fock state built with creation operators in ascending *reordered* order differs from
    |occ> by  sigma(occ) = (-1)^{#{(i,j) in occ : i<j, i down, j up}}.
"""
from __future__ import annotations

import numpy as np


def popcount(x: int) -> int:
    return bin(x).count("1")


# ---------------------------------------------------------------------------
# fermions
# ---------------------------------------------------------------------------
def apply_ladder(mode: int, action: int, occ: int):
    """(sign, new occ) or None"""
    has = (occ >> mode) & 1
    if action == 1 and has:
        return None
    if action == 0 and not has:
        return None
    sign = -1 if popcount(occ & ((1 << mode) - 1)) & 1 else 1
    return sign, occ ^ (1 << mode)


def apply_term(term, occ: int):
    """apply a product of ladder operators (left-to-right written) to |occ>"""
    sign = 1
    for mode, action in reversed(term):
        r = apply_ladder(mode, action, occ)
        if r is None:
            return None
        s, occ = r
        sign *= s
    return sign, occ


def fermion_matrix(n: int, op) -> np.ndarray:
    """dense 2^n x 2^n matrix  <occ'| op |occ>  (row occ', column occ)"""
    dim = 1 << n
    m = np.zeros((dim, dim), dtype=complex)
    for coef, term in op:
        for occ in range(dim):
            r = apply_term(term, occ)
            if r is not None:
                m[r[1], occ] += coef * r[0]
    return m


def fermion_element(op, occ_to: int, occ_from: int) -> complex:
    tot = 0j
    for coef, term in op:
        r = apply_term(term, occ_from)
        if r is not None and r[1] == occ_to:
            tot += coef * r[0]
    return tot


def conserves_number(term) -> bool:
    return sum(1 if a == 1 else -1 for _, a in term) == 0


def conserves_spin(term) -> bool:
    up = sum((1 if a == 1 else -1) for m, a in term if m % 2 == 0)
    dn = sum((1 if a == 1 else -1) for m, a in term if m % 2 == 1)
    return up == 0 and dn == 0


def occ_of(indices) -> int:
    o = 0
    for i in indices:
        o |= 1 << i
    return o


def indices_of(occ: int):
    return [i for i in range(occ.bit_length()) if (occ >> i) & 1]


def two_sz(occ: int) -> int:
    up = sum(1 for i in indices_of(occ) if i % 2 == 0)
    return 2 * up - popcount(occ)


def sector(n: int, n_e: int, sz2: int):
    """all occupation masks with n_e electrons and 2*sz = sz2"""
    return [o for o in range(1 << n) if popcount(o) == n_e and two_sz(o) == sz2]


def admissible_sectors(n: int):
    """(n_e, 2 sz) such that the sector is non-empty"""
    n_up_max = (n + 1) // 2
    n_dn_max = n // 2
    out = []
    for up in range(n_up_max + 1):
        for dn in range(n_dn_max + 1):
            out.append((up + dn, up - dn))
    return sorted(out)


def sigma_up_then_down(occ: int) -> int:
    idx = indices_of(occ)
    inv = 0
    for a in range(len(idx)):
        for b in range(a + 1, len(idx)):
            if idx[a] % 2 == 1 and idx[b] % 2 == 0:
                inv += 1
    return -1 if inv & 1 else 1


# ---------------------------------------------------------------------------
# qubits
# ---------------------------------------------------------------------------
def apply_pauli(term, b: int):
    """P|b> = phase * |b'>"""
    phase = 1 + 0j
    for q, p in term:
        bit = (b >> q) & 1
        if p == "X":
            b ^= 1 << q
        elif p == "Y":
            phase *= (1j if bit == 0 else -1j)
            b ^= 1 << q
        elif p == "Z":
            if bit:
                phase = -phase
        else:
            raise KeyError(p)
    return phase, b


def qubit_element(op, b_to: int, b_from: int) -> complex:
    tot = 0j
    for coef, term in op:
        ph, b = apply_pauli(term, b_from)
        if b == b_to:
            tot += coef * ph
    return tot


def qubit_column(op, b_from: int) -> dict:
    col: dict = {}
    for coef, term in op:
        ph, b = apply_pauli(term, b_from)
        col[b] = col.get(b, 0j) + coef * ph
    return col
