"""Independent analytic derivatives of expectation values of linearly mapped parametric circuits
(generator insertion), used by the C09 check for failing-input search / validation only.

A *spec* is a plain description (no quri-parts objects):
  {"n": qubits, "P": number of input parameters,
   "gates": [ {"k": <fixed gate name>, "c": [...controls], "t": [...targets], "a": [angles]}      fixed gate
            | {"k": "PRX"|"PRY"|"PRZ", "t": [q], "ang": ANG}                                       parametric
            | {"k": "PPR", "t": [...], "ids": [...], "ang": ANG} ],
   "op": [ [[(qubit, pauli_id), ...], [re, im]], ... ],
   "init": optional list of [re, im] amplitudes of the initial state vector (default |0…0>)}
  ANG = {"p": i}                          the bare input parameter i
      | {"f": [[i | "c", [num, den]], ...]}   linear function, "c" = constant term

Semantics: gate l with raw angle φ_l(θ) = Σ_i M[l][i]·θ_i + b[l] is exp(−i φ_l P_l / 2).
"""
from __future__ import annotations

from fractions import Fraction

import numpy as np

from . import dense

PAR_PAULI = {"PRX": 1, "PRY": 2, "PRZ": 3}


def affine_of(ang, P):
    """(row of M as Fractions, constant b)"""
    row = [Fraction(0)] * P
    b = Fraction(0)
    if "p" in ang:
        row[ang["p"]] += 1
        return row, b
    for k, (num, den) in ang["f"]:
        c = Fraction(num, den)
        if k == "c":
            b += c
        else:
            row[k] += c
    return row, b


def param_gates(spec):
    return [g for g in spec["gates"] if g["k"] in PAR_PAULI or g["k"] == "PPR"]


def mapping_matrix(spec):
    rows, bs = [], []
    for g in param_gates(spec):
        r, b = affine_of(g["ang"], spec["P"])
        rows.append(r)
        bs.append(b)
    return rows, bs


def raw_angles(spec, theta):
    rows, bs = mapping_matrix(spec)
    return [sum(float(c) * float(t) for c, t in zip(r, theta)) + float(b) for r, b in zip(rows, bs)]


def _pauli_of(g):
    if g["k"] == "PPR":
        return list(g["t"]), list(g["ids"])
    return list(g["t"]), [PAR_PAULI[g["k"]]]


def op_matrix(spec):
    n = spec["n"]
    m = np.zeros((1 << n, 1 << n), dtype=complex)
    for term, (re, im) in spec["op"]:
        if term:
            qs = [q for q, _ in term]
            ids = [p for _, p in term]
            m += complex(re, im) * dense.embed(n, qs, dense.pauli_matrix_local(ids))
        else:
            m += complex(re, im) * np.eye(1 << n)
    return m


def _gate_mats(spec, phis):
    """list of (unitary, generator-or-None) in circuit order; generator G = −i/2·P (∂U = G·U)"""
    n = spec["n"]
    out = []
    j = 0
    for g in spec["gates"]:
        if g["k"] in PAR_PAULI or g["k"] == "PPR":
            qs, ids = _pauli_of(g)
            p = dense.embed(n, qs, dense.pauli_matrix_local(ids))
            phi = phis[j]
            j += 1
            u = np.cos(phi / 2) * np.eye(1 << n) - 1j * np.sin(phi / 2) * p
            out.append((u, -0.5j * p))
        else:
            wires = list(g.get("c", [])) + list(g["t"])
            m = dense.local_matrix(g["k"], tuple(g.get("a", [])), tuple(g.get("ids", [])))
            out.append((dense.embed(n, wires, m), None))
    return out


def _state(mats, n, inserts, init=None):
    """U_L … U_1 |init> with the generator of parametric gate number j inserted inserts.count(j) times"""
    if init is None:
        psi = np.zeros(1 << n, dtype=complex)
        psi[0] = 1
    else:
        psi = np.array([complex(a, b) for a, b in init], dtype=complex)
    j = 0
    for u, gen in mats:
        psi = u @ psi
        if gen is not None:
            for _ in range(inserts.count(j)):
                psi = gen @ psi
            j += 1
    return psi


def expectation_raw(spec, phis):
    mats = _gate_mats(spec, phis)
    psi = _state(mats, spec["n"], [], spec.get("init"))
    return complex(np.vdot(psi, op_matrix(spec) @ psi))


def raw_grad_hess(spec, phis, want_hess=True):
    """(∂E/∂φ_j)_j and (∂²E/∂φ_j∂φ_k)_{jk}; no Hermiticity assumed:
    E = <ψ|Oψ>, ∂E = <∂ψ|Oψ> + <ψ|O∂ψ>"""
    n = spec["n"]
    mats = _gate_mats(spec, phis)
    o = op_matrix(spec)
    m = sum(1 for _, g in mats if g is not None)
    init = spec.get("init")
    psi = _state(mats, n, [], init)
    d1 = [_state(mats, n, [j], init) for j in range(m)]
    grad = np.array([np.vdot(d1[j], o @ psi) + np.vdot(psi, o @ d1[j]) for j in range(m)], dtype=complex)
    if not want_hess:
        return grad, None
    hess = np.zeros((m, m), dtype=complex)
    for j in range(m):
        for k in range(j, m):
            d2 = _state(mats, n, [j, k], init)
            v = np.vdot(d2, o @ psi) + np.vdot(d1[j], o @ d1[k]) + np.vdot(d1[k], o @ d1[j]) + np.vdot(psi, o @ d2)
            hess[j, k] = hess[k, j] = v
    return grad, hess


def grad_hess(spec, theta, want_hess=True):
    """analytic gradient / Hessian w.r.t. the input parameters θ (chain rule through φ = Mθ + b)"""
    rows, _ = mapping_matrix(spec)
    mm = np.array([[float(c) for c in r] for r in rows], dtype=float).reshape(len(rows), spec["P"])
    phis = raw_angles(spec, theta)
    g, h = raw_grad_hess(spec, phis, want_hess)
    gt = mm.T @ g if len(rows) else np.zeros(spec["P"], dtype=complex)
    ht = (mm.T @ h @ mm) if (want_hess and len(rows)) else np.zeros((spec["P"], spec["P"]), dtype=complex)
    return gt, ht


def expectation(spec, theta):
    return expectation_raw(spec, raw_angles(spec, theta))


def third_derivative_bound(spec):
    """rigorous bound on |∂³E/∂θ_i³| for every i: each ∂/∂φ_j of a multi-affine trigonometric polynomial bounded
    by B is bounded by B (shift rule), so |∂_θi^3 E| ≤ (Σ_j |M_ji|)³ · Σ|coef|"""
    rows, _ = mapping_matrix(spec)
    onorm = sum(abs(complex(re, im)) for _, (re, im) in spec["op"])
    out = []
    for i in range(spec["P"]):
        s = sum(abs(float(r[i])) for r in rows)
        out.append(s ** 3 * onorm)
    return out
