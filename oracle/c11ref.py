"""Independent reference semantics for C11 (pure Python integers; no quri-parts, no qulacs).

* chunking: written from the *specification* (contiguous, balanced, smaller chunks first),
  not from the expression in concurrent.py: q, r = divmod(n, c); the first c - r chunks hold q
  inputs, the last r chunks q + 1.
* computational-basis calculus: classical reversible gates on a bit string, Pauli-Z-string
  expectation values, rotations by integer multiples of pi.
"""
from __future__ import annotations


def chunk_bounds(n: int, c: int):
    """[(start, stop)] of the c chunks of n inputs; c >= 1"""
    assert c >= 1
    q, r = divmod(n, c)
    out, pos = [], 0
    for i in range(c):
        size = q + (1 if i >= c - r else 0)
        out.append((pos, pos + size))
        pos += size
    assert pos == n
    return out


def chunks(xs, c: int):
    return [list(xs[a:b]) for a, b in chunk_bounds(len(xs), c)]


# --------------------------------------------------------------------------
# gates: ("X", q) ("Z", q) ("S", q) ("T", q) ("CNOT", c, t) ("SWAP", a, b) ("TOFFOLI", c1, c2, t)
# --------------------------------------------------------------------------
def run_classical(bits: int, gates) -> int:
    b = bits
    for g in gates:
        k = g[0]
        if k in ("X", "Y"):
            b ^= 1 << g[1]
        elif k in ("Z", "S", "T", "Identity"):
            pass
        elif k == "CNOT":
            if (b >> g[1]) & 1:
                b ^= 1 << g[2]
        elif k == "SWAP":
            x, y = (b >> g[1]) & 1, (b >> g[2]) & 1
            if x != y:
                b ^= (1 << g[1]) | (1 << g[2])
        elif k == "TOFFOLI":
            if (b >> g[1]) & 1 and (b >> g[2]) & 1:
                b ^= 1 << g[3]
        else:
            raise KeyError(k)
    return b


def expectation(terms, bits: int) -> int:
    """terms: [(coef:int, [(qubit, pauli_id)])], pauli ids 1=X 2=Y 3=Z; basis state `bits`"""
    tot = 0
    for coef, paulis in terms:
        if any(p != 3 for _, p in paulis):
            continue
        par = 0
        for q, _ in paulis:
            par ^= (bits >> q) & 1
        tot += -coef if par else coef
    return tot


def run_parametric(bits: int, pgates, params_pi) -> int:
    """pgates: classical gates, or ("PRX"|"PRY"|"PRZ", q, {param_index: int coef}) or
    ("PPR", [(q, pauli_id)], {param_index: coef}); params_pi: parameter values in units of pi.
    A rotation by m*pi about a Pauli string P acts as P**m up to a phase."""
    b = bits
    for g in pgates:
        k = g[0]
        if k in ("PRX", "PRY", "PRZ"):
            m = sum(c * params_pi[i] for i, c in g[2].items())
            if k != "PRZ" and m % 2:
                b ^= 1 << g[1]
        elif k == "PPR":
            m = sum(c * params_pi[i] for i, c in g[2].items())
            if m % 2:
                for q, p in g[1]:
                    if p in (1, 2):
                        b ^= 1 << q
        else:
            b = run_classical(b, [g])
    return b


def pauli_canon(paulis):
    """canonical form of a Pauli string given as [(qubit, id)]"""
    return tuple(sorted((int(q), int(p)) for q, p in paulis if int(p) != 0))
