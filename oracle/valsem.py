"""C20 oracle: value semantics *by construction*.

`clone(obj)` rebuilds a quri-parts circuit / state as a brand-new, clean object of the class the value
has (fresh Rust objects, flags as a constructor leaves them), sharing nothing mutable with `obj`.
An interpreter that clones every argument before an operation and every result after it cannot exhibit
aliasing, whatever `freeze`, `get_mutable_copy`, `+`, `bind_parameters` … do with references — that
copying run is the independent statement of "the same operations on plain values" against which the
real (reference-sharing) run and the Lean specification are compared.

Also: a small numpy state-vector expectation value used to validate estimator results obtained through
the content-keyed operator caches.
"""
from __future__ import annotations

import math

import numpy as np


def _mods():
    import quri_parts.circuit as qc
    from quri_parts.core.state import GeneralCircuitQuantumState, ParametricCircuitQuantumState

    return qc, GeneralCircuitQuantumState, ParametricCircuitQuantumState


def kind_of(obj) -> str:
    """class tag of a real object: qc iqc bqc pqc ipqc lqc ilqc gs ps"""
    qc, GS, PS = _mods()
    t = type(obj)
    if t is qc.QuantumCircuit:
        return "qc"
    if t is qc.ImmutableBoundParametricQuantumCircuit:
        return "bqc"
    if t is qc.ImmutableQuantumCircuit:
        return "iqc"
    if t is qc.ParametricQuantumCircuit:
        return "pqc"
    if t is qc.ImmutableParametricQuantumCircuit:
        return "ipqc"
    if t is qc.LinearMappedParametricQuantumCircuit:
        return "lqc"
    if t is qc.ImmutableLinearMappedParametricQuantumCircuit:
        return "ilqc"
    if t is GS:
        return "gs"
    if t is PS:
        return "ps"
    return "other:" + t.__name__


def clone_circuit(obj, frozen: bool | None = None):
    """clean rebuild of a circuit; `frozen` overrides the mutability of the result"""
    qc, _, _ = _mods()
    k = kind_of(obj)
    n = obj.qubit_count
    if k in ("qc", "iqc"):
        c = qc.QuantumCircuit(n)
        c.extend(list(obj.gates))
        imm = (k == "iqc") if frozen is None else frozen
        return c.freeze() if imm else c
    if k == "bqc":
        if frozen is False:
            c = qc.QuantumCircuit(n)
            c.extend(list(obj.gates))
            return c
        # a bound circuit has no mutators; in the copying interpreter it was bound from a private copy, so its
        # back reference to the unbound circuit is private too.  (It cannot be rebuilt from its parts: when gates
        # share a parameter, parameter_map does not determine the bound angles.)
        return obj
    if k in ("pqc", "ipqc"):
        c = qc.ParametricQuantumCircuit(n)
        c.extend(obj)
        imm = (k == "ipqc") if frozen is None else frozen
        return c.freeze() if imm else c
    if k in ("lqc", "ilqc"):
        c = qc.LinearMappedParametricQuantumCircuit(n)
        c.extend(obj)
        imm = (k == "ilqc") if frozen is None else frozen
        return c.freeze() if imm else c
    raise TypeError(f"clone_circuit: {k}")


def clone(obj):
    _, GS, PS = _mods()
    k = kind_of(obj)
    if k == "gs":
        return GS(obj.qubit_count, clone_circuit(obj.circuit, frozen=True))
    if k == "ps":
        return PS(obj.qubit_count, clone_circuit(obj.parametric_circuit, frozen=True))
    return clone_circuit(obj)


# --------------------------------------------------------------------------------------------
# numpy expectation values (little endian: qubit 0 is the least significant bit, as in qulacs)
# --------------------------------------------------------------------------------------------
_I = np.eye(2, dtype=complex)
_X = np.array([[0, 1], [1, 0]], dtype=complex)
_Y = np.array([[0, -1j], [1j, 0]], dtype=complex)
_Z = np.array([[1, 0], [0, -1]], dtype=complex)
_H = np.array([[1, 1], [1, -1]], dtype=complex) / math.sqrt(2)


def _one(name, params):
    if name == "X":
        return _X
    if name == "H":
        return _H
    t = params[0] if params else 0.0
    c, s = math.cos(t / 2), math.sin(t / 2)
    if name == "RX":
        return np.array([[c, -1j * s], [-1j * s, c]])
    if name == "RY":
        return np.array([[c, -s], [s, c]], dtype=complex)
    if name == "RZ":
        return np.array([[np.exp(-0.5j * t), 0], [0, np.exp(0.5j * t)]])
    raise KeyError(name)


def apply_gate(psi, n, g):
    name = g.name
    if name in ("X", "H", "RX", "RY", "RZ"):
        q = g.target_indices[0]
        m = _one(name, g.params)
        psi = psi.reshape([2] * n)
        ax = n - 1 - q
        psi = np.moveaxis(np.tensordot(m, psi, axes=([1], [ax])), 0, ax)
        return psi.reshape(-1)
    out = psi.copy()
    if name == "CNOT":
        c, t = g.control_indices[0], g.target_indices[0]
        for i in range(1 << n):
            if (i >> c) & 1:
                out[i] = psi[i ^ (1 << t)]
        return out
    if name == "SWAP":
        a, b = g.target_indices
        for i in range(1 << n):
            ba, bb = (i >> a) & 1, (i >> b) & 1
            j = i & ~(1 << a) & ~(1 << b) | (bb << a) | (ba << b)
            out[i] = psi[j]
        return out
    raise KeyError(name)


def state_vector(n, gates):
    psi = np.zeros(1 << n, dtype=complex)
    psi[0] = 1
    for g in gates:
        psi = apply_gate(psi, n, g)
    return psi


def pauli_matrix(n, label) -> np.ndarray:
    """label: iterable of (qubit, pauli id 1..3)"""
    ids = dict(label)
    m = np.array([[1]], dtype=complex)
    for q in range(n - 1, -1, -1):
        m = np.kron(m, {0: _I, 1: _X, 2: _Y, 3: _Z}[ids.get(q, 0)])
    return m


def expectation(n, gates, terms) -> complex:
    """terms: iterable of (label as ((qubit, id), …), coefficient)"""
    psi = state_vector(n, gates)
    e = 0j
    for label, coef in terms:
        e += coef * np.vdot(psi, pauli_matrix(n, label) @ psi)
    return complex(e)
