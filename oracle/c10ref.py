"""Independent reference semantics for C10 (pure Python, exact `Fraction` arithmetic, no quri-parts).

A parametric circuit *means*: an ordered list of distinct parameters (identified by identity,
never by name) and a gate list in which every parametric gate carries an affine function of those
parameters.  Combining circuits takes the union of the parameter lists (a parameter shared by both
operands is the same parameter) and concatenates the gate lists.  Binding evaluates every function
at the given parameter values.

Used only to look for a concrete failing input on the real implementation and to validate the
model's premises; it is not part of any theorem.

Operations are the parsed tuples of harness/c10.py:
  ("newL", n) ("newP", n) ("addParams", h, k) ("addGate", h, gate) ("insGate", h, index, gate)
  ("addPar", h, pk, ts, ids, ang)
  ("extend", h, src) ("plus", h, src) ("rplus", src, h)
  ang = ("P", ref) | ("F", [(ref, coef)]) | None ; ref = "C" | (j, i)
  src = ("h", j) | ("L", gates) | ("Q", n, gates)
"""
from __future__ import annotations

from fractions import Fraction

BOUND = {"rx": "RX", "ry": "RY", "rz": "RZ", "prot": "PauliRotation"}


class RefError(Exception):
    """the reference semantics rejects the operation (the real code must raise as well)"""


class RCirc:
    def __init__(self, kind, n):
        self.kind = kind  # "L" | "P"
        self.n = n
        self.params = []  # distinct parameter ids, in order of first appearance
        self.gates = []  # ("f", gate) | ("p", pk, ts, ids, {param|"C": Fraction})

    def copy(self):
        c = RCirc(self.kind, self.n)
        c.params = list(self.params)
        c.gates = list(self.gates)
        return c


def gate_qubits(g):
    return list(g[2]) + list(g[3])


class Ref:
    def __init__(self):
        self.circs: list[RCirc] = []
        self.fresh = 0

    def new_param(self):
        self.fresh += 1
        return self.fresh

    # -- helpers ---------------------------------------------------------------------------
    def _add_fixed(self, c: RCirc, g):
        if any(q >= c.n for q in gate_qubits(g)):
            raise RefError("index")
        c.gates.append(("f", g))

    def _absorb(self, dst: RCirc, src: RCirc):
        for p in src.params:
            if p not in dst.params:
                dst.params.append(p)
        dst.gates.extend(src.gates)

    # -- operations --------------------------------------------------------------------------
    def apply(self, op, refs_resolved=None):
        """returns the list of parameter ids created (for identity tracking); raises RefError"""
        t = op[0]
        if t in ("newL", "newP"):
            self.circs.append(RCirc("L" if t == "newL" else "P", op[1]))
            return []
        if t == "addParams":
            c = self.circs[op[1]]
            new = [self.new_param() for _ in range(op[2])]
            c.params.extend(new)
            return new
        if t == "addGate":
            self._add_fixed(self.circs[op[1]], op[2])
            return []
        if t == "insGate":
            # add_gate(gate, gate_index): the gate is placed at position gate_index of the gate list (0 ≤ index ≤ length)
            c = self.circs[op[1]]
            if any(q >= c.n for q in gate_qubits(op[3])):
                raise RefError("index")
            if not 0 <= op[2] <= len(c.gates):
                raise RefError("gate position")
            c.gates.insert(op[2], ("f", op[3]))
            return []
        if t == "addPar":
            _, h, pk, ts, ids, ang = op
            c = self.circs[h]
            if c.kind == "P":
                if any(q >= c.n for q in ts):
                    raise RefError("index")
                p = self.new_param()
                c.params.append(p)
                c.gates.append(("p", pk, tuple(ts), tuple(ids), {p: Fraction(1)}))
                return [p]
            fn = {}
            if ang[0] == "P":
                fn[refs_resolved[0]] = Fraction(1)
            else:
                for r, (_, coef) in zip(refs_resolved, ang[1]):
                    fn[r] = coef  # dict semantics: a repeated key keeps the last coefficient
            for p in fn:
                if p != "C" and p not in c.params:
                    raise RefError("foreign parameter")
            if any(q >= c.n for q in ts):
                raise RefError("index")
            c.gates.append(("p", pk, tuple(ts), tuple(ids), fn))
            return []
        if t == "extend":
            self._extend(self.circs[op[1]], op[2])
            return []
        if t == "plus":
            base = self.circs[op[1]]
            src = op[2]
            if base.kind == "P" and src[0] == "h" and self.circs[src[1]].kind == "L":
                # plain + linear-mapped is a linear-mapped circuit
                o = self.circs[src[1]]
                r = RCirc("L", o.n)
                self._extend(r, ("h", op[1]))
                self._extend(r, src)
            else:
                r = base.copy()
                self._extend(r, src, strict=True)
            self.circs.append(r)
            return []
        if t == "rplus":
            base = self.circs[op[2]]
            r = RCirc(base.kind, base.n)
            self._extend(r, op[1], strict=True)
            self._extend(r, ("h", op[2]))
            self.circs.append(r)
            return []
        raise RefError(f"unsupported op {t}")

    def _extend(self, c: RCirc, src, strict=False):
        if src[0] == "h":
            o = self.circs[src[1]]
            if c.kind == "L":
                if o.n != c.n:
                    raise RefError("qubit count")
                self._absorb(c, o)
            else:
                if o.kind == "L":
                    raise RefError("plain circuit cannot absorb a linear-mapped one")
                # plain circuits: every parametric gate is an independent positional slot.  Copying a whole
                # plain circuit into a circuit that holds none of its slots is unproblematic; the same slot
                # twice in one plain circuit is a representation question the reference has no opinion on
                # (not generated in oracle mode).
                if any(p in c.params for p in o.params) or o is c:
                    raise RefError("unsupported in the reference: plain <- plain with shared slots")
                for g in o.gates:
                    qs = gate_qubits(g[1]) if g[0] == "f" else list(g[2])
                    if any(q >= c.n for q in qs):
                        raise RefError("index")
                c.params.extend(o.params)
                c.gates.extend(o.gates)
            return
        gates = src[1] if src[0] == "L" else src[2]
        if src[0] == "Q" and c.kind == "L" and src[1] != c.n:
            raise RefError("qubit count")
        for g in gates:
            if any(q >= c.n for q in gate_qubits(g)):
                raise RefError("index")
        for g in gates:
            c.gates.append(("f", g))

    # -- binding -----------------------------------------------------------------------------
    def bind(self, h, values_by_param: dict):
        """gate list with every parametric gate carrying its function's value"""
        out = []
        for g in self.circs[h].gates:
            if g[0] == "f":
                out.append(g[1])
            else:
                _, pk, ts, ids, fn = g
                v = Fraction(0)
                for p, c in fn.items():
                    v += c * (Fraction(1) if p == "C" else values_by_param[p])
                out.append(("f", BOUND[pk], (), tuple(ts), (("v", v),), tuple(ids)))
        return out
