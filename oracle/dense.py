"""Independent dense-matrix semantics of quri-parts gates (documented matrices of
gates.py, little endian: qubit q is bit q of the basis index).  Used for the
failing-input search and for validating assumed backend semantics – never as a
substitute for a theorem."""
from __future__ import annotations

import cmath
import math

import numpy as np

I2 = np.eye(2, dtype=complex)
PX = np.array([[0, 1], [1, 0]], dtype=complex)
PY = np.array([[0, -1j], [1j, 0]], dtype=complex)
PZ = np.array([[1, 0], [0, -1]], dtype=complex)
PAULI = {0: I2, 1: PX, 2: PY, 3: PZ}


def rx(t):
    c, s = math.cos(t / 2), math.sin(t / 2)
    return np.array([[c, -1j * s], [-1j * s, c]], dtype=complex)


def ry(t):
    c, s = math.cos(t / 2), math.sin(t / 2)
    return np.array([[c, -s], [s, c]], dtype=complex)


def rz(t):
    return np.array([[cmath.exp(-0.5j * t), 0], [0, cmath.exp(0.5j * t)]], dtype=complex)


def u3(t, p, l):
    c, s = math.cos(t / 2), math.sin(t / 2)
    return np.array([[c, -cmath.exp(1j * l) * s], [cmath.exp(1j * p) * s, cmath.exp(1j * (p + l)) * c]], dtype=complex)


def u1q(t, p):
    c, s = math.cos(t / 2), math.sin(t / 2)
    return np.array([[c, -1j * cmath.exp(-1j * p) * s], [-1j * cmath.exp(1j * p) * s, c]], dtype=complex)


ONE = {
    "Identity": I2,
    "X": PX,
    "Y": PY,
    "Z": PZ,
    "H": np.array([[1, 1], [1, -1]], dtype=complex) / math.sqrt(2),
    "S": np.diag([1, 1j]).astype(complex),
    "Sdag": np.diag([1, -1j]).astype(complex),
    "SqrtX": np.array([[1 + 1j, 1 - 1j], [1 - 1j, 1 + 1j]], dtype=complex) / 2,
    "SqrtXdag": np.array([[1 - 1j, 1 + 1j], [1 + 1j, 1 - 1j]], dtype=complex) / 2,
    "SqrtY": (1 + 1j) / 2 * np.array([[1, -1], [1, 1]], dtype=complex),
    "SqrtYdag": (1 - 1j) / 2 * np.array([[1, 1], [-1, 1]], dtype=complex),
    "T": np.diag([1, cmath.exp(0.25j * math.pi)]).astype(complex),
    "Tdag": np.diag([1, cmath.exp(-0.25j * math.pi)]).astype(complex),
}


def pauli_matrix_local(ids):
    """local matrix on len(ids) qubits, local bit i <-> ids[i]"""
    m = np.array([[1]], dtype=complex)
    for pid in ids:  # bit 0 is least significant -> kron(new, m)
        m = np.kron(PAULI[pid], m)
    return m


def local_matrix(name, params=(), pauli_ids=(), unitary_matrix=None, n_targets=1, n_controls=0):
    """returns (matrix, wire order) where local bit i corresponds to wires[i];
    wire order is controls then targets"""
    if name in ONE:
        return ONE[name]
    if name in ("RX", "ParametricRX"):
        return rx(params[0])
    if name in ("RY", "ParametricRY"):
        return ry(params[0])
    if name in ("RZ", "ParametricRZ"):
        return rz(params[0])
    if name == "U1":
        return np.diag([1, cmath.exp(1j * params[0])]).astype(complex)
    if name == "U2":
        return u3(math.pi / 2, params[0], params[1])
    if name == "U3":
        return u3(*params)
    if name == "U1q":
        return u1q(*params)
    if name == "CNOT":  # wires [c, t]
        m = np.zeros((4, 4), dtype=complex)
        for c in range(4):
            bc, bt = c & 1, c >> 1
            m[bc + 2 * (bt ^ bc), c] = 1
        return m
    if name == "CZ":
        return np.diag([1, 1, 1, -1]).astype(complex)
    if name == "SWAP":
        m = np.zeros((4, 4), dtype=complex)
        for c in range(4):
            m[(c >> 1) + 2 * (c & 1), c] = 1
        return m
    if name == "TOFFOLI":  # wires [c1, c2, t]
        m = np.zeros((8, 8), dtype=complex)
        for c in range(8):
            c1, c2, t = c & 1, (c >> 1) & 1, c >> 2
            m[c1 + 2 * c2 + 4 * (t ^ (c1 & c2)), c] = 1
        return m
    if name == "Pauli":
        return pauli_matrix_local(pauli_ids)
    if name in ("PauliRotation", "ParametricPauliRotation"):
        p = pauli_matrix_local(pauli_ids)
        t = params[0]
        return math.cos(t / 2) * np.eye(p.shape[0]) - 1j * math.sin(t / 2) * p
    if name == "UnitaryMatrix":
        return np.array(unitary_matrix, dtype=complex)
    if name == "ZZ":
        return np.diag(np.exp(-0.25j * math.pi * np.array([1, -1, -1, 1]))).astype(complex)
    if name == "RZZ":
        return np.diag(np.exp(-0.5j * params[0] * np.array([1, -1, -1, 1]))).astype(complex)
    if name == "XX":
        return math.cos(params[0]) * np.eye(4) - 1j * math.sin(params[0]) * np.kron(PX, PX)
    raise KeyError(name)


def embed(n, wires, m):
    """operator on n qubits acting as m on `wires` (local bit i <-> wires[i])"""
    dim = 1 << n
    k = len(wires)
    out = np.zeros((dim, dim), dtype=complex)
    mask = 0
    for w in wires:
        mask |= 1 << w
    for c in range(dim):
        lc = 0
        for i, w in enumerate(wires):
            lc |= ((c >> w) & 1) << i
        base = c & ~mask
        for lr in range(1 << k):
            v = m[lr, lc]
            if v != 0:
                r = base
                for i, w in enumerate(wires):
                    r |= ((lr >> i) & 1) << w
                out[r, c] += v
    return out


def gate_unitary(n, g):
    """g: a quri-parts QuantumGate (or anything with the same attributes)"""
    name = g.name
    wires = list(g.control_indices) + list(g.target_indices)
    um = None
    if name == "UnitaryMatrix":
        um = g.unitary_matrix
    m = local_matrix(name, tuple(g.params), tuple(g.pauli_ids), um)
    return embed(n, wires, m)


def circuit_unitary(n, gates):
    u = np.eye(1 << n, dtype=complex)
    for g in gates:
        if g.name == "Measurement":
            continue
        u = gate_unitary(n, g) @ u
    return u


def phase_dist(a, b):
    """min over global phases of max|a - e^{iφ} b|"""
    a = np.asarray(a)
    b = np.asarray(b)
    idx = np.unravel_index(np.argmax(np.abs(b)), b.shape)
    if abs(b[idx]) < 1e-12 or abs(a[idx]) < 1e-12:
        return float(np.max(np.abs(a - b)))
    ph = a[idx] / b[idx]
    ph = ph / abs(ph)
    return float(np.max(np.abs(a - ph * b)))


def random_unitary(rng, dim):
    """Haar-ish random unitary from a python `random.Random`"""
    z = np.array([[complex(rng.gauss(0, 1), rng.gauss(0, 1)) for _ in range(dim)] for _ in range(dim)])
    q, r = np.linalg.qr(z)
    d = np.diag(r)
    return q * (d / np.abs(d))
