"""Independent state-vector semantics for C16 (numpy; little endian: qubit q is bit q of the basis index).

Used only to look for a concrete failing input on the REAL code and to validate the semantics the Lean model assumes.
Pauli gates, RZ and PauliRotation are implemented here directly on the amplitude array (index arithmetic, no
matrices from the code under test); other gate kinds go through oracle/dense.py's documented local matrices."""
from __future__ import annotations

import cmath
import math

import numpy as np

from oracle import dense


def basis(n: int, bits: int, phase: int = 0) -> np.ndarray:
    v = np.zeros(1 << n, dtype=complex)
    v[bits] = 1j ** (phase % 4)
    return v


def _idx(n):
    return np.arange(1 << n)


def apply_single_pauli(v: np.ndarray, n: int, pid: int, q: int) -> np.ndarray:
    """pid 1,2,3 = X,Y,Z on qubit q:  (Pψ)(x) = Σ_y P[x_q, y_q] ψ(y)"""
    x = _idx(n)
    bit = (x >> q) & 1
    if pid == 1:
        return v[x ^ (1 << q)].copy()
    if pid == 2:
        # Y = [[0,-i],[i,0]] : row bit 1 takes  i·ψ(bit 0), row bit 0 takes −i·ψ(bit 1)
        return np.where(bit == 1, 1j, -1j) * v[x ^ (1 << q)]
    if pid == 3:
        return np.where(bit == 1, -1.0, 1.0) * v
    raise KeyError(pid)


def apply_pauli_string(v, n, targets, ids):
    for q, pid in zip(targets, ids):
        v = apply_single_pauli(v, n, pid, q)
    return v


def apply_gate(v: np.ndarray, n: int, g) -> np.ndarray:
    """g: anything with name/target_indices/control_indices/params/pauli_ids/unitary_matrix"""
    name = g.name
    t = list(g.target_indices)
    if name in ("X", "Y", "Z"):
        return apply_single_pauli(v, n, {"X": 1, "Y": 2, "Z": 3}[name], t[0])
    if name == "Pauli":
        return apply_pauli_string(v, n, t, list(g.pauli_ids))
    if name == "RZ":
        a = g.params[0]
        bit = (_idx(n) >> t[0]) & 1
        return np.where(bit == 1, cmath.exp(0.5j * a), cmath.exp(-0.5j * a)) * v
    if name == "PauliRotation":
        a = g.params[0]
        return math.cos(a / 2) * v - 1j * math.sin(a / 2) * apply_pauli_string(v, n, t, list(g.pauli_ids))
    return dense.gate_unitary(n, g) @ v


def run_circuit(n: int, gates, v=None) -> np.ndarray:
    if v is None:
        v = basis(n, 0)
    for g in gates:
        v = apply_gate(v, n, g)
    return v


def superposition_target(n, a, pa, b, pb, theta, phi) -> np.ndarray:
    """cos θ · i^pa |a> + e^{iφ} sin θ · i^pb |b>"""
    v = np.zeros(1 << n, dtype=complex)
    v[a] += math.cos(theta) * 1j ** (pa % 4)
    v[b] += cmath.exp(1j * phi) * math.sin(theta) * 1j ** (pb % 4)
    return v


def phase_defect(u: np.ndarray, w: np.ndarray) -> float:
    """distance between two vectors modulo a global phase: min_c ||u − c·w||, |c| = 1"""
    ov = np.vdot(w, u)
    if abs(ov) < 1e-300:
        return float(np.linalg.norm(u) + np.linalg.norm(w))
    c = ov / abs(ov)
    return float(np.linalg.norm(u - c * w))


# ---------------------------------------------------------------------------
# sparse simulation (dict index -> amplitude) for registers too large for a dense vector;
# supports the gate kinds that basis-state circuits and comp_basis_superposition emit, and Pauli gates
# ---------------------------------------------------------------------------
def _sp_pauli(state: dict, q: int, pid: int) -> dict:
    out = {}
    for x, amp in state.items():
        bit = (x >> q) & 1
        if pid == 1:
            y, c = x ^ (1 << q), 1
        elif pid == 2:
            # Y|0> = i|1>, Y|1> = -i|0>
            y, c = x ^ (1 << q), (1j if bit == 0 else -1j)
        elif pid == 3:
            y, c = x, (-1 if bit else 1)
        else:
            raise KeyError(pid)
        out[y] = out.get(y, 0) + c * amp
    return out


def sparse_apply(state: dict, g):
    name = g.name
    t = list(g.target_indices)
    if name in ("X", "Y", "Z"):
        return _sp_pauli(state, t[0], {"X": 1, "Y": 2, "Z": 3}[name])
    if name == "Pauli":
        for q, pid in zip(t, g.pauli_ids):
            state = _sp_pauli(state, q, pid)
        return state
    if name == "RZ":
        a = g.params[0]
        return {x: amp * (cmath.exp(0.5j * a) if (x >> t[0]) & 1 else cmath.exp(-0.5j * a)) for x, amp in state.items()}
    if name == "PauliRotation":
        a = g.params[0]
        p = dict(state)
        for q, pid in zip(t, g.pauli_ids):
            p = _sp_pauli(p, q, pid)
        out = {x: math.cos(a / 2) * amp for x, amp in state.items()}
        for x, amp in p.items():
            out[x] = out.get(x, 0) - 1j * math.sin(a / 2) * amp
        return out
    return None


def sparse_run(gates, state=None):
    state = {0: 1.0 + 0j} if state is None else dict(state)
    for g in gates:
        state = sparse_apply(state, g)
        if state is None:
            return None
    return state


def sparse_basis(bits: int, phase: int = 0) -> dict:
    return {bits: 1j ** (phase % 4)}


def sparse_target(a, pa, b, pb, theta, phi) -> dict:
    out = {}
    out[a] = out.get(a, 0) + math.cos(theta) * 1j ** (pa % 4)
    out[b] = out.get(b, 0) + cmath.exp(1j * phi) * math.sin(theta) * 1j ** (pb % 4)
    return out


def sparse_norm(u: dict) -> float:
    return math.sqrt(sum(abs(v) ** 2 for v in u.values()))


def sparse_phase_defect(u: dict, w: dict) -> float:
    keys = set(u) | set(w)
    ov = sum(complex(w.get(k, 0)).conjugate() * u.get(k, 0) for k in keys)
    if abs(ov) < 1e-300:
        return sparse_norm(u) + sparse_norm(w)
    c = ov / abs(ov)
    return math.sqrt(sum(abs(u.get(k, 0) - c * w.get(k, 0)) ** 2 for k in keys))
