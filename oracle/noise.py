"""Independent executable semantics for C17 (numpy only; never imports quri-parts or the Lean model).

Used only (a) to search for a concrete failing input on the REAL code and (b) to validate the backend semantics the
Lean model assumes (which Qulacs channel a flip instruction becomes, that `Probabilistic` assigns the missing weight to
the identity, …).  Textbook definitions, written independently of noise_instruction.py:

  bit flip          ρ ↦ (1-p)ρ + p XρX                      phase flip  ρ ↦ (1-p)ρ + p ZρZ
  independent XZ    bit flip(p) ∘ phase flip(p)              depolarizing ρ ↦ (1-p)ρ + p/3 (XρX + YρY + ZρZ)
  reset             ρ ↦ (1-p0-p1)ρ + p0 |0><0| tr ρ + p1 |1><1| tr ρ
  phase damping     off-diagonals × √(1-λ)
  generalised amplitude damping (rate γ, excited population s), combined phase/amplitude damping
  thermal relaxation: Choi matrix from (T1, T2, t, s)
"""
from __future__ import annotations

import math

import numpy as np

I2 = np.eye(2, dtype=complex)
X = np.array([[0, 1], [1, 0]], dtype=complex)
Y = np.array([[0, -1j], [1j, 0]], dtype=complex)
Z = np.array([[1, 0], [0, -1]], dtype=complex)
PAULI = [I2, X, Y, Z]


# ---------------------------------------------------------------------------
# documented ranges (independent transcription of the docstrings / error messages)
# ---------------------------------------------------------------------------
def is_prob(x) -> bool:
    return isinstance(x, (int, float)) and not math.isnan(x) and 0.0 <= x <= 1.0


def in_range(name: str, ps) -> bool:
    from fractions import Fraction as F

    def fin(x):
        return not (math.isnan(x) or math.isinf(x))

    if name in ("BitFlipNoise", "PhaseFlipNoise", "BitPhaseFlipNoise", "DepolarizingNoise", "PhaseDampingNoise"):
        return is_prob(ps[0])
    if name == "ResetNoise":
        return is_prob(ps[0]) and is_prob(ps[1]) and F(ps[0]) + F(ps[1]) <= 1
    if name == "AmplitudeDampingNoise":
        return is_prob(ps[0]) and is_prob(ps[1])
    if name == "PhaseAmplitudeDampingNoise":
        return is_prob(ps[0]) and is_prob(ps[1]) and is_prob(ps[2]) and F(ps[0]) + F(ps[1]) <= 1
    if name == "ThermalRelaxationNoise":
        t1, t2, t, s = ps
        if any(math.isnan(v) for v in ps) or not is_prob(s):
            return False
        if not (t >= 0 and t1 > 0 and t2 > 0):
            return False
        if t1 == math.inf:
            return True
        if t2 == math.inf:
            return False
        return F(t2) <= 2 * F(t1)
    raise KeyError(name)


# ---------------------------------------------------------------------------
# linear algebra
# ---------------------------------------------------------------------------
def kraus_residual(ks) -> float:
    ks = [np.asarray(k, dtype=complex) for k in ks]
    d = ks[0].shape[0]
    s = sum(k.conj().T @ k for k in ks)
    return float(np.max(np.abs(s - np.eye(d))))


def choi_of_kraus(ks):
    ks = [np.asarray(k, dtype=complex) for k in ks]
    d = ks[0].shape[0]
    c = np.zeros((d * d, d * d), dtype=complex)
    for k in ks:
        v = k.reshape(-1, 1, order="F")  # vec(K), column stacking
        c += v @ v.conj().T
    return c


def embed(n: int, qubits, m):
    """operator `m` (little-endian over `qubits`: qubits[0] is the least significant bit of m's index) on n qubits"""
    m = np.asarray(m, dtype=complex)
    k = len(qubits)
    dim = 1 << n
    out = np.zeros((dim, dim), dtype=complex)
    rest = [q for q in range(n) if q not in qubits]
    for r in range(1 << len(rest)):
        base = 0
        for i, q in enumerate(rest):
            if (r >> i) & 1:
                base |= 1 << q
        idx = []
        for a in range(1 << k):
            v = base
            for i, q in enumerate(qubits):
                if (a >> i) & 1:
                    v |= 1 << q
            idx.append(v)
        for a in range(1 << k):
            for b in range(1 << k):
                out[idx[a], idx[b]] = m[a, b]
    return out


def apply_kraus(rho, ks, n, qubits):
    out = np.zeros_like(rho)
    for k in ks:
        e = embed(n, qubits, k)
        out += e @ rho @ e.conj().T
    return out


def random_density(rng, n):
    d = 1 << n
    a = np.array([[complex(rng.gauss(0, 1), rng.gauss(0, 1)) for _ in range(d)] for _ in range(d)])
    r = a @ a.conj().T
    return r / np.trace(r)


def min_eig(rho) -> float:
    h = (rho + rho.conj().T) / 2
    if not np.all(np.isfinite(h)):
        return float("nan")
    return float(np.min(np.linalg.eigvalsh(h)))


# ---------------------------------------------------------------------------
# textbook channels (Kraus sets), independent of the code under test
# ---------------------------------------------------------------------------
def mixture_kraus(weights_ops):
    return [math.sqrt(w) * u for w, u in weights_ops if w > 0]


def textbook_kraus(name: str, ps):
    """Kraus operators of the channel the instruction is documented to be, for IN-RANGE parameters"""
    if name == "BitFlipNoise":
        p = ps[0]
        return mixture_kraus([(1 - p, I2), (p, X)])
    if name == "PhaseFlipNoise":
        p = ps[0]
        return mixture_kraus([(1 - p, I2), (p, Z)])
    if name == "BitPhaseFlipNoise":  # the conversion uses Qulacs' IndependentXZNoise
        p = ps[0]
        return mixture_kraus([((1 - p) ** 2, I2), (p * (1 - p), X), (p * (1 - p), Z), (p * p, Y)])
    if name == "DepolarizingNoise":
        p = ps[0]
        return mixture_kraus([(1 - p, I2), (p / 3, X), (p / 3, Y), (p / 3, Z)])
    if name == "ResetNoise":
        p0, p1 = ps
        k = [math.sqrt(max(0.0, 1 - p0 - p1)) * I2]
        for a in (0, 1):
            for b, pb in ((0, p0), (1, p1)):
                m = np.zeros((2, 2), dtype=complex)
                m[b, a] = math.sqrt(pb)
                k.append(m)
        return k
    if name == "PhaseDampingNoise":
        lam = ps[0]
        return [np.diag([1, math.sqrt(1 - lam)]).astype(complex), np.diag([0, math.sqrt(lam)]).astype(complex)]
    if name == "AmplitudeDampingNoise":
        return textbook_kraus("PhaseAmplitudeDampingNoise", [0.0, ps[0], ps[1]])
    if name == "PhaseAmplitudeDampingNoise":
        lam, gam, s = ps
        r = math.sqrt(max(0.0, 1 - gam - lam))
        g0, g1 = math.sqrt(1 - s), math.sqrt(s)
        return [
            g0 * np.array([[1, 0], [0, r]], dtype=complex), g0 * np.array([[0, math.sqrt(gam)], [0, 0]], dtype=complex),
            g0 * np.array([[0, 0], [0, math.sqrt(lam)]], dtype=complex),
            g1 * np.array([[r, 0], [0, 1]], dtype=complex), g1 * np.array([[0, 0], [math.sqrt(gam), 0]], dtype=complex),
            g1 * np.array([[math.sqrt(lam), 0], [0, 0]], dtype=complex),
        ]
    if name == "ThermalRelaxationNoise":
        return kraus_of_choi(thermal_choi(*ps))
    raise KeyError(name)


def thermal_rates(t1, t2, t):
    a = 0.0 if t1 == math.inf else 1.0 - math.exp(-t / t1) if t != math.inf else 1.0
    e = 1.0 if t2 == math.inf else math.exp(-t / t2) if t != math.inf else 0.0
    return a, e


def thermal_choi(t1, t2, t, s):
    a, e = thermal_rates(t1, t2, t)
    p0, p1 = 1 - s, s
    return np.array([[1 - p1 * a, 0, 0, e], [0, p1 * a, 0, 0], [0, 0, p0 * a, 0], [e, 0, 0, 1 - p0 * a]], dtype=float)


def kraus_of_choi(c):
    w, v = np.linalg.eigh(np.asarray(c, dtype=float))
    ks = []
    for lam, vec in zip(w, v.T):
        if lam > 1e-15:
            ks.append(math.sqrt(lam) * vec.reshape(2, 2, order="F").astype(complex))
    return ks


def pauli_string_matrix(ids):
    """little-endian: ids[0] acts on the first listed qubit = least significant bit"""
    m = np.array([[1]], dtype=complex)
    for i in ids:
        m = np.kron(PAULI[i], m)
    return m


def superop(ks):
    ks = [np.asarray(k, dtype=complex) for k in ks]
    return sum(np.kron(k, k.conj()) for k in ks)
