"""Independent dense-matrix semantics of qsub op terms (primitives, user subs with auxiliaries and a tracked
phase, Inverse, Controlled, MultiControlled).  Used only to search for failing inputs on the REAL code and to
validate the semantics assumed by the Lean tables (which qubit is the control, bit order of control_value, …).

term ::= ("prim", name, k)            k: angle in units of π/8 (None for non-parametric ops)
       | ("user", uid)                subs[uid] = (nargs, naux, phase_k, [(term, qubits)])   phase in units of π/4
       | ("inv", term) | ("ctl", term) | ("mctl", term, bits, value)
"""
from __future__ import annotations

import cmath
import math

import numpy as np

from . import dense

ARITY = {n: 1 for n in ["Identity", "H", "X", "Y", "Z", "S", "Sdag", "SqrtX", "SqrtXdag", "SqrtY", "SqrtYdag", "T", "Tdag",
                        "RX", "RY", "RZ", "Phase"]}
ARITY.update({"CNOT": 2, "CZ": 2, "SWAP": 2, "Toffoli": 3})
PARAM = {"RX", "RY", "RZ", "Phase"}


class NotClean(Exception):
    """a user sub does not return its auxiliaries to |0> (the generator avoids this; such cases are skipped)"""


def arity(t, subs):
    k = t[0]
    if k == "prim":
        return ARITY[t[1]]
    if k == "user":
        return subs[t[1]][0]
    if k == "inv":
        return arity(t[1], subs)
    if k == "ctl":
        return arity(t[1], subs) + 1
    if k == "mctl":
        return arity(t[1], subs) + t[2]
    raise KeyError(k)


def prim_matrix(name, k):
    if name == "Phase":
        return np.diag([1, cmath.exp(1j * k * math.pi / 8)]).astype(complex)
    if name in ("RX", "RY", "RZ"):
        return dense.local_matrix(name, (k * math.pi / 8,))
    if name == "Toffoli":
        return dense.local_matrix("TOFFOLI")
    return dense.local_matrix(name)


def unitary(t, subs):
    """matrix on arity(t) qubits; local bit i <-> i-th qubit of the op"""
    k = t[0]
    if k == "prim":
        return prim_matrix(t[1], t[2])
    if k == "user":
        nargs, naux, phase_k, ops = subs[t[1]]
        n = nargs + naux
        u = np.eye(1 << n, dtype=complex)
        for term, qs in ops:
            u = dense.embed(n, list(qs), unitary(term, subs)) @ u
        d = 1 << nargs
        if naux and np.max(np.abs(u[d:, :d])) > 1e-9:
            raise NotClean()
        return cmath.exp(1j * phase_k * math.pi / 4) * u[:d, :d]
    if k == "inv":
        return unitary(t[1], subs).conj().T
    if k == "ctl":
        u = unitary(t[1], subs)
        d = u.shape[0]
        m = np.eye(2 * d, dtype=complex)
        for r in range(d):
            for c in range(d):
                m[1 + 2 * r, 1 + 2 * c] = u[r, c]
        return m
    if k == "mctl":
        u = unitary(t[1], subs)
        bits, value = t[2], t[3]
        d = u.shape[0]
        m = np.eye(d << bits, dtype=complex)
        for r in range(d):
            for c in range(d):
                m[value + (r << bits), value + (c << bits)] = u[r, c]
        return m
    raise KeyError(k)


def children(t, subs):
    k = t[0]
    if k in ("inv", "ctl", "mctl"):
        return [t[1]]
    if k == "user":
        return [term for term, _ in subs[t[1]][3]]
    return []


def show(t, subs):
    k = t[0]
    if k == "prim":
        return t[1] + ("" if t[2] is None else f"({t[2]}π/8)")
    if k == "user":
        nargs, naux, ph, ops = subs[t[1]]
        body = "; ".join(f"{show(x, subs)}@{list(q)}" for x, q in ops)
        return f"Sub[args={nargs} aux={naux} phase={ph}π/4: {body}]"
    if k == "inv":
        return f"Inverse({show(t[1], subs)})"
    if k == "ctl":
        return f"Controlled({show(t[1], subs)})"
    return f"MultiControlled({show(t[1], subs)}, {t[2]}, {t[3]})"
