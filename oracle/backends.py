"""Unitary of a backend circuit object in quri-parts' little-endian convention, computed by the
backend's own simulator / matrix export (the assumed backend semantics are validated this way),
plus a tiny interpreter for the OpenQASM 3 text quri-parts emits (stdgates.inc semantics)."""
from __future__ import annotations

import cmath
import math
import re

import numpy as np

from . import dense


def bit_reverse_perm(n):
    dim = 1 << n
    p = np.zeros(dim, dtype=int)
    for i in range(dim):
        r = 0
        for b in range(n):
            if (i >> b) & 1:
                r |= 1 << (n - 1 - b)
        p[i] = r
    return p


def big_to_little(u, n):
    p = bit_reverse_perm(n)
    return u[np.ix_(p, p)]


def qulacs_unitary(circ, n):
    import qulacs

    dim = 1 << n
    u = np.zeros((dim, dim), dtype=complex)
    for i in range(dim):
        st = qulacs.QuantumState(n)
        st.set_computational_basis(i)
        circ.update_quantum_state(st)
        u[:, i] = st.get_vector()
    return u


def qiskit_unitary(qc, n):
    from qiskit.quantum_info import Operator

    qc2 = qc.remove_final_measurements(inplace=False) if qc.num_clbits else qc
    return np.asarray(Operator(qc2).data)


def cirq_unitary(circ, n):
    import cirq

    qs = cirq.LineQubit.range(n)
    return big_to_little(np.asarray(circ.unitary(qubit_order=qs, qubits_that_should_be_present=qs)), n)


def braket_unitary(circ, n):
    from braket.circuits import Circuit as BCircuit

    # make every qubit present so that the matrix has dimension 2^n (identity is explicit and harmless)
    c = BCircuit()
    used = {int(q) for q in circ.qubits}
    for q in range(n):
        if q not in used:
            c.i(q)
    c.add_circuit(circ)
    return big_to_little(np.asarray(c.to_unitary()), n)


def tket_unitary(circ, n):
    return big_to_little(np.asarray(circ.get_unitary()), n)


def stim_unitary(circ, n):
    import stim

    c = circ.copy()
    # make sure the tableau covers n qubits
    c.append("I", [n - 1])
    t = stim.Tableau.from_circuit(c)
    return np.asarray(t.to_unitary_matrix(endian="little"))


_QASM_1Q = {"id": "Identity", "x": "X", "y": "Y", "z": "Z", "h": "H", "s": "S", "sdg": "Sdag", "t": "T", "tdg": "Tdag", "sx": "SqrtX"}


def qasm_unitary(text: str):
    """interpreter for the subset quri-parts emits; returns (n, unitary)"""
    n = None
    u = None
    lines = [l.strip() for l in text.split("\n") if l.strip()]
    if not lines or not re.fullmatch(r"OPENQASM 3(\.\d+)?;", lines[0]):
        raise ValueError(f"not an OpenQASM 3 program: first line {lines[:1]!r}")
    if 'include "stdgates.inc";' not in lines[1:3]:
        raise ValueError("stdgates.inc is not included")
    for raw in lines[1:]:
        line = raw.strip()
        if line.startswith("include") or re.fullmatch(r"bit\[\d+\] c;", line):
            continue
        m = re.fullmatch(r"qubit\[(\d+)\] q;", line)
        if m:
            n = int(m.group(1))
            u = np.eye(1 << n, dtype=complex)
            continue
        if re.fullmatch(r"c = measure q;", line) or re.fullmatch(r"c\[\d+\] = measure q\[\d+\];", line):
            continue
        m = re.fullmatch(r"([A-Za-z0-9]+)(?:\(([^)]*)\))? (.*);", line)
        if not m or u is None:
            raise ValueError(f"unrecognised QASM line: {line!r}")
        name, ps, qs = m.group(1), m.group(2), m.group(3)
        params = [float(x) for x in ps.split(",")] if ps else []
        wires = [int(x) for x in re.findall(r"q\[(\d+)\]", qs)]
        if len(wires) != len(qs.split(",")) or any(w >= n for w in wires) or len(set(wires)) != len(wires):
            raise ValueError(f"bad operands in {line!r} for qubit[{n}] q")
        if name in _QASM_1Q:
            mat = dense.ONE[_QASM_1Q[name]]
        elif name == "rx":
            mat = dense.rx(params[0])
        elif name == "ry":
            mat = dense.ry(params[0])
        elif name == "rz":
            mat = dense.rz(params[0])
        elif name == "u1":
            mat = np.diag([1, cmath.exp(1j * params[0])])
        elif name == "u2":
            mat = dense.u3(math.pi / 2, params[0], params[1])
        elif name == "u3":
            mat = dense.u3(*params)
        elif name in ("p", "phase"):
            mat = np.diag([1, cmath.exp(1j * params[0])])
        elif name == "sxdg":  # not in stdgates.inc: an undefined gate
            raise ValueError("gate sxdg is not defined by stdgates.inc")
        elif name in ("cx", "CX"):
            mat = dense.local_matrix("CNOT")
        elif name in ("cy", "ch", "cp", "cphase", "crx", "cry", "crz", "cu"):  # wires [control, target]
            if name == "cy":
                t = dense.ONE["Y"]
            elif name == "ch":
                t = dense.ONE["H"]
            elif name in ("cp", "cphase"):
                t = np.diag([1, cmath.exp(1j * params[0])])
            elif name == "cu":
                t = cmath.exp(1j * params[3]) * dense.u3(*params[:3])
            else:
                t = {"crx": dense.rx, "cry": dense.ry, "crz": dense.rz}[name](params[0])
            mat = np.eye(4, dtype=complex)
            for a in range(2):
                for b in range(2):
                    mat[1 + 2 * a, 1 + 2 * b] = t[a, b]
        elif name == "cswap":  # wires [control, a, b]
            mat = np.eye(8, dtype=complex)
            mat[[3, 5]] = mat[[5, 3]]
        elif name == "cz":
            mat = dense.local_matrix("CZ")
        elif name == "swap":
            mat = dense.local_matrix("SWAP")
        elif name == "ccx":
            mat = dense.local_matrix("TOFFOLI")
        else:
            raise ValueError(f"gate {name} is not defined by stdgates.inc")
        if mat.shape[0] != 1 << len(wires):
            raise ValueError(f"gate {name} applied to {len(wires)} operands in {line!r}")
        u = dense.embed(n, wires, mat) @ u
    if u is None:
        raise ValueError("no qubit declaration")
    return n, u
