"""Independent reference for C18 (qubit remapping / count un-mapping).

Nothing here looks at quri-parts' implementation or at the Lean model: outcomes are
handled as *sets of qubit labels* (not by masking integers), circuits as wire-labelled
gate lists.  Used only to search for a concrete failing input on the real code and to
validate the specification vocabulary (`fwdBits`) of the Lean statements.
"""
from __future__ import annotations

import numpy as np

from oracle import dense


# ---------------------------------------------------------------------------
# outcomes as label sets
# ---------------------------------------------------------------------------
def ones(x: int) -> set[int]:
    """labels of the qubits measured as 1 in outcome integer x (qubit q <-> bit q)"""
    return {i for i, ch in enumerate(reversed(bin(x)[2:])) if ch == "1"}


def from_ones(s) -> int:
    return sum(2**i for i in set(s))


def forward_outcome(mapping: dict[int, int], x: int) -> int:
    """what the backend reports for logical outcome x when logical k sits on backend mapping[k]"""
    return from_ones(mapping[k] for k in ones(x) if k in mapping)


def logical_outcome(mapping: dict[int, int], y: int) -> int:
    """the logical outcome behind backend outcome y: logical k is 1 iff backend mapping[k] is 1;
    backend qubits nobody is mapped to are ignored"""
    on = ones(y)
    return from_ones(k for k, v in mapping.items() if v in on)


def expected_unmapped_counts(mapping, counts: dict[int, int]) -> dict[int, int]:
    out: dict[int, int] = {}
    for y, n in counts.items():
        x = logical_outcome(mapping, y)
        out[x] = out.get(x, 0) + n
    return out


def should_accept(mapping: dict[int, int], used: set[int]) -> bool:
    """the property's acceptance rule: injective, covers every used qubit (and names at least one qubit)"""
    vals = list(mapping.values())
    return len(mapping) > 0 and len(set(vals)) == len(vals) and used <= set(mapping)


def expected_relabelling(mapping, gate_wires):
    """gate_wires: [(targets, controls)] of the logical circuit -> (backend register size, [(targets, controls)]) of
    the circuit the backend must receive, or None when the mapping has to be refused for this circuit"""
    used = {q for t, c in gate_wires for q in list(t) + list(c)}
    if not should_accept(dict(mapping), used):
        return None
    return max(mapping.values()) + 1, [([mapping[q] for q in t], [mapping[q] for q in c]) for t, c in gate_wires]


# ---------------------------------------------------------------------------
# classical reversible circuits on basis states (exact integers)
# ---------------------------------------------------------------------------
CLASSICAL = ("X", "CNOT", "SWAP", "TOFFOLI", "Identity")


def classical_run(gates, on: set[int]) -> set[int]:
    """gates: objects with .name/.target_indices/.control_indices ; on: labels that are 1"""
    on = set(on)
    for g in gates:
        t, c = list(g.target_indices), list(g.control_indices)
        if g.name == "Identity":
            pass
        elif g.name == "X":
            on ^= {t[0]}
        elif g.name == "CNOT":
            if c[0] in on:
                on ^= {t[0]}
        elif g.name == "TOFFOLI":
            if c[0] in on and c[1] in on:
                on ^= {t[0]}
        elif g.name == "SWAP":
            a, b = t
            if a != b:
                ia, ib = a in on, b in on
                on -= {a, b}
                if ia:
                    on.add(b)
                if ib:
                    on.add(a)
        else:
            raise KeyError(g.name)
    return on


def braket_classical_run(braket_circuit) -> set[int]:
    """execute a Braket SDK circuit made of X / CNot / Swap / CCNot / I on |0…0>; returns the labels that are 1"""

    class G:
        pass

    gs = []
    for ins in braket_circuit.instructions:
        name = ins.operator.name
        qs = [int(q) for q in ins.target]
        g = G()
        if name in ("Rz", "PhaseShift", "Z", "S", "Si", "T", "Ti"):
            name = "I"  # diagonal one-qubit gates leave every basis state in place (Identity2RZTranspiler emits Rz)
        g.name = {"X": "X", "CNot": "CNOT", "Swap": "SWAP", "CCNot": "TOFFOLI", "I": "Identity"}[name]
        if name in ("CNot", "CCNot"):
            g.control_indices, g.target_indices = qs[:-1], qs[-1:]
        else:
            g.control_indices, g.target_indices = [], qs
        gs.append(g)
    return classical_run(gs, set())


# ---------------------------------------------------------------------------
# shot batches of the sampling back ends (documented behaviour, stated on the remainder instead of by construction)
# ---------------------------------------------------------------------------
def expected_shot_batches(n_shots: int, lo: int, hi, roundup) -> list[int] | None:
    """batches a back end may hand to the device for `n_shots` when one task accepts lo..hi shots
    (hi None = unbounded).  None = the request must be refused (fewer shots than the device minimum and rounding
    up not allowed).  Full batches of `hi` first; the remainder r = n_shots mod hi is run as it is when the device
    accepts it, rounded up to `lo` when allowed, dropped otherwise."""
    if hi is None or n_shots <= hi:
        if n_shots >= lo:
            return [n_shots]
        return [lo] if roundup else None
    out = [hi for _ in range(n_shots // hi)]
    r = n_shots - hi * len(out)
    if r >= lo:
        out.append(r)
    elif r > 0 and roundup:
        out.append(lo)
    return out


def shot_batches_admissible(batches, n_shots: int, lo: int, hi, roundup) -> bool:
    """the invariants the class docstrings state, independent of how the list is built (lo <= hi assumed)"""
    if any(b < lo or (hi is not None and b > hi) for b in batches):
        return False
    total = sum(batches)
    if roundup:
        return n_shots <= total < n_shots + lo
    return n_shots - lo < total <= n_shots


# ---------------------------------------------------------------------------
# dense check: remapped circuit = original on the relabelled qubits ⊗ identity elsewhere
# ---------------------------------------------------------------------------
def dense_remap_defect(n: int, gates, mapping: dict[int, int], n_backend: int, gates_backend) -> float:
    """max |<y'|U'|x'> - [stray(y') = stray(x')] <unmap y'|U|unmap x'>| over all backend basis pairs"""
    u = dense.circuit_unitary(n, gates)
    ub = dense.circuit_unitary(n_backend, gates_backend)
    rng_vals = set(mapping.values())
    dim = 1 << n_backend
    worst = 0.0
    lo = [logical_outcome(mapping, y) for y in range(dim)]
    stray = [from_ones(ones(y) - rng_vals) for y in range(dim)]
    for yr in range(dim):
        for yc in range(dim):
            want = u[lo[yr], lo[yc]] if stray[yr] == stray[yc] else 0.0
            worst = max(worst, abs(ub[yr, yc] - want))
    return float(worst)
