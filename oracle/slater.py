"""Independent Slater–Condon / Fock-space semantics for C14 (numpy only; imports neither quri-parts,
OpenFermion nor PySCF).

Conventions (the *definition* the property is checked against):
  * spatial orbitals 0..n-1; spin orbital P = 2p + s, s = 0 (alpha/up), 1 (beta/down).
  * chemist notation (pq|rs) = ∫∫ p*(1) q(1) r*(2) s(2) / r12; the library's "physicist" spatial tensor is
        g[p, q, r, s] = (ps|qr)                       (what  eri.transpose(0, 2, 3, 1)  produces)
    so that  H = E0 + Σ h[p,q] Σ_s a†_{ps} a_{qs} + 1/2 Σ g[p,q,r,s] Σ_{s,t} a†_{ps} a†_{qt} a_{rt} a_{ss'=s}.
  * occupation-number basis |occ>, occ a bitmask (bit P = spin orbital P occupied),
        |occ> = a†_{P1} a†_{P2} ... |vac>,  P1 < P2 < ...,
    hence a_P |occ> = (-1)^{#{Q < P : Q in occ}} |occ - P>.
  * a second-quantised Hamiltonian given by coefficient tensors (c, one, two) means
        H = c + Σ one[P,Q] a†_P a_Q + Σ two[P,Q,R,S] a†_P a†_Q a_R a_S          (no implicit 1/2).
  * Pauli operators: qubit q is bit q of the computational-basis index; Y = [[0,-i],[i,0]].
"""
from __future__ import annotations

import itertools

import numpy as np


def popcount(x: int) -> int:
    return bin(x).count("1")


# ---------------------------------------------------------------------------
# ladder operators and dense Fock-space Hamiltonians
# ---------------------------------------------------------------------------
_LADDER_CACHE: dict = {}


def annihilators(n: int):
    """list of n sparse (2^n x 2^n) matrices a_P (row = result state)"""
    import scipy.sparse as sp

    if n in _LADDER_CACHE:
        return _LADDER_CACHE[n][0]
    dim = 1 << n
    ops = []
    for P in range(n):
        rows, cols, vals = [], [], []
        for occ in range(dim):
            if (occ >> P) & 1:
                rows.append(occ ^ (1 << P))
                cols.append(occ)
                vals.append(-1.0 if popcount(occ & ((1 << P) - 1)) & 1 else 1.0)
        ops.append(sp.csr_matrix((vals, (rows, cols)), shape=(dim, dim)))
    # pair[R][S] = a_R a_S, and all of them flattened as the rows of one sparse (n^2 x dim^2) matrix
    pair = [[(ops[R] @ ops[S]).tocsr() for S in range(n)] for R in range(n)]
    flat = sp.vstack([pair[R][S].reshape(1, dim * dim) for R in range(n) for S in range(n)]).tocsr()
    _LADDER_CACHE[n] = (ops, pair, flat)
    return ops


def fock_matrix(const, one, two, n: int) -> np.ndarray:
    """dense matrix of  const + Σ one[P,Q] a†_P a_Q + Σ two[P,Q,R,S] a†_P a†_Q a_R a_S  on n modes"""
    one = np.asarray(one, dtype=complex)
    two = np.asarray(two, dtype=complex)
    a = annihilators(n)
    _, pair, flat = _LADDER_CACHE[n]
    dim = 1 << n
    H = np.eye(dim, dtype=complex) * const
    for P in range(n):
        for Q in range(n):
            if one[P, Q] != 0:
                H += one[P, Q] * (a[P].T @ a[Q]).toarray()
    # contracted[PQ] = Σ_RS two[P,Q,R,S] a_R a_S   (dense rows of length dim^2)
    contracted = np.asarray((flat.T @ two.reshape(n * n, n * n).T).T)
    for P in range(n):
        for Q in range(n):
            row = contracted[P * n + Q]
            if not row.any():
                continue
            # a†_P a†_Q = (a_Q a_P)†
            H += pair[Q][P].T @ row.reshape(dim, dim)
    return H


def sector_states(n: int, n_particles: int) -> list[int]:
    return [o for o in range(1 << n) if popcount(o) == n_particles]


def sector_states_sz(n: int, n_alpha: int, n_beta: int) -> list[int]:
    even = sum(1 << k for k in range(0, n, 2))
    odd = sum(1 << k for k in range(1, n, 2))
    return [o for o in range(1 << n) if popcount(o & even) == n_alpha and popcount(o & odd) == n_beta]


def sector_spectrum(H: np.ndarray, states: list[int]) -> np.ndarray:
    if not states:
        return np.zeros(0)
    sub = H[np.ix_(states, states)]
    sub = (sub + sub.conj().T) / 2
    return np.linalg.eigvalsh(sub)


def hermiticity_defect(H: np.ndarray) -> float:
    return float(np.max(np.abs(H - H.conj().T))) if H.size else 0.0


# ---------------------------------------------------------------------------
# independent spatial → spin expansion, AO → MO, electron-repulsion symmetries
# ---------------------------------------------------------------------------
def phys_from_chem(chem: np.ndarray) -> np.ndarray:
    """g[p,q,r,s] = (ps|qr)"""
    n = chem.shape[0]
    g = np.zeros_like(chem)
    for p, q, r, s in itertools.product(range(n), repeat=4):
        g[p, q, r, s] = chem[p, s, q, r]
    return g


def chem_from_phys(g: np.ndarray) -> np.ndarray:
    """(pq|rs) = g[p, r, s, q]"""
    n = g.shape[0]
    chem = np.zeros_like(g)
    for p, q, r, s in itertools.product(range(n), repeat=4):
        chem[p, q, r, s] = g[p, r, s, q]
    return chem


def spin_one(h: np.ndarray) -> np.ndarray:
    """hs[2p+s, 2q+t] = δ_st h[p,q]"""
    return np.kron(np.asarray(h), np.eye(2))


def spin_two(g: np.ndarray) -> np.ndarray:
    """gs[2p+a, 2q+b, 2r+c, 2s+d] = δ_ad δ_bc g[p,q,r,s]"""
    n = g.shape[0]
    d = np.eye(2)
    gs = np.einsum("pqrs,ad,bc->paqbrcsd", np.asarray(g), d, d)
    return gs.reshape(2 * n, 2 * n, 2 * n, 2 * n)


def mo_one(h_ao: np.ndarray, C: np.ndarray) -> np.ndarray:
    return np.einsum("ap,ab,bq->pq", C.conj(), h_ao, C)


def mo_two_chem(chem_ao: np.ndarray, C: np.ndarray) -> np.ndarray:
    """(pq|rs)_MO = Σ C*_{ap} C_{bq} C*_{cr} C_{ds} (ab|cd)_AO"""
    return np.einsum("ap,bq,cr,ds,abcd->pqrs", C.conj(), C, C.conj(), C, chem_ao, optimize=True)


def random_symmetric(rng, n: int, integer: bool = False) -> np.ndarray:
    if integer:
        m = np.array([[rng.randint(-3, 3) for _ in range(n)] for _ in range(n)], dtype=float)
    else:
        m = np.array([[rng.uniform(-1, 1) for _ in range(n)] for _ in range(n)])
    return m + m.T if integer else (m + m.T) / 2


def random_eri_chem(rng, n: int, integer: bool = False) -> np.ndarray:
    """real (pq|rs) with the 8-fold symmetry (pq|rs) = (qp|rs) = (pq|sr) = (rs|pq)"""
    if integer:
        t = np.array([rng.randint(-2, 2) for _ in range(n**4)], dtype=float).reshape(n, n, n, n)
    else:
        t = np.array([rng.uniform(-1, 1) for _ in range(n**4)]).reshape(n, n, n, n)
    out = np.zeros_like(t)
    for perm in [(0, 1, 2, 3), (1, 0, 2, 3), (0, 1, 3, 2), (1, 0, 3, 2), (2, 3, 0, 1), (3, 2, 0, 1), (2, 3, 1, 0), (3, 2, 1, 0)]:
        out += t.transpose(perm)
    return out if integer else out / 8


def random_unitary(rng, n: int, real: bool = False) -> np.ndarray:
    m = np.array([[rng.gauss(0, 1) for _ in range(n)] for _ in range(n)], dtype=complex)
    if not real:
        m = m + 1j * np.array([[rng.gauss(0, 1) for _ in range(n)] for _ in range(n)])
    q, r = np.linalg.qr(m)
    d = np.diag(r)
    q = q * (d / np.abs(d))
    return q.real.copy() if real else q


# ---------------------------------------------------------------------------
# Slater–Condon (diagonal rule) directly from spatial chemist-notation integrals
# ---------------------------------------------------------------------------
def det_energy_spatial(const, h, chem, occ_alpha, occ_beta) -> complex:
    """⟨D|H|D⟩ for D = (alpha occupied spatial orbitals, beta occupied spatial orbitals)"""
    e = complex(const)
    for i in occ_alpha:
        e += h[i, i]
    for i in occ_beta:
        e += h[i, i]
    allocc = [(i, 0) for i in occ_alpha] + [(i, 1) for i in occ_beta]
    for i, s in allocc:
        for j, t in allocc:
            e += 0.5 * chem[i, i, j, j]
            if s == t:
                e -= 0.5 * chem[i, j, j, i]
    return e


def occ_to_alpha_beta(occ: int) -> tuple[list[int], list[int]]:
    al, be = [], []
    P = 0
    while occ >> P:
        if (occ >> P) & 1:
            (al if P % 2 == 0 else be).append(P // 2)
        P += 1
    return al, be


# ---------------------------------------------------------------------------
# active spaces: the specification of the core, the embedding of active determinants
# ---------------------------------------------------------------------------
def spec_core_and_active(n_active_ele: int, n_active_orb: int, n_electrons: int, active=None):
    """the specification: core = the first (n_electrons − n_active_ele)/2 spatial orbitals that are not active;
    active = the explicit list, or the n_active_orb orbitals following the core"""
    k = (n_electrons - n_active_ele) // 2
    if not active:
        return list(range(k)), list(range(k, k + n_active_orb))
    core, i = [], 0
    while len(core) < k:
        if i not in active:
            core.append(i)
        i += 1
    return core, list(active)


def embed_det(core, active, S: int) -> tuple[int, int]:
    """active-register determinant S (bit U = active spin orbital U = 2u + s, u-th entry of `active`) ↦
    (full-space occupation mask with the core doubly occupied, relative sign of the two orderings)."""
    occ = 0
    for i in core:
        occ |= 0b11 << (2 * i)
    lifted = []
    U = 0
    while S >> U:
        if (S >> U) & 1:
            lifted.append(2 * active[U // 2] + U % 2)
        U += 1
    for P in lifted:
        occ |= 1 << P
    inv = sum(1 for a in range(len(lifted)) for b in range(a + 1, len(lifted)) if lifted[a] > lifted[b])
    # moving the active creators past the (paired) core creators never changes the sign
    return occ, -1 if inv & 1 else 1


# ---------------------------------------------------------------------------
# Pauli operators
# ---------------------------------------------------------------------------
def pauli_matrix(n_qubits: int, terms) -> np.ndarray:
    """terms: iterable of (coef, ((qubit, 'X'|'Y'|'Z'), ...)); dense 2^n matrix, qubit q = bit q"""
    dim = 1 << n_qubits
    M = np.zeros((dim, dim), dtype=complex)
    cols = np.arange(dim)
    for coef, label in terms:
        rows = cols.copy()
        amp = np.full(dim, complex(coef))
        for q, p in label:
            bit = (cols >> q) & 1
            if p == "X":
                rows = rows ^ (1 << q)
            elif p == "Y":
                rows = rows ^ (1 << q)
                amp = amp * np.where(bit == 0, 1j, -1j)
            elif p == "Z":
                amp = amp * np.where(bit == 0, 1.0, -1.0)
            else:
                raise ValueError(p)
        np.add.at(M, (rows, cols), amp)
    return M


# ---------------------------------------------------------------------------
# self test (run by the harness on every check): the two independent routes agree
# ---------------------------------------------------------------------------
def self_test(rng) -> str | None:
    n = 3
    h = random_symmetric(rng, n)
    chem = random_eri_chem(rng, n)
    g = phys_from_chem(chem)
    if np.max(np.abs(chem_from_phys(g) - chem)) > 0:
        return "chem/phys conversion is not an involution pair"
    H = fock_matrix(0.3, spin_one(h), spin_two(g) / 2, 2 * n)
    if hermiticity_defect(H) > 1e-12:
        return "oracle Hamiltonian not Hermitian"
    for occ in range(1 << (2 * n)):
        al, be = occ_to_alpha_beta(occ)
        e = det_energy_spatial(0.3, h, chem, al, be)
        if abs(H[occ, occ] - e) > 1e-10:
            return f"Fock-space diagonal {H[occ, occ]} != Slater–Condon {e} for occ={occ:b}"
    # number conservation
    for occ in range(1 << (2 * n)):
        nz = np.nonzero(np.abs(H[:, occ]) > 1e-12)[0]
        if any(popcount(int(o)) != popcount(occ) for o in nz):
            return "oracle Hamiltonian does not conserve particle number"
    # orbital rotation invariance of the oracle itself
    U = random_unitary(rng, n)
    H2 = fock_matrix(0.3, spin_one(mo_one(h, U)), spin_two(phys_from_chem(mo_two_chem(chem, U))) / 2, 2 * n)
    for N in range(2 * n + 1):
        st = sector_states(2 * n, N)
        if np.max(np.abs(sector_spectrum(H, st) - sector_spectrum(H2, st))) > 1e-9:
            return "oracle spectrum not invariant under orbital rotation"
    # Pauli: X Y = i Z
    XY = pauli_matrix(1, [(1, ((0, "X"),))]) @ pauli_matrix(1, [(1, ((0, "Y"),))])
    if np.max(np.abs(XY - 1j * pauli_matrix(1, [(1, ((0, "Z"),))]))) > 0:
        return "Pauli convention"
    return None
