"""C18 — Qubit remapping and count un-mapping are mutually inverse."""
from __future__ import annotations

import hashlib
import importlib
import itertools
import os
import sys
import time
import types
import warnings
from collections import Counter, OrderedDict
from collections.abc import Mapping

sys.path.insert(0, os.path.dirname(os.path.dirname(os.path.abspath(__file__))))

from common import Ctx, InfraError, load_known_findings  # noqa: E402
from translate import c18gen  # noqa: E402

ENTRY = "DriverC18.lean"
LEAN_TARGETS = ["QuriVerif.Props.C18", "QuriVerif.Generated.C18Shape", "QuriVerif.Driver.C18"]
FINDING_F64 = "braket-key-float64-qubit63"

TRUSTED = [
    "Lean 4.33 kernel; axioms audited ⊆ {propext, Classical.choice, Quot.sound}",
    "Model/C18.lean is a hand transcription of qubit_remapping.py / qubit_mapping.py (Python dict = association list "
    "in insertion order); tied to the working tree by (a) the correspondence runs of this harness and (b) the shape "
    "translator translate/c18gen.py (ast) + kernel-checked `shape_supported`",
    "QuantumCircuit.add_gate range checks are the installed quri_parts.rust 0.27 binary (same two checks as "
    "/repo/packages/rust/src/circuit/circuit.rs, read by eye; the binary is not built from /repo)",
    "remap_sem is about an abstract local-matrix semantics (any amplitude type); that quri-parts gate names denote "
    "wire-label-independent local matrices is validated per instance against oracle/dense.py",
    "qiskit utils.py is executed from the working tree with the package __init__ bypassed and a stand-in "
    "qiskit.providers.backend.BackendV1 class (the installed qiskit 2.x no longer ships it)",
    "braket back end is driven with a stub Device/QuantumTask returning real GateModelQuantumTaskResult objects; the "
    "AwsDevice branch with a session-less AwsDevice subclass whose `properties` carries service.shotsRange and "
    "supportedOperations (the two things sampling.py / transpiler.py read)",
    "real-device stream: braket.devices.LocalSimulator (state vector / density matrix) of the installed SDK executes the "
    "remapped circuit; its sampling is trusted only to stay inside the exact support (checked outcome by outcome)",
    "QiskitSamplingBackend (sampling.py of the qiskit package, the in-tree caller of utils.py) runs on the installed "
    "qiskit BasicSimulator (subclassed only to record the shots of each run and to advertise max_shots)",
]

ONE_Q = ["H", "X", "Y", "Z", "S", "Sdag", "T", "SqrtX", "Identity"]


# ---------------------------------------------------------------------------
# real-code access
# ---------------------------------------------------------------------------
_QISKIT_UTILS = None


def qiskit_utils():
    """packages/qiskit/quri_parts/qiskit/backend/utils.py from the working tree.  The package's __init__ imports
    qiskit_ibm_runtime names that the installed version lacks, so the package object is a bare namespace whose
    __path__ is the real directory; utils.py itself is the unmodified source file."""
    global _QISKIT_UTILS
    if _QISKIT_UTILS is not None:
        return _QISKIT_UTILS
    import qiskit.providers.backend as pb

    if not hasattr(pb, "BackendV1"):
        class BackendV1(pb.Backend):  # noqa: D401 – stand-in, only used in an isinstance test we never reach
            pass

        pb.BackendV1 = BackendV1
    import quri_parts.qiskit as qq

    name = "quri_parts.qiskit.backend"
    if name not in sys.modules:
        pkg = types.ModuleType(name)
        pkg.__path__ = [os.path.join(os.path.dirname(qq.__file__), "backend")]
        sys.modules[name] = pkg
    _QISKIT_UTILS = importlib.import_module(name + ".utils")
    return _QISKIT_UTILS


class StubJob:
    def __init__(self, counts):
        self._counts = counts

    def result(self):
        job = self

        class R:
            counts = job._counts

        return R()


MARKER = {"name": "X", "t": [0], "c": [], "cl": [], "params": [], "pauli": [], "um": []}


def marker_transpiler():
    """a user transpiler acting on LOGICAL qubit 0 (appends X(0)): makes the order of
    [user transpiler, remapping] in the back-end helpers observable"""
    from quri_parts.circuit import QuantumCircuit

    def tr(circuit):
        c = QuantumCircuit(circuit.qubit_count, circuit.cbit_count)
        c.extend(circuit.gates)
        c.add_X_gate(0)
        return c

    return tr


def payload_of(params, pauli_ids, unitary) -> str:
    r = repr((tuple(float(x) for x in params), tuple(int(x) for x in pauli_ids),
              tuple(tuple(complex(z) for z in row) for row in unitary)))
    return hashlib.sha1(r.encode()).hexdigest()[:12]


def real_gate(g):
    from quri_parts.circuit import QuantumGate

    return QuantumGate(name=g["name"], target_indices=tuple(g["t"]), control_indices=tuple(g["c"]),
                       classical_indices=tuple(g["cl"]), params=tuple(g["params"]), pauli_ids=tuple(g["pauli"]),
                       unitary_matrix=tuple(tuple(r) for r in g["um"]))


def real_circuit(n, cb, gates):
    from quri_parts.circuit import QuantumCircuit

    c = QuantumCircuit(n, cb)
    for g in gates:
        c.add_gate(real_gate(g))
    return c


def enc_gate_spec(g) -> str:
    j = lambda xs: ",".join(str(x) for x in xs)
    return f"{g['name']}/{j(g['t'])}/{j(g['c'])}/{j(g['cl'])}/{payload_of(g['params'], g['pauli'], g['um'])}"


def enc_real_gate(g) -> str:
    j = lambda xs: ",".join(str(int(x)) for x in xs)
    return (f"{g.name}/{j(g.target_indices)}/{j(g.control_indices)}/{j(g.classical_indices)}/"
            f"{payload_of(g.params, g.pauli_ids, g.unitary_matrix)}")


def enc_map(items) -> str:
    return ",".join(f"{k}:{v}" for k, v in items)


def enc_counts(items) -> str:
    return ",".join(f"{k}:{v}" for k, v in items)


def strip_detail(model_line: str) -> str:
    """`err <stage> <Class> <detail>` -> `err <stage> <Class>` (the detail is diagnostic only)"""
    p = model_line.split(" ")
    return " ".join(p[:3]) if p and p[0] == "err" else model_line


# ---------------------------------------------------------------------------
# generators
# ---------------------------------------------------------------------------
BOUNDARY = [30, 31, 32, 33, 62, 63, 64, 65, 127, 128]
KINDS = ["inj", "inj-wide", "dup", "partial", "empty", "huge", "identity", "identity-sparse", "perm", "shift", "boundary"]
KIND_W = [34, 14, 10, 10, 2, 5, 5, 5, 6, 3, 6]
VALID_KINDS = ["inj", "inj", "inj-wide", "huge", "identity", "identity-sparse", "perm", "shift", "boundary"]


def rand_mapping(rng, n_keys_hint=None, kind=None):
    """returns (items in insertion order, kind)"""
    kind = kind or rng.choices(KINDS, KIND_W)[0]
    n = n_keys_hint if n_keys_hint is not None else rng.randint(1, 6)
    if kind == "empty":
        return [], kind
    if kind in ("identity", "identity-sparse", "perm", "shift", "boundary"):
        # the "trivial" shapes a fast path would key on: k -> k on a full or a sparse key set (stray bits on the
        # other backend qubits must still be projected out), permutations of 0..n-1, constant shifts, and labels
        # around the 32 / 64 / 128-bit boundaries on either side
        if kind == "identity":
            keys = list(range(n))
            vals = list(keys)
        elif kind == "identity-sparse":
            keys = sorted(rng.sample(range(n + 5), n))
            vals = list(keys)
        elif kind == "perm":
            keys = list(range(n))
            vals = list(keys)
            rng.shuffle(vals)
        elif kind == "shift":
            keys = list(range(n))
            c = rng.choice([1, 2, 3, 31, 32, 63, 64])
            vals = [k + c for k in keys]
        else:
            keys = list(range(n)) if rng.random() < 0.6 else rng.sample(BOUNDARY[:8] + list(range(4)), min(n, 8))
            vals = rng.sample(BOUNDARY + list(range(3)), len(keys))
            edge = [b for b in (31, 32, 63, 64) if b not in vals[1:]]
            if edge and rng.random() < 0.5:  # at least one label sitting exactly on a boundary
                vals[0] = rng.choice(edge)
        items = list(zip(keys, vals))
        if rng.random() < 0.6:
            rng.shuffle(items)
        return items, kind
    keys = list(range(n))
    if rng.random() < 0.3:  # sparse logical labels / extra unused keys
        keys = rng.sample(range(n + 4), n)
    if kind == "partial" and len(keys) > 1:
        keys = keys[:-1] if rng.random() < 0.5 else keys[1:]
    width = {"inj": n + rng.randint(0, 3), "inj-wide": n + rng.randint(4, 12), "dup": max(1, n + rng.randint(-1, 2)),
             "partial": n + rng.randint(0, 3), "huge": rng.choice([33, 40, 65, 70, 130])}[kind]
    if kind == "dup":
        vals = [rng.randrange(width) for _ in keys]
        if len(keys) > 1 and len(set(vals)) == len(vals):
            vals[-1] = vals[0]
    else:
        vals = rng.sample(range(max(width, len(keys))), len(keys))
    rng.shuffle(keys)
    return list(zip(keys, vals)), kind


# argument forms ------------------------------------------------------------
class ROMapping(Mapping):
    """a Mapping that is not a dict (the signatures say Mapping[int, int])"""

    def __init__(self, items):
        self._d = dict(items)

    def __getitem__(self, k):
        return self._d[k]

    def __iter__(self):
        return iter(self._d)

    def __len__(self):
        return len(self._d)

    def __repr__(self):
        return f"ROMapping({self._d!r})"


MAPPING_FORMS = ["dict", "dict", "proxy", "ordered", "custom"]


def mapping_form(items, form):
    if form == "proxy":
        return types.MappingProxyType(dict(items))
    if form == "ordered":
        return OrderedDict(items)
    if form == "custom":
        return ROMapping(items)
    return dict(items)


CIRCUIT_FORMS = ["mutable", "mutable", "frozen", "ctor-gates", "immutable-copy"]


def circuit_form(circ, form):
    """the same circuit as the other object kinds a caller may hold (degrades to the mutable circuit when the
    constructor form is not available)"""
    try:
        if form == "frozen":
            return circ.freeze()
        if form == "ctor-gates":
            from quri_parts.circuit import QuantumCircuit

            return QuantumCircuit(circ.qubit_count, circ.cbit_count, list(circ.gates))
        if form == "immutable-copy":
            from quri_parts.circuit import ImmutableQuantumCircuit

            return ImmutableQuantumCircuit(circ)
    except Exception:  # noqa: BLE001
        return circ
    return circ


def rand_gate(rng, qubits, allow_meas, cbits):
    from oracle import dense

    k = rng.choice(["one", "one", "rot", "CNOT", "CZ", "SWAP", "TOFFOLI", "Pauli", "PauliRotation", "U3", "UM", "Meas"])
    g = {"name": "", "t": [], "c": [], "cl": [], "params": [], "pauli": [], "um": []}
    q = list(qubits)
    if k == "one":
        g.update(name=rng.choice(ONE_Q), t=[rng.choice(q)])
    elif k == "rot":
        g.update(name=rng.choice(["RX", "RY", "RZ", "U1"]), t=[rng.choice(q)], params=[rng.uniform(-7, 7)])
    elif k == "U3":
        g.update(name="U3", t=[rng.choice(q)], params=[rng.uniform(-7, 7) for _ in range(3)])
    elif k in ("CNOT", "CZ") and len(q) >= 2:
        a, b = rng.sample(q, 2)
        g.update(name=k, c=[a], t=[b])
    elif k == "SWAP" and len(q) >= 2:
        a, b = rng.sample(q, 2)
        g.update(name=k, t=[a, b])
    elif k == "TOFFOLI" and len(q) >= 3:
        a, b, c = rng.sample(q, 3)
        g.update(name=k, c=[a, b], t=[c])
    elif k in ("Pauli", "PauliRotation"):
        m = rng.randint(1, min(3, len(q)))
        g.update(name=k, t=rng.sample(q, m), pauli=[rng.randint(1, 3) for _ in range(m)],
                 params=[rng.uniform(-7, 7)] if k == "PauliRotation" else [])
    elif k == "UM":
        m = 1 if len(q) < 2 or rng.random() < 0.6 else 2
        u = dense.random_unitary(rng, 1 << m)
        g.update(name="UnitaryMatrix", t=rng.sample(q, m), um=[[complex(z) for z in row] for row in u.tolist()])
    elif k == "Meas" and allow_meas and cbits > 0:
        m = rng.randint(1, min(len(q), cbits))
        g.update(name="Measurement", t=rng.sample(q, m), cl=rng.sample(range(cbits), m))
    else:
        g.update(name="H", t=[rng.choice(q)])
    return g


def rand_circuit(rng, n, length, meas_prob=0.12):
    cb = rng.randint(1, 3) if rng.random() < meas_prob else 0
    gates = [rand_gate(rng, range(n), cb > 0, cb) for _ in range(length)]
    return n, cb, gates


def rand_key(rng, width):
    r = rng.random()
    if r < 0.75:
        return rng.getrandbits(max(1, width + rng.randint(0, 2)))
    if r < 0.9:
        return rng.getrandbits(width + 1) | (1 << rng.choice([width + 3, 64, 65, 100, 200]))
    return rng.choice([0, 1, (1 << (width + 1)) - 1, 1 << 63, (1 << 64) - 1, 1 << 64])


def rand_counts(rng, width, n_entries):
    d = {}
    for _ in range(n_entries):
        d[rand_key(rng, width)] = rng.choice([1, 2, 3, 10, 1000, rng.randint(1, 10**6), 0, -1, 2**70])
    return list(d.items())


# ---------------------------------------------------------------------------
# real evaluation (exceptions are outputs)
# ---------------------------------------------------------------------------
def real_remap(items, n, cb, gates, via="direct", mform="dict", cform="mutable"):
    """-> canonical response string (same grammar as the driver, without error detail)"""
    from quri_parts.circuit.transpile import QubitRemappingTranspiler

    circ = circuit_form(real_circuit(n, cb, gates), cform)
    m = mapping_form(items, mform)
    try:
        if via == "direct":
            tr = QubitRemappingTranspiler(m)
        elif via == "backend-mapping":
            from quri_parts.backend.qubit_mapping import BackendQubitMapping

            tr = BackendQubitMapping(m).circuit_transpiler
        elif via == "sequential":
            from quri_parts.circuit.transpile import SequentialTranspiler

            tr = SequentialTranspiler([SequentialTranspiler([]), QubitRemappingTranspiler(m)])
        else:  # qiskit helper
            _, tr = qiskit_utils().get_job_mapper_and_circuit_transpiler(m, marker_transpiler())
    except Exception as e:  # noqa: BLE001
        return f"err init {type(e).__name__}", None
    try:
        out = tr(circ)
    except Exception as e:  # noqa: BLE001
        return f"err call {type(e).__name__}", None
    return enc_real_circuit(out), out


def enc_real_circuit(out) -> str:
    return f"ok {out.qubit_count} {out.cbit_count} | " + ";".join(enc_real_gate(g) for g in out.gates)


QUARTER = 0.25  # float counts are multiples of 1/4 below 2^22: every partial sum is exact in binary64


def counts_form(counts_items, form):
    """(object handed to the real code, decoder of an output value to the model's integer)"""
    if form == "counter":
        return Counter(dict(counts_items)), int
    if form == "float":
        def dec(v):
            w = v * 4
            if w != int(w):
                raise ValueError(f"non-dyadic count {v!r}")
            return int(w)

        return {k: v * QUARTER for k, v in counts_items}, dec
    return dict(counts_items), int


def real_unmap(items, counts_items, via, mform="dict", cform="dict"):
    import quri_parts.backend.qubit_mapping as qm

    m = mapping_form(items, mform)
    counts, dec = counts_form(counts_items, cform)
    try:
        rm = list(qm._create_reverse_map(m).items())
        if via == "function":
            out = qm._reverse_map_counts(counts, qm._create_reverse_map(m))
        elif via == "mapping":
            out = qm.BackendQubitMapping(m).unmap_sampling_counts(counts)
        elif via == "result":
            class R:
                pass

            r = R()
            r.counts = counts
            out = qm.QubitMappedSamplingResult(r, qm.BackendQubitMapping(m)).counts
        else:
            out = qm.QubitMappedSamplingJob(StubJob(counts), qm.BackendQubitMapping(m)).result().counts
        return f"rm={enc_map(rm)} | counts={enc_counts([(k, dec(v)) for k, v in out.items()])}"
    except Exception as e:  # noqa: BLE001
        return f"err {type(e).__name__}"


# ---------------------------------------------------------------------------
# correspondence
# ---------------------------------------------------------------------------
_REPLAY_CASES: list = []


def load_replay(path):
    """--replay <file>: the disagreement inputs of a replay file (kinds remap / unmap) are run first, like the corpus"""
    import json

    try:
        r = json.load(open(path))
    except Exception as e:  # noqa: BLE001
        raise InfraError(f"cannot read replay file {path}: {e}")
    for d in r.get("disagreements", []):
        inp = d.get("input")
        if isinstance(inp, dict) and inp.get("kind") in ("remap", "unmap"):
            _REPLAY_CASES.append(inp)


def corpus_cases():
    import json

    d = os.path.join(os.path.dirname(os.path.dirname(os.path.abspath(__file__))), "corpus", "C18")
    out = list(_REPLAY_CASES)
    for f in sorted(os.listdir(d)) if os.path.isdir(d) else []:
        if f.endswith(".json"):
            out.append(json.load(open(os.path.join(d, f))))
    return out


def k_remap(ctx: Ctx):
    rng = ctx.rng
    cases = []
    for c in corpus_cases():
        if c.get("kind") == "remap":
            full = lambda g: {"name": g["name"], "t": g.get("t", []), "c": g.get("c", []), "cl": g.get("cl", []),
                              "params": g.get("params", []), "pauli": g.get("pauli", []), "um": g.get("um", [])}
            cases.append(([tuple(x) for x in c["mapping"]], c["n"], c["cb"], [full(g) for g in c["gates"]], "corpus", "direct",
                          c.get("mapping_form", "dict"), c.get("circuit_form", "mutable")))
    for _ in range(ctx.n(700, 20000)):
        n = rng.randint(1, 6)
        items, kind = rand_mapping(rng, n)
        labels = list(range(n))
        if items and kind in ("boundary", "identity-sparse") and rng.random() < 0.8:
            labels = sorted(k for k, _ in items)  # gates on the mapping's own (sparse / large) logical labels
        cb = rng.randint(1, 3) if rng.random() < 0.12 else 0
        gates = [rand_gate(rng, labels, cb > 0, cb) for _ in range(rng.randint(0, 8))]
        nn = max(labels) + 1
        if kind not in ("dup", "partial", "empty") and rng.random() < 0.15:
            # gates on a qubit outside the domain of a mapping that is otherwise fine
            extra = max([k for k, _ in items] + [n]) + 1
            gates.insert(rng.randint(0, len(gates)), {"name": "H", "t": [extra], "c": [], "cl": [], "params": [], "pauli": [], "um": []})
            nn = max(nn, extra + 1)
        nn = max([nn] + [k + 1 for g in gates for k in g["t"] + g["c"]])
        via = rng.choices(["direct", "backend-mapping", "qiskit", "sequential"], [5, 2, 2, 1])[0]
        if via == "qiskit" and not items:
            via = "direct"  # `if qubit_mapping:` — the empty mapping never reaches the transpiler there
        cases.append((items, nn, cb, gates, kind, via, rng.choice(MAPPING_FORMS), rng.choice(CIRCUIT_FORMS)))
    reqs = [f"c18remap {enc_map(it)} | {n} {cb} | " + ";".join(enc_gate_spec(g) for g in gs + ([MARKER] if via == "qiskit" else []))
            for it, n, cb, gs, _, via, *_ in cases]
    resp = ctx.driver(reqs, entry=ENTRY)
    for (items, n, cb, gates, kind, via, mform, cform), req, r in zip(cases, reqs, resp):
        if r == "bad-request":
            raise InfraError(f"driver rejected {req[:200]}")
        real, _ = real_remap(items, n, cb, gates, via, mform, cform)
        ctx.traces += 1
        ctx.count("remap.mapping", kind)
        ctx.count("remap.via", via)
        ctx.count("remap.mapping_form", mform)
        ctx.count("remap.circuit_form", cform)
        ctx.count("remap.outcome", " ".join(r.split(" ")[:4]) if r.startswith("err") else "ok")
        canon = ("remap", tuple(items), n, cb, tuple(enc_gate_spec(g) for g in gates))
        ctx.case(canon, nontrivial=bool(gates) and bool(items),
                 sample={"kind": "remap", "mapping": items, "circuit": req.split("|", 1)[1][:160], "model": r[:160]})
        if strip_detail(r) != real:
            ctx.disagree("remap:" + via, {"kind": "remap", "mapping": items, "n": n, "cb": cb, "gates": gates,
                                          "mapping_form": mform, "circuit_form": cform}, real[:400], r[:400])


def k_unmap(ctx: Ctx):
    rng = ctx.rng
    cases = []
    for c in corpus_cases():
        if c.get("kind") == "unmap":
            cases.append(([tuple(x) for x in c["mapping"]], [tuple(x) for x in c["counts"]], "corpus", "mapping",
                          c.get("mapping_form", "dict"), c.get("counts_form", "dict")))
    for _ in range(ctx.n(900, 30000)):
        items, kind = rand_mapping(rng)
        width = max([v for _, v in items] + [1]) + 1
        cform = rng.choice(["dict", "dict", "counter", "float"])
        counts = rand_counts(rng, width, rng.randint(0, 12))
        if cform == "float":
            counts = [(k, rng.choice([0, 1, 2, 3, 5, rng.randrange(1 << 18)])) for k, _ in counts]
        cases.append((items, counts, kind, rng.choice(["function", "mapping", "result", "job"]), rng.choice(MAPPING_FORMS), cform))
    reqs = [f"c18unmap {enc_map(it)} | {enc_counts(cs)}" for it, cs, *_ in cases]
    resp = ctx.driver(reqs, entry=ENTRY)
    for (items, counts, kind, via, mform, cform), r in zip(cases, resp):
        if r == "bad-request":
            raise InfraError("driver rejected an unmap request")
        real = real_unmap(items, counts, via, mform, cform)
        ctx.traces += 1
        ctx.count("unmap.mapping", kind)
        ctx.count("unmap.via", via)
        ctx.count("unmap.mapping_form", mform)
        ctx.count("unmap.counts_form", cform)
        merged = len(counts) - (r.split("counts=")[1].count(":") if "counts=" in r else 0)
        ctx.count("unmap.merged_entries", str(min(merged, 5)))
        ctx.case(("unmap", tuple(items), tuple(counts)), nontrivial=bool(items) and bool(counts),
                 sample={"kind": "unmap", "mapping": items, "counts": [(k, str(v)) for k, v in counts[:4]], "model": r[:160]})
        if r != real:
            ctx.disagree("unmap:" + via, {"kind": "unmap", "mapping": items, "counts": counts, "mapping_form": mform,
                                          "counts_form": cform}, real[:400], r[:400])


def k_bits(ctx: Ctx):
    """_reverse_map_bits on single integers, incl. the exhaustive small scope, and the specification
    function fwdBits of the theorems against the oracle's label-set formulation"""
    import quri_parts.backend.qubit_mapping as qm

    from oracle import c18_remap as orc

    rng = ctx.rng
    if not all(callable(getattr(qm, a, None)) for a in ("_create_reverse_map", "_reverse_map_bits")):
        # private helpers renamed: a correspondence difference, not a crash (the public paths are judged elsewhere)
        ctx.disagree("reverse_map_bits", {"kind": "bits"}, "private helper _create_reverse_map / _reverse_map_bits missing", "present")
        return
    cases = []
    nk, width = (2, 3) if ctx.quick() else (3, 5)
    for n in range(0, nk + 1):  # every mapping (injective or not) with keys 0..n-1 in every order
        for order in itertools.permutations(range(n)):
            for vals in itertools.product(range(width), repeat=n):
                cases.append(([(k, vals[k]) for k in order], list(range(1 << (width + 1))), "exhaustive"))
    if not ctx.quick():  # second exhaustive scope: every mapping of 4 keys into a 4-qubit backend, every 5-bit outcome
        for order in itertools.permutations(range(4)):
            for vals in itertools.product(range(4), repeat=4):
                cases.append(([(k, vals[k]) for k in order], list(range(32)), "exhaustive"))
    for _ in range(ctx.n(200, 8000)):
        items, kind = rand_mapping(rng)
        w = max([v for _, v in items] + [1]) + 1
        cases.append((items, [rand_key(rng, w) for _ in range(12)], kind))
    reqs, reqf = [], []
    for items, xs, _ in cases:
        reqs.append(f"c18bits {enc_map(items)} | " + ",".join(map(str, xs)))
        reqf.append(f"c18fwd {enc_map(items)} | " + ",".join(map(str, xs)))
    resp = ctx.driver(reqs + reqf, entry=ENTRY)
    rb, rf = resp[: len(reqs)], resp[len(reqs):]
    for (items, xs, kind), r, f in zip(cases, rb, rf):
        m = dict(items)
        rm = qm._create_reverse_map(m)
        real = ",".join(str(qm._reverse_map_bits(x, rm)) for x in xs)
        ctx.traces += 1
        ctx.count("bits.mapping", kind)
        ctx.case(("bits", tuple(items), tuple(xs[:16]), len(xs)), nontrivial=bool(items), sample=None)
        if r != real:
            ctx.disagree("reverse_map_bits", {"kind": "bits", "mapping": items, "xs": xs[:64]}, real[:300], r[:300])
        # spec vocabulary: fwdBits == oracle forward_outcome (only meaningful for functions, i.e. always for a dict)
        spec = ",".join(str(orc.forward_outcome(m, x)) for x in xs)
        if f != spec:
            ctx.disagree("spec:fwdBits-vs-oracle", {"kind": "fwd", "mapping": items, "xs": xs[:64]}, spec[:300], f[:300])
        # the real function against the oracle (the property itself, on injective maps)
        if len(set(m.values())) == len(m):
            for x in xs:
                got = qm._reverse_map_bits(x, rm)
                if got != orc.logical_outcome(m, x):
                    ctx.witness("reverse-map-bits", "_reverse_map_bits differs from the logical outcome",
                                {"mapping": items, "x": x}, {"got": got, "want": orc.logical_outcome(m, x)})
                    break


def k_qiskit(ctx: Ctx):
    rng = ctx.rng
    u = qiskit_utils()
    cases = []
    for _ in range(ctx.n(250, 8000)):
        items, kind = rand_mapping(rng, kind=rng.choice(["inj", "inj-wide", "empty", "inj", "dup"]))
        width = max([v for _, v in items] + [1]) + 1
        strs = {}
        for _ in range(rng.randint(0, 8)):
            L = rng.randint(1, width + 2)
            s = "".join(rng.choice("01") for _ in range(L))
            strs[s] = rng.randint(1, 1000)
        cases.append((items, list(strs.items()), kind))
    reqs = [f"c18qiskit {enc_map(it)} | {enc_counts(cs)}" for it, cs, _ in cases]
    resp = ctx.driver(reqs, entry=ENTRY)
    for (items, strs, kind), r in zip(cases, resp):
        if r == "bad-request":
            raise InfraError("driver rejected a qiskit request")
        try:
            mapper, _ = u.get_job_mapper_and_circuit_transpiler(dict(items), None)
            counts = u.convert_qiskit_sampling_count_to_qp_sampling_count(dict(strs))
            real = enc_counts(list(mapper(StubJob(counts)).result().counts.items()))
        except Exception as e:  # noqa: BLE001
            real = f"err {type(e).__name__}"
        if kind == "dup" and real.startswith("err"):
            # constructing the transpiler inside the helper rejects the mapping before any job exists;
            # the counts side is then not reachable: nothing to compare
            ctx.count("qiskit.outcome", "rejected-at-construction")
            ctx.case(("qiskit", tuple(items), tuple(strs)), nontrivial=False)
            continue
        ctx.traces += 1
        ctx.count("qiskit.mapping", kind)
        ctx.case(("qiskit", tuple(items), tuple(strs)), nontrivial=bool(strs),
                 sample={"kind": "qiskit", "mapping": items, "counts": strs[:4], "model": r[:120]})
        if r != real:
            ctx.disagree("qiskit-helpers", {"kind": "qiskit", "mapping": items, "counts": strs}, real[:300], r[:300])


class StubTask:
    def __init__(self, res):
        self._res = res
        self.cancelled = False
        self.cancel_raises = False

    def result(self):
        return self._res

    def cancel(self):
        self.cancelled = True
        if self.cancel_raises:
            raise DeviceDown("cancel failed too")  # documented: cancel errors are ignored, the run failure is reported


class DeviceDown(RuntimeError):
    """what a scripted device raises from run() (a network / service failure)"""


_RESULT_FORM = [0]


def braket_result(mq, rows, shots):
    """a GateModelQuantumTaskResult for the given shots in one of the shapes a caller can meet, in rotation: the bare
    object of unit tests (only measurements + measured_qubits), the constructor with EVERY optional field populated
    (histogram keyed by bit strings in measured-qubit order, probabilities, metadata, provenance flags), and the
    object the SDK itself builds from a device's wire result (from_object, which derives the histogram)"""
    import numpy as np
    from braket.tasks import GateModelQuantumTaskResult

    arr = np.array(rows, dtype=int).reshape(len(rows), len(mq))
    _RESULT_FORM[0] += 1
    form = _RESULT_FORM[0] % 3
    try:
        if form and len(rows) and len(mq):
            from braket.task_result import AdditionalMetadata, GateModelTaskResult, TaskMetadata

            tm = TaskMetadata(id="stub-task", shots=int(shots), deviceId="stub-device")
            try:
                am = AdditionalMetadata()
            except Exception:  # noqa: BLE001
                am = None
            if form == 2 and am is not None:
                return GateModelQuantumTaskResult.from_object(GateModelTaskResult(
                    measurements=[[int(b) for b in r] for r in arr.tolist()], measuredQubits=[int(q) for q in mq],
                    taskMetadata=tm, additionalMetadata=am))
            hist = Counter("".join(str(int(b)) for b in r) for r in arr.tolist())
            return GateModelQuantumTaskResult(
                task_metadata=tm, additional_metadata=am, measurements=arr, measured_qubits=list(mq), measurement_counts=hist,
                measurement_probabilities={k: v / len(rows) for k, v in hist.items()}, measurements_copied_from_device=True,
                measurement_counts_copied_from_device=False, measurement_probabilities_copied_from_device=False)
    except Exception:  # noqa: BLE001 – an SDK without these fields: the bare form is always available
        pass
    return GateModelQuantumTaskResult(task_metadata=None, additional_metadata=None, measurements=arr, measured_qubits=list(mq))


def _stub_run(self, circ, shots, **kw):
    """`script[i](used_qubits, shots) -> (measured_qubits, rows)`; a script entry may raise (Device.run failure) or
    return a ready-made result object instead of the pair"""
    import numpy as np
    from braket.tasks import GateModelQuantumTaskResult

    used = sorted(int(q) for q in circ.qubits)
    self.last_circuit = circ
    self.run_kwargs.append(dict(kw))
    got = self.script[len(self.calls)](used, shots)
    if not isinstance(got, tuple):
        self.calls.append((used, shots, [], []))
        t = StubTask(got)
    else:
        mq, rows = got
        self.calls.append((used, shots, mq, rows))
        t = StubTask(braket_result(mq, rows, shots))
    t.cancel_raises = bool(getattr(self, "cancel_raises", False))
    self.tasks.append(t)
    return t


class StubDevice:
    """stands in for braket.devices.Device"""

    def __init__(self):
        self.calls, self.script, self.tasks, self.run_kwargs = [], [], [], []

    run = _stub_run


_AWS_STUB = None


def aws_stub(shots_range, operations):
    """an AwsDevice (isinstance is what BraketSamplingBackend tests) without a session: `properties` carries the
    shotsRange the back end reads and the supportedOperations AwsDeviceTranspiler reads"""
    global _AWS_STUB
    if _AWS_STUB is None:
        from braket.aws import AwsDevice

        class _Props:
            def __init__(self, shots_range, operations):
                self.service = types.SimpleNamespace(shotsRange=tuple(shots_range))
                self._ops = list(operations)

            def dict(self):
                return {"action": {"braket.ir.openqasm.program": {"supportedOperations": list(self._ops)}}}

        class AwsStub(AwsDevice):
            def __init__(self, shots_range, operations):  # noqa: D401 – no AWS session
                self.calls, self.script, self.tasks, self.run_kwargs = [], [], [], []
                self._p = _Props(shots_range, operations)

            @property
            def properties(self):
                return self._p

            run = _stub_run

        _AWS_STUB = AwsStub
    return _AWS_STUB(shots_range, operations)


ALL_OPS = ["x", "h", "rx", "cnot", "swap", "ccnot", "cz", "i"]


def k_braket(ctx: Ctx):
    """BraketSamplingBackend(stub device, qubit_mapping=m).sample(c, shots).result().counts"""
    from quri_parts.braket.backend.sampling import BraketSamplingBackend
    from quri_parts.circuit.transpile import SequentialTranspiler

    rng = ctx.rng
    Dev = StubDevice

    cases = []
    for _ in range(ctx.n(120, 3000)):
        n = rng.randint(1, 4)
        items, kind = rand_mapping(rng, n, kind=rng.choice(["inj", "inj-wide", "inj", "huge", "identity", "perm", "shift", "boundary"]))
        if {k for k, _ in items} != set(range(n)):
            items = list(zip(range(n), [v for _, v in items]))
            rng.shuffle(items)
        if kind == "huge" and rng.random() < 0.5 and 63 not in [v for _, v in items]:
            items[0] = (items[0][0], 63)  # NumPy's float path of BraketSamplingResult.counts
        gates = []
        for _ in range(rng.randint(1, 6)):
            k = rng.choice(["H", "X", "RX", "CNOT"])
            if k == "CNOT" and n >= 2:
                a, b = rng.sample(range(n), 2)
                gates.append({"name": "CNOT", "t": [b], "c": [a], "cl": [], "params": [], "pauli": [], "um": []})
            elif k == "RX":
                gates.append({"name": "RX", "t": [rng.randrange(n)], "c": [], "cl": [], "params": [rng.uniform(-3, 3)], "pauli": [], "um": []})
            else:
                gates.append({"name": k if k != "CNOT" else "H", "t": [rng.randrange(n)], "c": [], "cl": [], "params": [], "pauli": [], "um": []})
        shots = rng.randint(1, 9)
        max_shots = rng.choice([None, None, 2, 3, 4])
        cases.append((items, n, gates, shots, max_shots, kind))
    reqs, meta = [], []
    for items, n, gates, shots, max_shots, kind in cases:
        # several device tasks: an AwsDevice whose shotsRange the back end reads at construction (never a private
        # attribute of the back end)
        dev = Dev() if max_shots is None else aws_stub((rng.choice([0, 1]), max_shots), ALL_OPS)
        m = dict(items)
        width = max(m.values()) + 1

        def script(used, s, width=width):
            # the device measures the used qubits plus, sometimes, further backend qubits (stray bits), in any order
            mq = list(used)
            extra = [q for q in range(width + 2) if q not in used]
            rng.shuffle(extra)
            mq += extra[: rng.randint(0, min(2, len(extra)))]
            rng.shuffle(mq)
            rows = [[rng.randint(0, 1) for _ in mq] for _ in range(s)]
            if max(mq) == 63:
                # float path: only rows with at most two 1s are modelled (one correctly rounded addition);
                # with more, the result depends on NumPy's summation order
                rows = [[1 if i in set(rng.sample(range(len(mq)), min(len(mq), rng.randint(0, 2)))) else 0
                         for i in range(len(mq))] for _ in range(s)]
                ctx.count("braket.float_path_rows", k=len(rows))
            return mq, rows

        dev.script = [script] * 64
        try:
            be = BraketSamplingBackend(dev, circuit_transpiler=marker_transpiler(), qubit_mapping=mapping_form(items, rng.choice(MAPPING_FORMS)))
            job = be.sample(circuit_form(real_circuit(n, 0, gates), rng.choice(CIRCUIT_FORMS)), shots)
            real = sorted(job.result().counts.items())
        except Exception as e:  # noqa: BLE001
            real = f"err {type(e).__name__}"
        meta.append((items, n, gates, dev, real, kind))
        enc = "#".join(",".join(map(str, mq)) + "~" + " ".join("".join(map(str, row)) for row in rows)
                       for _, _, mq, rows in dev.calls)
        reqs.append(f"c18braket {enc_map(items)} | {enc if dev.calls else '0~0'}")
    resp = ctx.driver(reqs, entry=ENTRY)
    # the circuits the device received: qubits = model's remapped wires
    rreq = [f"c18remap {enc_map(items)} | {n} 0 | " + ";".join(enc_gate_spec(g) for g in gates + [MARKER]) for items, n, gates, *_ in meta]
    rresp = ctx.driver(rreq, entry=ENTRY)
    for (items, n, gates, dev, real, kind), r, rr in zip(meta, resp, rresp):
        ctx.traces += 1
        ctx.count("braket.batches", str(len(dev.calls)))
        ctx.case(("braket", tuple(items), n, tuple(enc_gate_spec(g) for g in gates), tuple(map(str, dev.calls))), nontrivial=True,
                 sample={"kind": "braket", "mapping": items, "model": r[:120]})
        if isinstance(real, str):
            ctx.disagree("braket-backend", {"kind": "braket", "mapping": items}, real, r)
            continue
        model = sorted((int(a), int(b)) for a, b in (kv.split(":") for kv in r.split(",") if kv))
        if model != [(int(a), int(b)) for a, b in real]:
            ctx.disagree("braket-backend", {"kind": "braket", "mapping": items, "calls": [c[1:] for c in dev.calls]}, str(real)[:300], r[:300])
        if rr.startswith("ok"):
            wires = set()
            for g in rr.split("|")[1].strip().split(";"):
                if g:
                    _, t, c, _, _ = g.split("/")
                    wires |= {int(x) for x in (t + "," + c).split(",") if x}
            if dev.calls and set(dev.calls[0][0]) != wires:
                ctx.disagree("braket-circuit-wires", {"kind": "braket", "mapping": items}, str(dev.calls[0][0]), str(sorted(wires)))
        else:
            ctx.disagree("braket-circuit-wires", {"kind": "braket", "mapping": items}, "backend accepted", rr)


# ---------------------------------------------------------------------------
# the property on the REAL code against the independent oracle
# ---------------------------------------------------------------------------
def classical_gate(rng, q):
    k = rng.choice(["X", "CNOT", "SWAP", "TOFFOLI", "CNOT"])
    g = {"name": k, "t": [], "c": [], "cl": [], "params": [], "pauli": [], "um": []}
    if k == "X" or len(q) < 2 or (k == "TOFFOLI" and len(q) < 3):
        g.update(name="X", t=[rng.choice(q)])
    elif k == "CNOT":
        a, b = rng.sample(q, 2)
        g.update(c=[a], t=[b])
    elif k == "SWAP":
        g.update(t=rng.sample(q, 2))
    else:
        a, b, c = rng.sample(q, 3)
        g.update(c=[a, b], t=[c])
    return g


def describe(items, n, cb, gates):
    return {"mapping": dict(items), "mapping_items": items, "qubit_count": n, "cbit_count": cb,
            "gates": [{k: v for k, v in g.items() if v} for g in gates]}


def oracle_search(ctx: Ctx, budget_s: float):
    import quri_parts.backend.qubit_mapping as qm
    from quri_parts.circuit.transpile import QubitRemappingTranspiler

    from oracle import c18_remap as orc

    rng = ctx.rng
    t0 = time.time()
    n_eval = 0
    worst = 0.0
    min_iter = ctx.n(60, 2500)
    it = 0
    while it < min_iter or time.time() - t0 < budget_s:
        it += 1
        if it > min_iter * 100:
            break
        mode = rng.choice(["classical", "classical", "dense", "reject", "counts", "qiskit", "braket", "braket-backend"])
        n = rng.randint(1, 5 if mode != "dense" else 3)
        if mode == "reject":
            items, kind = rand_mapping(rng, n)
            nn, cb, gates = rand_circuit(rng, n, rng.randint(0, 6), meas_prob=0.3)
            m = dict(items)
            used = {q for g in gates for q in g["t"] + g["c"]}
            want = orc.should_accept(m, used)
            real, out_r = real_remap(items, nn, cb, gates, rng.choice(["direct", "backend-mapping", "sequential"]), rng.choice(MAPPING_FORMS), rng.choice(CIRCUIT_FORMS))
            n_eval += 1
            if out_r is not None and (out_r.cbit_count != cb or [tuple(g.classical_indices) for g in out_r.gates] != [tuple(g["cl"]) for g in gates]):
                ctx.witness("remap-classical-register", "the remapped circuit does not keep the classical register / classical indices",
                            describe(items, nn, cb, gates), {"real": real[:200]})
            ctx.count("oracle.reject", ("accept" if want else "reject") + "/" + real.split(" ")[0])
            if want != real.startswith("ok"):
                ctx.witness("remap-acceptance", f"mapping should be {'accepted' if want else 'rejected'} but the transpiler answered {real[:60]}",
                            describe(items, nn, cb, gates))
            elif not want and "ValueError" not in real:
                ctx.witness("remap-rejection-class", f"rejected with {real} instead of ValueError", describe(items, nn, cb, gates))
            continue
        items, kind = rand_mapping(rng, n, kind=rng.choice(VALID_KINDS if mode != "dense" else ["inj", "inj", "identity", "identity-sparse", "perm", "shift"]))
        m = dict(items)
        keys = sorted(m)
        if mode == "counts":
            # arbitrary logical distribution -> backend distribution with stray bits -> real unmap
            width = max(m.values()) + 1
            free = [q for q in range(width + 3) if q not in set(m.values())]
            logical, backend = {}, {}
            for _ in range(rng.randint(0, 10)):
                x = orc.from_ones(k for k in keys if rng.random() < 0.5)
                s = orc.from_ones(q for q in free if rng.random() < 0.3)
                y = orc.forward_outcome(m, x) | s
                if y in backend:
                    continue
                cnt = rng.randint(1, 1000)
                backend[y] = cnt
                logical[x] = logical.get(x, 0) + cnt
            vform = rng.choice(["int", "int", "counter", "float"])
            if vform == "float":  # multiples of 1/4: every sum below is exact in binary64
                backend = {y: c * QUARTER for y, c in backend.items()}
                logical = {}
                for y, c in backend.items():
                    x = orc.logical_outcome(m, y)
                    logical[x] = logical.get(x, 0) + c
            arg = Counter(backend) if vform == "counter" else dict(backend)
            try:
                got = dict(qm.BackendQubitMapping(mapping_form(items, rng.choice(MAPPING_FORMS))).unmap_sampling_counts(arg))
            except Exception as e:  # noqa: BLE001
                got = {"raised": type(e).__name__}
            n_eval += 1
            ctx.count("oracle.counts", vform)
            if got != logical or sum(got.values()) != sum(backend.values()):
                ctx.witness("unmap-counts", "un-mapped counts differ from the logical distribution",
                            {"mapping": items, "backend_counts": sorted(backend.items()), "counts_given_as": vform},
                            {"got": sorted(got.items(), key=str), "want": sorted(logical.items())})
            continue
        if mode == "braket-backend":
            # the whole back end, end to end: a classical reversible circuit goes through the user transpiler, the
            # remapping and the Braket conversion; the stub device *executes the Braket circuit it receives* on |0…0>
            # (plus stray 1s on backend qubits outside the mapping); the counts that come back must be those of
            # the logical circuit followed by the user transpiler's X(0)
            from quri_parts.braket.backend.sampling import BraketSamplingBackend

            if set(m) != set(range(len(m))) or max(m.values()) == 63:
                continue
            dev = StubDevice()
            width = max(m.values()) + 1
            free = [b for b in range(width + 2) if b not in set(m.values())]
            gates = [classical_gate(rng, keys) for _ in range(rng.randint(0, 6))]
            x_out = orc.from_ones(orc.classical_run(real_circuit(len(m), 0, gates + [MARKER]).gates, set()))

            def script(used, shots, dev=dev):
                on = orc.braket_classical_run(dev.last_circuit)
                mq = sorted(set(m.values()) | set(rng.sample(free, rng.randint(0, len(free)))))
                rng.shuffle(mq)
                rows = [[1 if (b in on or (b in free and rng.random() < 0.25)) else 0 for b in mq] for _ in range(shots)]
                return mq, rows

            dev.script = [script] * 64
            shots = rng.randint(1, 9)
            n_eval += 1
            mxs = rng.choice([None, 2, 3])
            try:
                be = BraketSamplingBackend(dev, circuit_transpiler=marker_transpiler(), qubit_mapping=m)
                if mxs is not None:
                    be._max_shots = mxs
                got = dict(be.sample(real_circuit(len(m), 0, gates), shots).result().counts)
            except Exception as e:  # noqa: BLE001
                got = {"raised": type(e).__name__}
            want = {x_out: shots}
            ctx.count("oracle.braket-backend", "ok" if got == want else "MISMATCH")
            if got != want and any(max(c[2]) == 63 for c in dev.calls):
                ctx.witness(FINDING_F64, "BraketSamplingResult.counts computes the key in float64 when the largest measured "
                            "qubit label is 63", {**describe(items, len(m), 0, gates), "device_calls": [(c[2], c[3]) for c in dev.calls]},
                            {"got": sorted(got.items(), key=str), "want": sorted(want.items())})
            elif got != want:
                ctx.witness("braket-backend-counts", "BraketSamplingBackend(qubit_mapping=m, circuit_transpiler=append X(0)).sample(c, shots)"
                            ".result().counts differs from the counts of the logical circuit",
                            {**describe(items, len(m), 0, gates), "shots": shots, "max_shots": mxs,
                             "device_calls": [(c[2], c[3]) for c in dev.calls]},
                            {"got": sorted(got.items(), key=str), "want": sorted(want.items())})
            continue
        if mode in ("qiskit", "braket"):
            # logical distribution -> what the SDK hands back (strings / measurement rows, backend labels,
            # stray backend qubits included) -> the package's own conversion + job mapper
            width = max(m.values()) + 1
            free = [q for q in range(width + 2) if q not in set(m.values())]
            logical, shots_rows = {}, []
            for _ in range(rng.randint(1, 8)):
                on_logical = {k for k in keys if rng.random() < 0.5}
                on_backend = {m[k] for k in on_logical} | {q for q in free if rng.random() < 0.25}
                cnt = rng.randint(1, 6)
                x = orc.from_ones(on_logical)
                logical[x] = logical.get(x, 0) + cnt
                shots_rows.append((on_backend, cnt))
            n_eval += 1
            inp = {"mapping": items, "shots": [(sorted(on), cnt) for on, cnt in shots_rows]}
            try:
                if mode == "qiskit":
                    W = width + 2
                    strs = {}
                    for on, cnt in shots_rows:  # qiskit: rightmost character is qubit 0
                        sx = "".join("1" if (W - 1 - i) in on else "0" for i in range(W))
                        strs[sx] = strs.get(sx, 0) + cnt
                    uq = qiskit_utils()
                    mapper, _ = uq.get_job_mapper_and_circuit_transpiler(m, None)
                    got = dict(mapper(StubJob(uq.convert_qiskit_sampling_count_to_qp_sampling_count(strs))).result().counts)
                    inp = {"mapping": items, "qiskit_counts": strs}
                else:
                    import numpy as np
                    from braket.tasks import GateModelQuantumTaskResult

                    from quri_parts.braket.backend.sampling import BraketSamplingResult

                    mq = sorted(set(m.values()) | set(rng.sample(free, rng.randint(0, len(free)))))
                    rng.shuffle(mq)
                    rows = [[1 if q in on else 0 for q in mq] for on, cnt in shots_rows for _ in range(cnt)]
                    res = GateModelQuantumTaskResult(task_metadata=None, additional_metadata=None,
                                                     measurements=np.array(rows, dtype=int), measured_qubits=mq)
                    got = dict(qm.QubitMappedSamplingResult(BraketSamplingResult(res), qm.BackendQubitMapping(m)).counts)
                    inp = {"mapping": items, "measured_qubits": mq, "measurements": rows}
            except Exception as e:  # noqa: BLE001
                got = {"raised": type(e).__name__}
            ctx.count("oracle." + mode, "ok" if got == logical else "MISMATCH")
            if got != logical and mode == "braket" and max(mq) == 63:
                # the predicate that identifies the known defect: the largest measured label is exactly 63
                ctx.witness(FINDING_F64, "BraketSamplingResult.counts computes the key in float64 when the largest measured "
                            "qubit label is 63", inp, {"got": sorted(got.items(), key=str), "want": sorted(logical.items())})
            elif got != logical:
                ctx.witness(mode + "-counts", f"{mode} results converted and un-mapped differ from the logical distribution",
                            inp, {"got": sorted(got.items(), key=str), "want": sorted(logical.items())})
            continue
        q = keys
        gates = []
        for _ in range(rng.randint(1, 8)):
            if mode == "classical":
                gates.append(classical_gate(rng, q))
            else:
                g = rand_gate(rng, q, False, 0)
                gates.append(g)
        nn = max(keys) + 1
        via = "qiskit" if (mode == "classical" and 0 in m and rng.random() < 0.3) else "direct"
        real, out = real_remap(items, nn, 0, gates, via, rng.choice(MAPPING_FORMS), rng.choice(CIRCUIT_FORMS))
        if via == "qiskit":
            gates = gates + [MARKER]  # the helper must apply the user transpiler on logical qubits, then remap
        n_eval += 1
        if out is None:
            ctx.witness("remap-acceptance", f"valid mapping rejected: {real}", describe(items, nn, 0, gates))
            continue
        width = max(m.values()) + 1
        if out.qubit_count != width:
            ctx.witness("remap-qubit-count", f"qubit_count {out.qubit_count} != max target + 1 = {width}", describe(items, nn, 0, gates))
            continue
        if mode == "classical":
            # sample the circuit from several prepared basis states (X-prefix), both on the original and on the
            # remapped circuit; un-map what the backend would report (plus stray bits on unused backend qubits)
            free = [b for b in range(width + 2) if b not in set(m.values())]
            logical, backend = {}, {}
            for _ in range(4):
                prep = {k for k in keys if rng.random() < 0.5}
                x_out = orc.from_ones(orc.classical_run(real_circuit(nn, 0, gates).gates, prep))
                try:
                    y_on = orc.classical_run(out.gates, {m[k] for k in prep})
                except (IndexError, KeyError, ValueError) as e:
                    ctx.witness("remap-semantics", f"the remapped circuit contains a malformed gate ({type(e).__name__})",
                                describe(items, nn, 0, gates), {"output": [enc_real_gate(g) for g in out.gates]})
                    backend = None
                    break
                stray = {b for b in free if rng.random() < 0.3}
                y = orc.from_ones(y_on | stray)
                if y in backend:
                    continue
                shots = rng.randint(1, 500)
                backend[y] = shots
                logical[x_out] = logical.get(x_out, 0) + shots
            if backend is None:
                continue
            got = dict(qm.BackendQubitMapping(m).unmap_sampling_counts(backend))
            ctx.count("oracle.classical", "ok" if got == logical else "MISMATCH")
            if got != logical:
                ctx.witness("roundtrip-counts", "remap → run → un-map does not give the counts of the original circuit",
                            {**describe(items, nn, 0, gates), "backend_counts": sorted(backend.items())},
                            {"got": sorted(got.items()), "want": sorted(logical.items())})
        else:
            if width > 6:
                continue
            try:
                d = orc.dense_remap_defect(nn, real_circuit(nn, 0, gates).gates, m, width, out.gates)
            except KeyError:
                ctx.count("oracle.dense", "unknown-gate")
                continue
            except (IndexError, ValueError) as e:
                ctx.witness("remap-semantics", f"the remapped circuit contains a malformed gate ({type(e).__name__})",
                            describe(items, nn, 0, gates), {"output": [enc_real_gate(g) for g in out.gates]})
                continue
            worst = max(worst, d)
            ctx.count("oracle.dense", "ok" if d <= 1e-9 else "MISMATCH")
            if d > 1e-9:
                ctx.witness("remap-semantics", f"remapped circuit is not the original on the relabelled qubits ⊗ identity (defect {d:.3g})",
                            describe(items, nn, 0, gates))
    ctx.extra["oracle_validation"] = {"evaluations": n_eval, "worst_dense_defect_ok": worst}
    ctx.evaluations += n_eval
    ctx.search_budget_s += budget_s


# ---------------------------------------------------------------------------
# histories: the same mapping / transpiler / result objects used again and again
# ---------------------------------------------------------------------------
def k_history(ctx: Ctx):
    """A pool of live BackendQubitMapping objects (each with ONE transpiler, ONE mapped result and ONE mapped job
    that are reused), driven by an interleaved sequence of remap / unmap calls; every answer must be the model's
    answer for that call alone (no state carried between calls, no cache keyed on less than the whole input)."""
    import quri_parts.backend.qubit_mapping as qm
    from quri_parts.circuit.transpile import QubitRemappingTranspiler

    from oracle import c18_remap as orc

    rng = ctx.rng
    trials = []
    for _ in range(ctx.n(60, 1500)):
        n = rng.randint(1, 5)
        pool = []
        base_items, _ = rand_mapping(rng, n, kind=rng.choice(VALID_KINDS))
        for j in range(rng.randint(1, 3)):
            r = rng.random()
            if j == 0 or r < 0.3:
                items, kind = (base_items, "base") if j == 0 else rand_mapping(rng, n)
            elif r < 0.65:  # same keys and values, another pairing (a cache keyed on keys / on sorted values)
                vals = [v for _, v in base_items]
                rng.shuffle(vals)
                items, kind = list(zip([k for k, _ in base_items], vals)), "repaired"
            else:  # same pairs, another insertion order
                items = list(base_items)
                rng.shuffle(items)
                kind = "reordered"
            pool.append((items, kind))
        ops, circs, cnts = [], [], []
        for _ in range(rng.randint(4, 10)):
            i = rng.randrange(len(pool))
            items = pool[i][0]
            labels = sorted(k for k, _ in items) or [0]
            if rng.random() < 0.5:
                if circs and rng.random() < 0.35:
                    c = rng.choice(circs)  # the same circuit again, possibly through another mapping
                else:
                    cb = rng.randint(1, 2) if rng.random() < 0.1 else 0
                    lab = labels if rng.random() < 0.85 else labels + [max(labels) + 1]
                    gates = [rand_gate(rng, lab, cb > 0, cb) for _ in range(rng.randint(0, 5))]
                    c = (max(lab) + 1, cb, gates)
                    circs.append(c)
                ops.append(("remap", i, c, rng.choice(["own", "cached"]), rng.choice(CIRCUIT_FORMS)))
            else:
                if cnts and rng.random() < 0.35:
                    cs = rng.choice(cnts)
                else:
                    width = max([v for _, v in items] + [1]) + 1
                    cs = rand_counts(rng, width, rng.randint(0, 6))
                    cnts.append(cs)
                ops.append(("unmap", i, cs, rng.choice(["mapping", "result", "job"]), None))
        trials.append((pool, ops))
    reqs = []
    for pool, ops in trials:
        for op, i, payload, _, _ in ops:
            if op == "remap":
                n, cb, gates = payload
                reqs.append(f"c18remap {enc_map(pool[i][0])} | {n} {cb} | " + ";".join(enc_gate_spec(g) for g in gates))
            else:
                reqs.append(f"c18unmap {enc_map(pool[i][0])} | {enc_counts(payload)}")
    resp = iter(ctx.driver(reqs, entry=ENTRY))
    for pool, ops in trials:
        live = []
        for items, _ in pool:
            o = types.SimpleNamespace(items=items, bm=None, tr=None, tr_err=None, raw=types.SimpleNamespace(counts={}),
                                      job_counts={})
            try:
                o.bm = qm.BackendQubitMapping(mapping_form(items, rng.choice(MAPPING_FORMS)))
                o.res = qm.QubitMappedSamplingResult(o.raw, o.bm)
                o.job = qm.QubitMappedSamplingJob(StubJob(None), o.bm)
            except Exception as e:  # noqa: BLE001
                o.tr_err = f"err init {type(e).__name__}"
            try:
                o.tr = QubitRemappingTranspiler(dict(items))
            except Exception as e:  # noqa: BLE001
                o.tr_err = f"err init {type(e).__name__}"
            live.append(o)
        trace = []
        dead = False
        for step, (op, i, payload, how, cform) in enumerate(ops):
            model = next(resp)
            if dead:
                continue  # one report per history; the responses of its remaining calls are still consumed
            if model == "bad-request":
                raise InfraError("driver rejected a history request")
            o = live[i]
            if op == "remap":
                n, cb, gates = payload
                try:
                    tr = o.tr if how == "own" else o.bm.circuit_transpiler
                    if tr is None:
                        real = o.tr_err
                    else:
                        try:
                            real = enc_real_circuit(tr(circuit_form(real_circuit(n, cb, gates), cform)))
                        except Exception as e:  # noqa: BLE001
                            real = f"err call {type(e).__name__}"
                except Exception as e:  # noqa: BLE001
                    real = f"err init {type(e).__name__}"
                want = strip_detail(model)
            else:
                counts = dict(payload)
                try:
                    if how == "mapping":
                        out = o.bm.unmap_sampling_counts(counts)
                    elif how == "result":
                        o.raw.counts = counts  # the wrapped result object reports new counts; the wrapper is the old one
                        out = o.res.counts
                    else:
                        o.job.sampling_job._counts = counts
                        out = o.job.result().counts
                    real = "counts=" + enc_counts(list(out.items()))
                except Exception as e:  # noqa: BLE001
                    real = f"err {type(e).__name__}"
                want = model.split(" | ", 1)[1] if " | " in model else model
            trace.append({"op": op, "mapping_index": i, "how": how})
            hist_inp = {"live_mappings": [it for it, _ in pool], "calls_before_on_the_same_objects": list(trace[:-1][-8:]),
                        "this_call": {"op": op, "mapping": o.items, "through": how, "payload": str(payload)[:400]}}
            m_o = dict(o.items)
            if op == "unmap" and m_o and len(set(m_o.values())) == len(m_o):
                want_c = orc.expected_unmapped_counts(m_o, dict(payload))
                got_c = None if real.startswith("err") else {int(a): int(b) for a, b in (kv.split(":") for kv in real[7:].split(",") if kv)}
                if got_c != want_c:
                    ctx.witness("history-unmap-counts", "a mapping / mapped result / mapped job object that was used before un-maps "
                                "these counts differently from the logical distribution", hist_inp,
                                {"got": real[:300], "want": sorted(want_c.items())[:20]})
            if op == "remap" and m_o:
                n_, cb_, gates_ = payload
                exp = orc.expected_relabelling(m_o, [(g["t"], g["c"]) for g in gates_])
                if exp is None and real.startswith("ok"):
                    ctx.witness("history-remap", "a transpiler object that was used before accepts a circuit its mapping does not cover",
                                hist_inp, {"got": real[:300]})
                elif exp is not None and cb_ == 0:
                    want_r = f"ok {exp[0]} 0 | " + ";".join(
                        f"{g['name']}/{','.join(map(str, t))}/{','.join(map(str, c))}//{payload_of(g['params'], g['pauli'], g['um'])}"
                        for g, (t, c) in zip(gates_, exp[1]))
                    if real != want_r:
                        ctx.witness("history-remap", "a transpiler object that was used before does not relabel this circuit by its mapping",
                                    hist_inp, {"got": real[:300], "want": want_r[:300]})
            ctx.traces += 1
            ctx.count("history.op", f"{op}/{how}")
            ctx.case(("history", tuple(map(str, pool)), step, str(payload)[:200]), nontrivial=True)
            if real != want:
                ctx.disagree("history:" + op, {"kind": "history", "pool": [it for it, _ in pool], "step": step,
                                                "calls_so_far": trace[-8:], "payload": str(payload)[:300]}, real[:300], want[:300])
                dead = True
        ctx.count("history.pool", "+".join(k for _, k in pool))


# ---------------------------------------------------------------------------
# the alternative public entry points, end to end, against the oracle
# ---------------------------------------------------------------------------
def transpiler_form(rng):
    """(argument handed to the back end, whether the marker X(0) is applied, label)"""
    from quri_parts.circuit.transpile import SequentialTranspiler

    f = rng.choice(["marker", "marker", "sequential", "none", "omitted"])
    if f == "marker":
        return {"circuit_transpiler": marker_transpiler()}, True, f
    if f == "sequential":
        return {"circuit_transpiler": SequentialTranspiler([SequentialTranspiler([]), marker_transpiler()])}, True, f
    if f == "none":
        return {"circuit_transpiler": None}, False, f
    return {}, False, f


def entry_braket(ctx: Ctx, count: int):
    """BraketSamplingBackend on a scripted device that EXECUTES the Braket circuit it is handed (classical
    reversible circuits on |0…0>, stray 1s on backend qubits outside the mapping): plain Device / AwsDevice with a
    shotsRange, with and without a mapping, every circuit_transpiler argument form, shot batches incl. round-up and
    refusal, and a Device.run that fails part-way."""
    from quri_parts.braket.backend.sampling import BraketSamplingBackend

    from oracle import c18_remap as orc

    rng = ctx.rng
    # every branch of the batch rule once per run, whatever the seed: (device min, device max, shots, round-up)
    forced = [(3, 5, 2, False), (3, 5, 2, True), (3, 4, 9, False), (3, 4, 9, True), (2, 4, 10, None), (0, 0, 7, False), (1, 3, 9, True)]
    for _ in range(count):
        force = forced.pop() if forced else None
        n = rng.randint(1, 4)
        with_map = rng.random() < 0.8
        items, kind = rand_mapping(rng, n, kind=rng.choice(VALID_KINDS))
        items = list(zip(range(n), [v for _, v in items][:n]))
        if len(items) < n:
            continue
        rng.shuffle(items)
        m = dict(items) if with_map else {k: k for k in range(n)}
        width = max(m.values()) + 1
        free = [b for b in range(width + 2) if b not in set(m.values())]
        gates = [classical_gate(rng, list(range(n))) for _ in range(rng.randint(0, 6))]
        targ, marked, tform = transpiler_form(rng)
        lo, hi, dev_kind = 1, None, "plain"
        if force or rng.random() < 0.6:
            dev_kind = "aws"
            lo_raw = force[0] if force else rng.choice([0, 1, 1, 2, 3])
            hi_raw = force[1] if force else rng.choice([0, 2, 3, 4, 5])
            hi_raw = hi_raw if hi_raw == 0 or hi_raw >= max(lo_raw, 1) else max(lo_raw, 1)
            ops = [o for o in ALL_OPS if o not in ("cz", "i") or rng.random() < 0.5]
            dev = aws_stub((lo_raw, hi_raw), ops)
            lo, hi = (lo_raw if lo_raw > 0 else 1), (hi_raw if hi_raw > 0 else None)
        else:
            dev = StubDevice()
        roundup = rng.choice([True, True, False, None])  # None = argument omitted (documented default True)
        shots = rng.choices([rng.randint(1, 11), rng.randint(1, 4), 0], [10, 5, 1])[0]
        if force:
            shots, roundup = force[2], force[3]
        want_dist = orc.expected_shot_batches(shots, lo, hi, True if roundup is None else roundup) if shots >= 1 else None
        fail_at = rng.randrange(len(want_dist)) if want_dist and rng.random() < (0.3 if len(want_dist) > 1 else 0.06) and not force else None
        x_on = orc.classical_run(real_circuit(n, 0, gates + ([MARKER] if marked else [])).gates, set())
        rows_seen = []

        def script(used, s, dev=dev):
            if fail_at is not None and len(dev.calls) == fail_at:
                raise DeviceDown("scripted failure")
            on = orc.braket_classical_run(dev.last_circuit)
            mq = sorted(set(m.values()) | set(rng.sample(free, rng.randint(0, len(free)))))
            rng.shuffle(mq)
            rows = [[1 if (b in on or (b in free and rng.random() < 0.25)) else 0 for b in mq] for _ in range(s)]
            rows_seen.extend((tuple(mq), tuple(r)) for r in rows)
            return mq, rows

        dev.script = [script] * 64
        dev.cancel_raises = rng.random() < 0.5
        kw = dict(targ)
        if with_map:
            kw["qubit_mapping"] = mapping_form(items, rng.choice(MAPPING_FORMS))
        elif rng.random() < 0.5:
            kw["qubit_mapping"] = None
        if roundup is not None:
            kw["enable_shots_roundup"] = roundup
        run_kwargs = {"poll_timeout_seconds": 7} if rng.random() < 0.2 else None
        if run_kwargs:
            kw["run_kwargs"] = run_kwargs
        inp = {**describe(items if with_map else [], n, 0, gates), "qubit_mapping_given": with_map, "shots": shots,
               "device": dev_kind, "shotsRange": getattr(getattr(dev, "_p", None), "service", None) and list(dev._p.service.shotsRange),
               "circuit_transpiler": tform, "enable_shots_roundup": roundup, "run_fails_at_call": fail_at}
        try:
            be = BraketSamplingBackend(dev, **kw)
            job = be.sample(circuit_form(real_circuit(n, 0, gates), rng.choice(CIRCUIT_FORMS)), shots)
            got = dict(job.result().counts)
            if rng.random() < 0.3:  # the job / result objects asked twice
                again = dict(job.result().counts)
                if again != got:
                    ctx.witness("braket-backend-counts", "job.result().counts differs between two reads of the same job", inp,
                                {"first": sorted(got.items()), "second": sorted(again.items())})
        except Exception as e:  # noqa: BLE001
            got = "raised " + type(e).__name__
        ctx.evaluations += 1
        ran = [c[1] for c in dev.calls]
        ctx.count("entry.braket", f"{dev_kind}/{'mapped' if with_map else 'unmapped'}/{tform}")
        ctx.count("entry.braket.batches", str(len(ran)) if not isinstance(got, str) else got)
        det = {"got": got if isinstance(got, str) else sorted(got.items()), "device_shots": ran}
        if shots < 1:
            # documented: "n_shots should be a positive integer" — only conservation is demanded if it does run
            if not isinstance(got, str) and sum(got.values()) != sum(ran):
                ctx.witness("braket-backend-counts", "counts total differs from the shots the device ran", inp, det)
            continue
        if want_dist is None:
            if not isinstance(got, str):
                ctx.witness("braket-shot-batches", "fewer shots than the device minimum with enable_shots_roundup=False must be "
                            "refused (documented ValueError); the back end ran the device instead", inp, det)
            continue
        if fail_at is not None:
            if not isinstance(got, str):
                ctx.witness("braket-run-failure", "Device.run failed for one of the batches but sample() returned a job whose counts "
                            "cannot contain every requested shot", inp, det)
            else:
                ctx.count("entry.braket.cancelled", f"{sum(t.cancelled for t in dev.tasks)}/{len(dev.tasks)}")
            continue
        if isinstance(got, str):
            ctx.witness("braket-backend-counts", f"a valid request was answered with {got}", inp, det)
            continue
        if ran != want_dist or not orc.shot_batches_admissible(ran, shots, lo, hi, True if roundup is None else roundup):
            ctx.witness("braket-shot-batches", f"the device was run with shot batches {ran}, documented behaviour gives {want_dist}", inp, det)
            continue
        if run_kwargs and any(k != run_kwargs for k in dev.run_kwargs):
            ctx.count("entry.braket.run_kwargs", "not-forwarded")
        if with_map:
            want = {orc.from_ones(x_on): sum(want_dist)}
        else:  # no mapping: the backend outcomes as they are, stray bits included
            want = {}
            for mq, row in rows_seen:
                y = orc.from_ones(q for q, b in zip(mq, row) if b)
                want[y] = want.get(y, 0) + 1
        if got != want:
            f64 = any(c[2] and max(c[2]) == 63 for c in dev.calls)
            ctx.witness(FINDING_F64 if f64 else "braket-backend-counts",
                        "BraketSamplingResult.counts computes the key in float64 when the largest measured qubit label is 63" if f64 else
                        "BraketSamplingBackend.sample(c, shots).result().counts differs from the counts of the logical circuit",
                        {**inp, "device_calls": [(c[2], c[3]) for c in dev.calls]}, {**det, "want": sorted(want.items())})


def entry_braket_guards(ctx: Ctx):
    """the two documented refusals of BraketSamplingResult, reached through the mapped job: a task result that is
    not a GateModelQuantumTaskResult, and one without measurements — no counts may come back"""
    import numpy as np
    from braket.tasks import GateModelQuantumTaskResult

    from quri_parts.braket.backend.sampling import BraketSamplingBackend

    for label, res in (("foreign-result", object()),
                       ("no-measurements", GateModelQuantumTaskResult(task_metadata=None, additional_metadata=None,
                                                                      measurements=None, measured_qubits=[0, 1]))):
        for m in ({0: 1, 1: 0}, None):
            dev = StubDevice()
            dev.script = [lambda used, s, res=res: res]
            try:
                got = dict(BraketSamplingBackend(dev, qubit_mapping=m).sample(real_circuit(2, 0, [MARKER]), 3).result().counts)
            except Exception as e:  # noqa: BLE001
                got = "raised " + type(e).__name__
            ctx.evaluations += 1
            ctx.count("entry.braket.guard", f"{label}:{got if isinstance(got, str) else 'counts'}")
            if not isinstance(got, str) and sum(got.values()) != 3:
                ctx.witness("braket-backend-counts", f"{label}: counts came back although the device delivered no measurement",
                            {"mapping": m, "result": label}, {"got": sorted(got.items())})
    del np


_QISKIT_SIM = None


def qiskit_sim(max_shots_form, max_shots):
    """qiskit's own BasicSimulator (a BackendV2) recording the shots of every run; how the device advertises its
    max_shots is the argument form get_backend_min_max_shot has to read"""
    global _QISKIT_SIM
    if _QISKIT_SIM is None:
        from qiskit.providers.basic_provider import BasicSimulator

        class Sim(BasicSimulator):
            def __init__(self, form, max_shots):
                super().__init__()
                self.shots_seen = []
                self.fail_at = None
                if form == "attr":
                    self.max_shots = max_shots
                elif form == "configuration":
                    self.configuration = lambda: types.SimpleNamespace(max_shots=max_shots)
                elif form == "configuration-without":
                    self.configuration = lambda: types.SimpleNamespace()

            def run(self, run_input, **kw):
                if self.fail_at is not None and len(self.shots_seen) == self.fail_at:
                    raise DeviceDown("scripted failure")
                self.shots_seen.append(kw.get("shots"))
                return super().run(run_input, **kw)

        _QISKIT_SIM = Sim
    return _QISKIT_SIM(max_shots_form, max_shots)


def entry_qiskit(ctx: Ctx, count: int):
    """QiskitSamplingBackend (the in-tree caller of utils.py) on qiskit's BasicSimulator: a classical reversible
    circuit, a user transpiler on logical qubit 0, the mapping, a converter that additionally sets stray backend
    qubits to 1, shots split by the device's max_shots; the counts must be those of the logical circuit."""
    try:
        sampling = importlib.import_module(qiskit_utils().__name__.rsplit(".", 1)[0] + ".sampling")
        from quri_parts.qiskit.circuit import convert_circuit
        import qiskit
    except Exception as e:  # noqa: BLE001
        ctx.disagree("entry:qiskit-backend-import", {"kind": "entry"}, f"import failed: {type(e).__name__}: {e}"[:300], "importable")
        return
    from oracle import c18_remap as orc

    rng = ctx.rng
    default_max = getattr(qiskit_utils(), "DEFAULT_MAX_SHOT", 10**6)
    for _ in range(count):
        n = rng.randint(1, 4)
        with_map = rng.random() < 0.85
        items, kind = rand_mapping(rng, n, kind=rng.choice(["inj", "inj", "inj-wide", "identity", "perm", "shift"]))
        vals = [v for _, v in items][:n]
        if len(vals) < n or max(vals) > 9:
            vals = rng.sample(range(10), n)
        items = list(zip(range(n), vals))
        rng.shuffle(items)
        m = dict(items) if with_map else {k: k for k in range(n)}
        width = max(m.values()) + 1
        free = [b for b in range(width + 2) if b not in set(m.values())]
        stray = sorted(b for b in free if rng.random() < 0.3) if with_map else []
        gates = [classical_gate(rng, list(range(n))) for _ in range(rng.randint(0, 6))]
        tform = rng.choice(["marker", "marker", "none", "omitted"])
        marked = tform == "marker"
        form = rng.choice(["attr", "attr", "configuration", "configuration-without", "neither"])
        raw_max = rng.choice([2, 3, 4, 2, 3, 0, -1]) if form in ("attr", "configuration") else None
        hi = raw_max if raw_max is not None and raw_max > 0 else default_max
        shots = rng.choices([rng.randint(1, 12), 1, 0], [12, 2, 1])[0]
        roundup = rng.choice([True, False, None])
        want_dist = orc.expected_shot_batches(shots, 1, hi, True if roundup is None else roundup) if shots >= 1 else None
        fail_at = rng.randrange(len(want_dist)) if want_dist and rng.random() < (0.25 if len(want_dist) > 1 else 0.05) else None

        def conv(c, tr=None, stray=stray):
            qc = convert_circuit(c, tr)
            if not stray:
                return qc
            big = qiskit.QuantumCircuit(max(qc.num_qubits, max(stray) + 1))
            big.compose(qc, qubits=range(qc.num_qubits), inplace=True)
            for b in stray:
                big.x(b)
            return big

        kw = {}
        if marked:
            kw["circuit_transpiler"] = marker_transpiler()
        elif tform == "none":
            kw["circuit_transpiler"] = None
        if with_map:
            kw["qubit_mapping"] = mapping_form(items, rng.choice(MAPPING_FORMS))
        elif rng.random() < 0.5:
            kw["qubit_mapping"] = None  # ({} is outside the property's domain)
        if roundup is not None:
            kw["enable_shots_roundup"] = roundup
        if stray:
            kw["circuit_converter"] = conv
        inp = {**describe(items if with_map else [], n, 0, gates), "qubit_mapping_given": with_map, "shots": shots,
               "device_max_shots": {"form": form, "value": raw_max}, "circuit_transpiler": tform, "enable_shots_roundup": roundup,
               "stray_backend_qubits_set": stray, "run_fails_at_call": fail_at}
        sim = None
        try:
            with warnings.catch_warnings():
                warnings.simplefilter("ignore")
                sim = qiskit_sim(form, raw_max)
                sim.fail_at = fail_at
                be = sampling.QiskitSamplingBackend(sim, **kw)
                job = be.sample(circuit_form(real_circuit(n, 0, gates), rng.choice(CIRCUIT_FORMS)), shots)
                got = dict(job.result().counts)
        except Exception as e:  # noqa: BLE001
            got = "raised " + type(e).__name__
        ran = list(sim.shots_seen) if sim is not None else []
        ctx.evaluations += 1
        ctx.count("entry.qiskit", f"{'mapped' if with_map else 'unmapped'}/{tform}/{form}")
        ctx.count("entry.qiskit.batches", str(len(ran)) if not isinstance(got, str) else got)
        det = {"got": got if isinstance(got, str) else sorted(got.items()), "device_shots": ran}
        if shots < 1:
            if not isinstance(got, str) and sum(got.values()) != sum(ran):
                ctx.witness("qiskit-backend-counts", "counts total differs from the shots the device ran", inp, det)
            continue
        if fail_at is not None:
            if not isinstance(got, str):
                ctx.witness("qiskit-run-failure", "Backend.run failed for one of the batches but sample() returned a job whose counts "
                            "cannot contain every requested shot", inp, det)
            continue
        if isinstance(got, str):
            ctx.witness("qiskit-backend-counts", f"a valid request was answered with {got}", inp, det)
            continue
        if ran != want_dist:
            ctx.witness("qiskit-shot-batches", f"the device was run with shot batches {ran}, documented behaviour gives {want_dist}", inp, det)
            continue
        x_on = orc.classical_run(real_circuit(n, 0, gates + ([MARKER] if marked else [])).gates, set())
        want = {orc.from_ones(x_on if with_map else x_on | set(stray)): sum(want_dist)}
        if got != want:
            ctx.witness("qiskit-backend-counts", "QiskitSamplingBackend.sample(c, shots).result().counts differs from the counts of "
                        "the logical circuit", inp, {**det, "want": sorted(want.items())})


def entry_qiskit_shots(ctx: Ctx):
    """distribute_backend_shots / get_backend_min_max_shot called directly (device minima above 1 are not reachable
    through a qiskit backend object), against the documented behaviour"""
    from oracle import c18_remap as orc

    u = qiskit_utils()
    rng = ctx.rng
    dist = getattr(u, "distribute_backend_shots", None)
    if dist is None:
        ctx.disagree("entry:distribute_backend_shots", {"kind": "entry"}, "function missing", "present")
    else:
        grid = [(n, lo, hi, ru) for n in range(1, ctx.n(14, 40)) for lo in (1, 2, 3, 5) for hi in (None, 1, 2, 3, 4, 5, 7)
                if hi is None or lo <= hi for ru in (True, False, None, "omitted")]
        grid += [(rng.randint(1, 10**7), rng.choice([1, 10, 100]), rng.choice([None, 100, 8192, 10**6]), rng.choice([True, False]))
                 for _ in range(ctx.n(60, 2000))]
        for n, lo, hi, ru in grid:
            pos = rng.random() < 0.5
            try:
                if ru == "omitted":
                    got = list(dist(n, lo, hi) if pos else dist(n_shots=n, min_shots=lo, max_shots=hi))
                else:
                    got = list(dist(n, lo, hi, ru) if pos else dist(n_shots=n, min_shots=lo, max_shots=hi, enable_shots_roundup=ru))
            except Exception as e:  # noqa: BLE001
                got = "raised " + type(e).__name__
            eff = True if ru == "omitted" else bool(ru)
            want = orc.expected_shot_batches(n, lo, hi, eff)
            ctx.evaluations += 1
            ctx.count("entry.qiskit.distribute", "refused" if want is None else str(min(len(want), 4)))
            inp = {"n_shots": n, "min_shots": lo, "max_shots": hi, "enable_shots_roundup": ru}
            if want is None:
                if got != "raised ValueError":
                    ctx.witness("qiskit-shot-batches", "fewer shots than the device minimum without round-up must be refused with "
                                "ValueError", inp, {"got": got})
            elif got != want or not orc.shot_batches_admissible(got, n, lo, hi, eff):
                ctx.witness("qiskit-shot-batches", "distribute_backend_shots differs from the documented batches", inp,
                            {"got": got, "want": want})
    mm = getattr(u, "get_backend_min_max_shot", None)
    if mm is None:
        ctx.disagree("entry:get_backend_min_max_shot", {"kind": "entry"}, "function missing", "present")
        return
    import qiskit.providers.backend as pb

    default_max = getattr(u, "DEFAULT_MAX_SHOT", 10**6)

    class V1(pb.BackendV1):  # the stand-in (or real) BackendV1: only `configuration()` exists on that generation
        def __init__(self, cfg):
            self._cfg = cfg

        def configuration(self):
            return self._cfg

    cases = []
    for form in ("attr", "configuration", "configuration-without", "neither"):
        for v in ((3, 8192, 1, 0, -5) if form in ("attr", "configuration") else (None,)):
            cases.append((f"BackendV2/{form}/{v}", lambda form=form, v=v: qiskit_sim(form, v), v))
    for v in (5, 0, None):
        cases.append((f"BackendV1/configuration/{v}",
                      lambda v=v: V1(types.SimpleNamespace(max_shots=v) if v is not None else types.SimpleNamespace()), v))
    cases.append(("not-a-backend", lambda: object(), "refuse"))
    for label, mk, v in cases:
        try:
            with warnings.catch_warnings():
                warnings.simplefilter("ignore")
                got = tuple(mm(mk()))
        except Exception as e:  # noqa: BLE001
            got = "raised " + type(e).__name__
        want = "raised BackendError" if v == "refuse" else (1, v if isinstance(v, int) and v > 0 else default_max)
        ctx.evaluations += 1
        ctx.count("entry.qiskit.min_max", label.split("/")[0])
        if got != want:
            ctx.witness("qiskit-min-max-shot", "get_backend_min_max_shot differs from the documented (1, device max_shots or the default)",
                        {"backend": label}, {"got": got, "want": want})


def gapped_mapping(rng, n, top=12):
    """injective maps of 0..n-1 whose image is NOT an initial segment: enlarged register with idle qubits below /
    between / above the used ones, every second qubit, a descending run, a shifted block, a permutation with a hole"""
    shape = rng.choice(["random-gaps", "random-gaps", "stride", "descending", "block", "low-hole", "far"])
    if shape == "stride":
        st, off = rng.choice([2, 3]), rng.choice([0, 1, 2])
        vals = [off + st * k for k in range(n)]
    elif shape == "descending":
        vals = sorted(rng.sample(range(1, top), n), reverse=True)
    elif shape == "block":
        off = rng.randint(1, 6)
        vals = [off + k for k in range(n)]
        rng.shuffle(vals)
    elif shape == "low-hole":  # a permutation of 0..n with one low label left out
        hole = rng.randrange(n)
        vals = [v for v in range(n + 1) if v != hole]
        rng.shuffle(vals)
    elif shape == "far":
        vals = rng.sample([0, 1, 2, 5, 17, 31, 32, 33, 40, 62, 64, 65, 100], n)
    else:
        vals = rng.sample(range(top), n)
    items = list(zip(range(n), vals))
    rng.shuffle(items)
    return items, shape


def ghz_like(rng, n):
    """(gates, [initial label sets of the branches]): optionally H on one qubit, then classical reversible gates —
    the exact distribution is uniform on the images of the one or two branches"""
    gates, branches = [], [set()]
    if rng.random() < 0.55:
        q = rng.randrange(n)
        gates.append({"name": "H", "t": [q], "c": [], "cl": [], "params": [], "pauli": [], "um": []})
        branches = [set(), {q}]
        for t in range(n):  # fan-out: the GHZ ladder, then anything classical
            if t != q and rng.random() < 0.7:
                gates.append({"name": "CNOT", "t": [t], "c": [q], "cl": [], "params": [], "pauli": [], "um": []})
    gates += [classical_gate(rng, list(range(n))) for _ in range(rng.randint(0, 5))]
    return gates, branches


def support_of(orc, n, gates, branches, marked):
    cl = [g for g in gates if g["name"] != "H"] + ([MARKER] if marked else [])
    return {orc.from_ones(orc.classical_run(real_circuit(n, 0, cl).gates, set(b))) for b in branches}


def entry_real_backends(ctx: Ctx, count: int):
    """The SDKs' own simulators, nothing scripted: BraketSamplingBackend on braket.devices.LocalSimulator (state
    vector and density matrix; it measures only the qubits the circuit touches, so a gapped mapping gives a result
    whose measured_qubits is not 0..k-1 and whose every optional field is populated by the SDK) — directly, and
    behind an AwsDevice front that splits the shots; basis-state and GHZ-like circuits; every outcome must lie in the
    exact support of the ORIGINAL circuit, the total must be the shots, and a deterministic circuit must give its
    one outcome."""
    try:
        from braket.devices import LocalSimulator

        from quri_parts.braket.backend.sampling import BraketSamplingBackend
    except Exception as e:  # noqa: BLE001
        ctx.count("entry.real", "braket-unavailable:" + type(e).__name__)
        return
    from oracle import c18_remap as orc

    rng = ctx.rng
    sims = {}
    for _ in range(count):
        n = rng.randint(1, 4)
        items, shape = gapped_mapping(rng, n) if rng.random() < 0.8 else (list(zip(range(n), rng.sample(range(n), n))), "perm")
        m = dict(items)
        gates, branches = ghz_like(rng, n)
        targ, marked, tform = transpiler_form(rng)
        support = support_of(orc, n, gates, branches, marked)
        backend_name = rng.choice(["default", "default", "braket_sv", "braket_dm"])
        shots = rng.randint(1, 24)
        front = rng.choice(["direct", "direct", "aws-split"])
        try:
            with warnings.catch_warnings():
                warnings.simplefilter("ignore")
                sim = sims.get(backend_name) or sims.setdefault(backend_name, LocalSimulator(backend_name))
        except Exception as e:  # noqa: BLE001
            ctx.count("entry.real", f"{backend_name}-unavailable:{type(e).__name__}")
            continue
        measured = []
        if front == "aws-split":
            dev = aws_stub((1, rng.choice([2, 3, 5])), ALL_OPS)

            def script(used, s, dev=dev, sim=sim):
                with warnings.catch_warnings():
                    warnings.simplefilter("ignore")
                    res = sim.run(dev.last_circuit, shots=s).result()
                measured.append([int(q) for q in res.measured_qubits])
                return res  # the SDK's own result object, as it is

            dev.script = [script] * 64
        else:
            dev = sim
        inp = {**describe(items, n, 0, gates), "mapping_shape": shape, "shots": shots, "device": f"LocalSimulator({backend_name!r})",
               "front": front, "circuit_transpiler": tform, "exact_support_of_original": sorted(support)}
        try:
            with warnings.catch_warnings():
                warnings.simplefilter("ignore")
                be = BraketSamplingBackend(dev, qubit_mapping=mapping_form(items, rng.choice(MAPPING_FORMS)), **targ)
                job = be.sample(circuit_form(real_circuit(n, 0, gates), rng.choice(CIRCUIT_FORMS)), shots)
                got = dict(job.result().counts)
        except Exception as e:  # noqa: BLE001
            got = "raised " + type(e).__name__
        ctx.evaluations += 1
        ctx.count("entry.real", f"braket/{backend_name}/{front}/{shape}/{len(branches)}-branch")
        f64 = max(m.values()) == 63 or any(mq and max(mq) == 63 for mq in measured)
        bad = isinstance(got, str) or not set(got) <= support or sum(got.values()) != shots
        if bad and f64:
            ctx.witness(FINDING_F64, "BraketSamplingResult.counts computes the key in float64 when the largest measured qubit label is 63",
                        inp, {"got": got if isinstance(got, str) else sorted(got.items())})
        elif bad:
            ctx.witness("braket-real-device-counts", "remap → run on Braket's LocalSimulator → un-map gives outcomes outside the exact "
                        "distribution of the original circuit (or loses shots)", inp,
                        {"got": got if isinstance(got, str) else sorted(got.items()), "want_outcomes_within": sorted(support), "want_total": shots})


def entry_points(ctx: Ctx, scale: int = 1):
    entry_real_backends(ctx, ctx.n(150, 3000) * scale)
    entry_braket(ctx, ctx.n(160, 4000) * scale)
    entry_braket_guards(ctx)
    entry_qiskit(ctx, ctx.n(100, 1500) * scale)
    entry_qiskit_shots(ctx)


def regression_measurement(ctx: Ctx):
    """Props.C18.remap_accepts_measurement_regression on the real code: the counterexample of the repaired defect
    (fixed: ec63c89, QuantumCircuit(max_index + 1) without cbit_count) must be accepted with its classical register."""
    items = [(0, 1), (1, 0)]
    gates = [{"name": "H", "t": [0], "c": [], "cl": [], "params": [], "pauli": [], "um": []},
             {"name": "Measurement", "t": [0], "c": [], "cl": [0], "params": [], "pauli": [], "um": []}]
    real, out = real_remap(items, 2, 1, gates)
    model = ctx.driver([f"c18remap {enc_map(items)} | 2 1 | " + ";".join(enc_gate_spec(g) for g in gates)], entry=ENTRY)[0]
    ctx.traces += 1
    ctx.case(("regression", "cbit"), sample={"kind": "regression", "real": real, "model": model})
    if strip_detail(model) != real:
        ctx.disagree("regression:remap-measurement", {"kind": "remap", "mapping": items, "n": 2, "cb": 1, "gates": gates}, real, model)
    if out is None or out.cbit_count != 1:
        ctx.witness("remap-measurement-rejected",
                    "a circuit with a Measurement gate is not remapped with its classical register although the mapping is "
                    "injective and covers every used qubit (regression of the defect repaired by ec63c89)",
                    describe(items, 2, 1, gates), {"real": real})


def replay_float_witness(ctx: Ctx):
    """Props.C18.braket_key_float_witness on the real BraketSamplingResult (and through the mapped result)"""
    import numpy as np
    from braket.tasks import GateModelQuantumTaskResult

    import quri_parts.backend.qubit_mapping as qm
    from quri_parts.braket.backend.sampling import BraketSamplingResult

    res = GateModelQuantumTaskResult(task_metadata=None, additional_metadata=None,
                                     measurements=np.array([[1, 1]], dtype=int), measured_qubits=[0, 63])
    try:
        raw = sorted(dict(BraketSamplingResult(res).counts).items())
        mapped = sorted(dict(qm.QubitMappedSamplingResult(BraketSamplingResult(res), qm.BackendQubitMapping({0: 0, 1: 63})).counts).items())
    except Exception as e:  # noqa: BLE001
        raw = mapped = f"err {type(e).__name__}"
    model = ctx.driver(["c18braket 0:0,1:63 | 0,63~11"], entry=ENTRY)[0]
    ctx.traces += 1
    ctx.case(("witness", "float64"), sample={"kind": "witness", "real_raw": str(raw), "real_unmapped": str(mapped), "model": model})
    real = enc_counts(mapped) if not isinstance(mapped, str) else mapped
    if real != model:
        ctx.disagree("witness:braket-float-key", {"measured_qubits": [0, 63], "row": [1, 1], "mapping": {0: 0, 1: 63}}, real, model)
    if mapped != [(3, 1)]:
        ctx.witness(FINDING_F64,
                    "BraketSamplingResult.counts: np.array([2**q …]) is not an integer array when the largest measured label is "
                    "63, the dot product is float64 and low bits of the key are lost (qubits 0 and 63 measured as 1 → key 2^63)",
                    {"measured_qubits": [0, 63], "measurements": [[1, 1]], "mapping": {0: 0, 1: 63}},
                    {"raw_counts": str(raw), "unmapped": str(mapped), "want_unmapped": "[(3, 1)]"})
    elif model != "3:1":
        ctx.disagree("witness:braket-float-key-fixed", {"measured_qubits": [0, 63]}, real, model)


def leanchecker(ctx: Ctx, mods):
    """thorough tier: replay the property modules' declarations through the external kernel checker"""
    import subprocess

    from common import LEAN

    with ctx.timed("leanchecker"):
        p = subprocess.run(["lake", "env", "leanchecker"] + mods, cwd=LEAN, capture_output=True, text=True, timeout=1500)
        ctx.extra["leanchecker"] = {"rc": p.returncode, "modules": mods}
        if p.returncode != 0:
            ctx.failed_obligations.append({"obligation": "<leanchecker>", "error": (p.stdout + p.stderr)[-400:]})


def gen(ctx: Ctx):
    with ctx.timed("translate"):
        txt, n, problems = c18gen.generate()
        ctx.write_generated("C18Shape", txt)
        ctx.generated_entries += n
        ctx.extra["translator_notes"] = problems


def run(ctx: Ctx, replay=None) -> int:
    ctx.rule = ("cases = (mapping items in dict order, circuit | count dict | integer list | qiskit string counts | braket "
                "measurement rows) ; real quri-parts result vs Lean model result, exact strings (integers, gate lists, "
                "exception stage+class); distinct = distinct canonical inputs with non-empty mapping and payload; plus the "
                "property itself on the real code against oracle/c18_remap.py (counted in evaluations only)")
    ctx.trusted = TRUSTED
    ctx.assumptions = [
        "qubit indices, outcome integers are naturals; counts are Python ints or floats that are multiples of 1/4 below "
        "2^22 (every sum exact; other floats are not exercised)",
        "a Mapping passed as qubit_mapping is a dict, OrderedDict, MappingProxyType or a plain collections.abc.Mapping "
        "(distinct keys, iteration = insertion order); it is not mutated after construction",
        "device shot limits satisfy min_shots <= max_shots",
        "the empty mapping is outside the property's domain (the code raises ValueError from max(()))",
    ]
    if replay:
        load_replay(replay)
    gen(ctx)
    mods = ["QuriVerif.Props.C18", "QuriVerif.Generated.C18Shape"]
    ok = ctx.prove(["QuriVerif.Props.C18", "QuriVerif.Generated.C18Shape", "QuriVerif.Driver.C18"], mods)
    if ok:
        names = [f"QV.Props.C18.{n}" for _, n, _ in ctx.count_obligations(["QuriVerif.Props.C18"])]
        names += [f"QV.Gen.C18.{n}" for _, n, _ in ctx.count_obligations(["QuriVerif.Generated.C18Shape"])]
        ctx.audit(names, mods)
        if not ctx.quick():
            leanchecker(ctx, mods)
    # the driver only needs the model: correspondence runs even when an obligation broke
    drv_ok, out = (True, "") if ok else ctx.lake_build(["QuriVerif.Driver.C18"])
    if not drv_ok:
        raise InfraError("cannot build the C18 driver: " + out[-800:])
    with ctx.timed("correspond"):
        regression_measurement(ctx)
        replay_float_witness(ctx)
        k_remap(ctx)
        k_unmap(ctx)
        k_bits(ctx)
        k_qiskit(ctx)
        k_braket(ctx)
        k_history(ctx)
    with ctx.timed("oracle_validation"):
        broken = bool(ctx.failed_obligations or ctx.disagreements)
        budget = (8 if ctx.quick() else 150) * (6 if broken else 1)
        oracle_search(ctx, budget)
    with ctx.timed("entry_points"):
        entry_points(ctx, 4 if broken else 1)
    return ctx.finish()
