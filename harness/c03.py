"""C03 — Backend circuit conversion preserves circuit semantics."""
from __future__ import annotations

import math
import os
import sys

sys.path.insert(0, os.path.dirname(os.path.dirname(os.path.abspath(__file__))))

import c01  # noqa: E402
import qp  # noqa: E402
from common import Ctx, load_known_findings  # noqa: E402
from translate import c03gen  # noqa: E402

ONE = qp.ONE_Q
FULL = ONE + ["RX", "RY", "RZ", "U1", "U2", "U3", "CNOT", "CZ", "SWAP", "TOFFOLI", "Pauli", "PauliRotation", "UM1", "UM2"]
PARAMETRIC = ["ParametricRX", "ParametricRY", "ParametricRZ", "ParametricPauliRotation"]

# vocabulary each forward adapter is documented / coded to accept (everything else must raise)
BACKENDS = ["qulacs", "qiskit", "cirq", "braket", "tket", "stim", "openqasm"]


def gen(ctx: Ctx):
    with ctx.timed("translate"):
        txt, n, rows = c03gen.gen()
        ctx.write_generated("C03Adapters", txt)
        ctx.generated_entries += n
        return rows


def forward(backend):
    """returns (convert(circuit) -> backend object, unitary(obj, n) -> ndarray)"""
    from oracle import backends as B

    if backend == "qulacs":
        from quri_parts.qulacs.circuit import convert_circuit

        return convert_circuit, B.qulacs_unitary
    if backend == "qiskit":
        from quri_parts.qiskit.circuit import convert_circuit

        return convert_circuit, B.qiskit_unitary
    if backend == "cirq":
        from quri_parts.cirq.circuit import convert_circuit

        return convert_circuit, B.cirq_unitary
    if backend == "braket":
        from quri_parts.braket.circuit import convert_circuit

        return convert_circuit, B.braket_unitary
    if backend == "tket":
        from quri_parts.tket.circuit import convert_circuit

        return convert_circuit, B.tket_unitary
    if backend == "stim":
        from quri_parts.stim.circuit import convert_circuit

        return convert_circuit, B.stim_unitary
    if backend == "openqasm":
        from quri_parts.openqasm.circuit import convert_to_qasm_str

        return convert_to_qasm_str, (lambda txt, n: B.qasm_unitary(txt)[1])
    raise KeyError(backend)


def reverse(backend):
    if backend == "qulacs":
        from quri_parts.qulacs.circuit import circuit_from_qulacs

        return circuit_from_qulacs
    if backend == "qiskit":
        from quri_parts.qiskit.circuit import circuit_from_qiskit

        return circuit_from_qiskit
    if backend == "cirq":
        from quri_parts.cirq.circuit import circuit_from_cirq

        return circuit_from_cirq
    if backend == "braket":
        from quri_parts.braket.circuit import circuit_from_braket

        return circuit_from_braket
    if backend == "tket":
        from quri_parts.tket.circuit import circuit_from_tket

        return circuit_from_tket
    return None


def single_gate_circuit(rng, kind, n=3):
    c = c01.random_real_circuit(rng, n, 1, [kind])
    return c if c.gates else None


def stim_ok(circ):
    from quri_parts.circuit import is_clifford

    return all(is_clifford(g) for g in circ.gates)


def finding_key(backend, direction, kind, detail=""):
    return f"{backend}.{direction}.{kind}{detail}"


def validate(ctx: Ctx, budget_s: float):
    import time

    import numpy as np

    from oracle import dense

    rng = ctx.rng
    t0 = time.time()
    n_eval = 0
    per_kind_done = False
    while True:
        if per_kind_done and time.time() - t0 > budget_s:
            break
        for backend in BACKENDS:
            try:
                conv, uni = forward(backend)
            except ImportError as e:
                ctx.notes.append(f"{backend}: not importable ({e}); skipped")
                continue
            rev = reverse(backend)
            # stim: gates that `is_clifford` accepts within its own tolerance are snapped to the Clifford
            tol = 1e-5 if backend == "stim" else 1e-6
            # 1. every kind alone (first round), then random circuits
            if not per_kind_done:
                work = []
                for kind in FULL:
                    for _ in range(2 if ctx.quick() else 8):
                        c = single_gate_circuit(rng, kind)
                        if c is not None:
                            work.append((kind, c))
            else:
                c = c01.random_real_circuit(rng, rng.randint(1, 4), rng.randint(1, 7), FULL)
                work = [("circuit", c)]
            for kind, circ in work:
                n = circ.qubit_count
                n_eval += 1
                want = dense.circuit_unitary(n, circ.gates)
                try:
                    obj = conv(circ)
                except Exception as e:  # noqa: BLE001 — rejecting is allowed by the property
                    ctx.count(f"{backend}.forward", "rejected:" + type(e).__name__)
                    continue
                if backend == "stim" and not stim_ok(circ):
                    # CliffordApproximation is the documented weaker relation for non-Clifford input
                    ctx.count("stim.forward", "approximated")
                    continue
                try:
                    got = uni(obj, n)
                except Exception as e:  # noqa: BLE001
                    ctx.count(f"{backend}.forward", "backend-cannot-evaluate:" + type(e).__name__)
                    continue
                d = dense.phase_dist(got, want)
                ctx.count(f"{backend}.forward", "ok" if d <= tol else "MISMATCH")
                if d > tol:
                    bad = kind
                    if kind == "circuit":
                        bad = first_bad_kind(backend, conv, uni, circ, tol)
                    ctx.witness(finding_key(backend, "forward", bad), f"{backend}: converted circuit differs from the documented action by {d:.3g} (up to phase)",
                                c01.describe_circ(circ), {"backend": backend})
                    continue
                if rev is None:
                    continue
                try:
                    back = rev(obj)
                except Exception as e:  # noqa: BLE001
                    ctx.count(f"{backend}.reverse", "rejected:" + type(e).__name__)
                    continue
                try:
                    # backends without a register size return the smallest register that holds the used qubits
                    if back.qubit_count > n or any(max(tuple(g.target_indices) + tuple(g.control_indices)) >= n for g in back.gates):
                        d2 = 9.0
                    else:
                        d2 = dense.phase_dist(dense.circuit_unitary(n, back.gates), want)
                except KeyError as e:
                    ctx.count(f"{backend}.reverse", "oracle-unknown-gate")
                    continue
                ctx.count(f"{backend}.reverse", "ok" if d2 <= tol else "MISMATCH")
                if d2 > tol:
                    bad = kind
                    if kind == "circuit":
                        bad = first_bad_kind_rev(backend, conv, rev, circ, tol)
                    if bad is None:
                        bad = "circuit"
                    detail = ""
                    if d2 < 1e-4:
                        detail = ".rounding"
                    ctx.witness(finding_key(backend, "roundtrip", bad, detail),
                                f"{backend}: circuit_from_{backend}(convert_circuit(c)) differs from c by {d2:.3g} (up to phase)",
                                c01.describe_circ(circ), {"backend": backend})
        # parametric / measurement kinds must be rejected by gate-level converters
        if not per_kind_done:
            rejection_checks(ctx)
            n_eval += compiled_entry_point(ctx)
        per_kind_done = True
    ctx.evaluations += n_eval
    ctx.extra["oracle_validation"] = {"evaluations": n_eval}
    ctx.search_budget_s = budget_s


def compiled_entry_point(ctx: Ctx) -> int:
    """quri_parts.qulacs.circuit.compile_circuit: the Qulacs program handed out by `.qulacs_circuit` (and what
    convert_circuit returns for a compiled circuit) is the circuit's program at EVERY request, whatever the caller did
    with a program it was handed earlier"""
    from oracle import backends as B
    from oracle import dense

    try:
        from quri_parts.qulacs.circuit import convert_circuit
        from quri_parts.qulacs.circuit.compiled_circuit import compile_circuit
        import qulacs
    except ImportError as e:
        ctx.notes.append(f"compiled qulacs circuits not importable ({e}); skipped")
        return 0
    rng = ctx.rng
    k = 0
    for _ in range(12 if ctx.quick() else 200):
        n = rng.randint(1, 3)
        circ = c01.random_real_circuit(rng, n, rng.randint(1, 6), [x for x in FULL if x not in ("UM1", "UM2")])
        want = dense.circuit_unitary(n, circ.gates)
        try:
            cc = compile_circuit(circ)
            progs = [("first .qulacs_circuit", cc.qulacs_circuit)]
            # the caller keeps working with the program it was handed
            progs[0][1].add_gate(qulacs.gate.X(rng.randrange(n)))
            progs = [("first .qulacs_circuit", None), ("second .qulacs_circuit", cc.qulacs_circuit), ("convert_circuit(compiled)", convert_circuit(cc))]
            first = cc.qulacs_circuit
        except Exception as e:  # noqa: BLE001
            ctx.count("qulacs.compiled", "raised:" + type(e).__name__)
            continue
        k += 1
        for what, prog in progs:
            if prog is None:
                continue
            d = dense.phase_dist(B.qulacs_unitary(prog, n), want)
            ctx.count("qulacs.compiled", "ok" if d <= 1e-6 else "MISMATCH")
            if d > 1e-6:
                ctx.witness("qulacs.compiled.program", f"compile_circuit: {what} (after the caller appended a gate to a program handed out earlier) "
                            f"differs from the circuit's action by {d:.3g}", c01.describe_circ(circ), {"gate_count": prog.get_gate_count()})
                break
    return k


def first_bad_kind(backend, conv, uni, circ, tol):
    from oracle import dense
    from quri_parts.circuit import QuantumCircuit

    for g in circ.gates:
        c = QuantumCircuit(circ.qubit_count)
        c.add_gate(g)
        try:
            d = dense.phase_dist(uni(conv(c), c.qubit_count), dense.circuit_unitary(c.qubit_count, c.gates))
        except Exception:  # noqa: BLE001
            continue
        if d > tol:
            return g.name if g.name != "UnitaryMatrix" else f"UM{len(g.target_indices)}"
    return "circuit"


def first_bad_kind_rev(backend, conv, rev, circ, tol):
    """the gate whose own round trip deviates most (a sub-tolerance rounding of one gate can add up in a circuit)"""
    from oracle import dense
    from quri_parts.circuit import QuantumCircuit

    best, bd = None, 1e-9
    for g in circ.gates:
        c = QuantumCircuit(circ.qubit_count)
        c.add_gate(g)
        try:
            back = rev(conv(c))
            d = dense.phase_dist(dense.circuit_unitary(c.qubit_count, back.gates), dense.circuit_unitary(c.qubit_count, c.gates))
        except Exception:  # noqa: BLE001
            continue
        if d > bd:
            best, bd = (g.name if g.name != "UnitaryMatrix" else f"UM{len(g.target_indices)}"), d
    return best


def rejection_checks(ctx: Ctx):
    """gates a backend cannot express must be rejected, not mistranslated"""
    from quri_parts.circuit import ParametricQuantumGate, QuantumGate

    convs = {}
    try:
        from quri_parts.qulacs.circuit import convert_gate as cq

        convs["qulacs"] = cq
    except ImportError:
        pass
    for name, mod in (("qiskit", "quri_parts.qiskit.circuit"), ("cirq", "quri_parts.cirq.circuit"), ("braket", "quri_parts.braket.circuit"),
                      ("tket", "quri_parts.tket.circuit")):
        try:
            convs[name] = __import__(mod, fromlist=["convert_gate"]).convert_gate
        except (ImportError, AttributeError):
            pass
    try:
        from quri_parts.openqasm.circuit import convert_gate_to_qasm_line

        convs["openqasm"] = convert_gate_to_qasm_line
    except ImportError:
        pass
    try:
        from quri_parts.stim.circuit import convert_gate as cs

        convs["stim"] = cs
    except ImportError:
        pass
    bad_gates = [
        ParametricQuantumGate(name="ParametricRX", target_indices=(0,)),
        ParametricQuantumGate(name="ParametricPauliRotation", target_indices=(0, 1), pauli_ids=(1, 2)),
    ]
    for b, f in convs.items():
        for g in bad_gates:
            ctx.evaluations += 1
            try:
                r = f(g)
                ctx.witness(finding_key(b, "accepts", g.name), f"{b}.convert_gate accepted {g.name} and returned {str(r)[:60]}", {"gate": g.name})
            except Exception:  # noqa: BLE001
                pass
    from quri_parts.circuit import gates

    for b, f in convs.items():
        if b in ("stim",):
            for g in (gates.T(0), gates.RX(0, 0.3), gates.TOFFOLI(0, 1, 2)):
                ctx.evaluations += 1
                try:
                    f(g)
                    ctx.witness(finding_key(b, "accepts", g.name), f"{b}.convert_gate accepted non-Clifford {g.name}", {"gate": g.name})
                except Exception:  # noqa: BLE001
                    pass


def run(ctx: Ctx, replay=None) -> int:
    ctx.rule = ("translated adapter rows (backend, gate kind ↦ backend constructor, argument order and sign) are checked by the kernel against the assumed "
                "backend semantics; every adapter is then run on single-gate and random circuits and the backend's own simulator / matrix export is "
                "compared with the documented action (dense oracle), forward and round trip; evaluations = converted circuits")
    ctx.trusted = c01.TRUSTED[:4] + [
        "assumed backend gate semantics (Props/C03.lean `sem`): validated each run against the backends' own simulators through the forward adapters",
        "backends' matrix exports (qulacs state updates, qiskit Operator, cirq unitary, braket to_unitary, pytket get_unitary, stim tableau) and their qubit-ordering conventions",
        "OpenQASM: a small interpreter of the emitted text with stdgates.inc semantics (oracle/backends.py)",
        "packages/rust/src/qulacs/mod.rs is tied by a text translator only; the executed converter is the installed 0.27 binary",
    ]
    ctx.assumptions = ["circuits over each adapter's vocabulary; UnitaryMatrix on ≤ 2 qubits"]
    rows = gen(ctx)
    ok = ctx.prove(["QuriVerif.Props.C03"], ["QuriVerif.Props.C03", "QuriVerif.Generated.C03Adapters"])
    if ok:
        names = [f"QV.Props.C03.{n}" for _, n, _ in ctx.count_obligations(["QuriVerif.Props.C03"])]
        ctx.audit(names, ["QuriVerif.Props.C03"])
        for r in rows:
            ctx.case(("row", r["backend"], r["kind"]), sample=r if len(ctx.samples) < 4 else None)
            ctx.traces += 1
    with ctx.timed("oracle_validation"):
        budget = (25 if ctx.quick() else 300) * (1 if ok else 3)
        validate(ctx, budget)
        validate_native_reverse(ctx, 40 if ctx.quick() else 600)
    return ctx.finish()


# ---------------------------------------------------------------------------
# reverse adapters on NATIVE backend circuits (not only on images of the forward adapter)
# ---------------------------------------------------------------------------
NATIVE = {
    "qulacs": ["X", "Y", "Z", "H", "S", "Sdag", "T", "Tdag", "sqrtX", "sqrtXdag", "sqrtY", "sqrtYdag", "RX", "RY", "RZ", "U1", "U2", "U3",
               "CNOT", "CZ", "SWAP", "TOFFOLI", "dense1", "dense2", "cdense", "pauli", "paulirot"],
    "qiskit": ["h", "x", "y", "z", "s", "sdg", "t", "tdg", "sx", "sxdg", "id", "rx", "ry", "rz", "p", "u", "cx", "cz", "swap", "ccx",
               "unitary1", "unitary2", "cy", "ch"],
    "cirq": ["H", "X", "Y", "Z", "S", "T", "Sdag", "SqrtX", "SqrtXdag", "SqrtY", "Tdag", "rx", "ry", "rz", "CNOT", "CZ", "SWAP", "TOFFOLI",
             "ISWAP", "matrix1", "matrix2"],
    "braket": ["h", "x", "y", "z", "s", "si", "t", "ti", "v", "vi", "rx", "ry", "rz", "phaseshift", "u", "u", "cnot", "cz", "swap", "ccnot",
               "unitary1", "unitary2", "iswap", "cy"],
    "tket": ["H", "X", "Y", "Z", "S", "Sdg", "T", "Tdg", "SX", "SXdg", "Rx", "Ry", "Rz", "U1", "U2", "U3", "CX", "CZ", "SWAP", "CCX", "CY"],
}
ARITY2 = {"CNOT", "CZ", "SWAP", "dense2", "cdense", "pauli", "paulirot", "cx", "cz", "swap", "cy", "ch", "unitary2", "ISWAP", "matrix2",
          "cnot", "iswap", "CX", "CY"}
ARITY3 = {"TOFFOLI", "ccx", "ccnot", "CCX"}
NPAR = {"RX": 1, "RY": 1, "RZ": 1, "U1": 1, "U2": 2, "U3": 3, "paulirot": 1, "rx": 1, "ry": 1, "rz": 1, "p": 1, "u": 3, "phaseshift": 1,
        "Rx": 1, "Ry": 1, "Rz": 1}


def native_specs(backend, rng, n, k):
    from oracle import dense

    # exact special values (0, ±π/2, π) matter: reverse adapters pattern-match on them
    ang = lambda: rng.choice([rng.uniform(-7, 7), rng.randint(-8, 8) * math.pi / 4, 0.0, 0.0, math.pi / 2, math.pi])
    specs = []
    for _ in range(k):
        g = rng.choice(NATIVE[backend])
        ar = 3 if g in ARITY3 else 2 if g in ARITY2 else 1
        if ar > n:
            continue
        q = rng.sample(range(n), ar)
        ps = [ang() for _ in range(NPAR.get(g, 0))]
        extra = None
        if g in ("dense1", "cdense", "unitary1", "matrix1"):
            extra = dense.random_unitary(rng, 2)
        elif g in ("dense2", "unitary2", "matrix2"):
            extra = dense.random_unitary(rng, 4)
        elif g in ("pauli", "paulirot"):
            extra = [rng.randint(1, 3), rng.randint(1, 3)]
        specs.append((g, q, ps, extra))
    return specs


def build_native(backend, n, specs):
    if backend == "qulacs":
        import qulacs

        c = qulacs.QuantumCircuit(n)
        for g, q, ps, extra in specs:
            if g in ("RX", "RY", "RZ", "U1", "U2", "U3"):
                getattr(c, f"add_{g}_gate")(q[0], *ps)
            elif g in ("CNOT", "CZ", "SWAP"):
                getattr(c, f"add_{g}_gate")(q[0], q[1])
            elif g == "TOFFOLI":
                c.add_gate(qulacs.gate.TOFFOLI(q[0], q[1], q[2]))
            elif g == "dense1":
                c.add_dense_matrix_gate(q[0], extra)
            elif g == "dense2":
                c.add_dense_matrix_gate([q[0], q[1]], extra)
            elif g == "cdense":
                mg = qulacs.gate.DenseMatrix(q[0], extra)
                mg.add_control_qubit(q[1], 1)
                c.add_gate(mg)
            elif g == "pauli":
                c.add_multi_Pauli_gate([q[0], q[1]], extra)
            elif g == "paulirot":
                c.add_multi_Pauli_rotation_gate([q[0], q[1]], extra, ps[0])
            else:
                getattr(c, f"add_{g}_gate")(q[0])
        return c
    if backend == "qiskit":
        from qiskit import QuantumCircuit

        c = QuantumCircuit(n)
        for g, q, ps, extra in specs:
            if g in ("rx", "ry", "rz", "p", "u"):
                getattr(c, g)(*ps, q[0])
            elif g in ("cx", "cz", "swap", "cy", "ch"):
                getattr(c, g)(q[0], q[1])
            elif g == "ccx":
                c.ccx(q[0], q[1], q[2])
            elif g in ("unitary1", "unitary2"):
                c.unitary(extra, list(q))
            else:
                getattr(c, g)(q[0])
        return c
    if backend == "cirq":
        import cirq

        qs = cirq.LineQubit.range(n)
        one = {"H": cirq.H, "X": cirq.X, "Y": cirq.Y, "Z": cirq.Z, "S": cirq.S, "T": cirq.T, "Sdag": cirq.S**-1, "SqrtX": cirq.X**0.5,
               "SqrtXdag": cirq.X**-0.5, "SqrtY": cirq.Y**0.5, "Tdag": cirq.T**-1}
        ops = []
        for g, q, ps, extra in specs:
            if g in one:
                ops.append(one[g].on(qs[q[0]]))
            elif g in ("rx", "ry", "rz"):
                ops.append(getattr(cirq, g)(ps[0]).on(qs[q[0]]))
            elif g in ("CNOT", "CZ", "SWAP", "ISWAP"):
                ops.append(getattr(cirq, g).on(qs[q[0]], qs[q[1]]))
            elif g == "TOFFOLI":
                ops.append(cirq.TOFFOLI.on(qs[q[0]], qs[q[1]], qs[q[2]]))
            else:
                ops.append(cirq.MatrixGate(extra).on(*[qs[i] for i in q]))
        ops.append(cirq.I.on(qs[n - 1]))  # keep the register size recoverable
        return cirq.Circuit(ops)
    if backend == "braket":
        from braket.circuits import Circuit

        c = Circuit()
        for q0 in range(n):
            c.i(q0)
        for g, q, ps, extra in specs:
            if g in ("rx", "ry", "rz", "phaseshift"):
                getattr(c, g)(q[0], ps[0])
            elif g == "u":
                c.u(q[0], *ps)
            elif g in ("cnot", "cz", "swap", "iswap", "cy"):
                getattr(c, g)(q[0], q[1])
            elif g == "ccnot":
                c.ccnot(q[0], q[1], q[2])
            elif g in ("unitary1", "unitary2"):
                c.unitary(matrix=extra, targets=list(q))
            else:
                getattr(c, g)(q[0])
        return c
    if backend == "tket":
        from pytket import Circuit, OpType

        c = Circuit(n)
        for g, q, ps, extra in specs:
            if ps:
                c.add_gate(getattr(OpType, g), [x / math.pi for x in ps], [q[0]])
            else:
                c.add_gate(getattr(OpType, g), list(q))
        return c
    raise KeyError(backend)


def validate_native_reverse(ctx: Ctx, rounds: int):
    from oracle import backends as B
    from oracle import dense

    uni = {"qulacs": B.qulacs_unitary, "qiskit": B.qiskit_unitary, "cirq": B.cirq_unitary, "braket": B.braket_unitary, "tket": B.tket_unitary}
    rng = ctx.rng

    def dist(backend, rev, n, specs):
        """None = rejected / not evaluable"""
        circ = build_native(backend, n, specs)
        want = uni[backend](circ, n)
        try:
            back = rev(circ)
        except Exception as e:  # noqa: BLE001
            return ("rejected", type(e).__name__)
        if back.qubit_count > n:
            return ("ok", 9.0)
        return ("ok", dense.phase_dist(dense.circuit_unitary(n, back.gates), want))

    for backend in uni:
        try:
            rev = reverse(backend)
        except ImportError:
            continue
        for r in range(rounds):
            n = rng.randint(1, 3)
            specs = native_specs(backend, rng, n, 1 if r % 2 == 0 else rng.randint(2, 5))
            if not specs:
                continue
            try:
                res = dist(backend, rev, n, specs)
            except Exception as e:  # noqa: BLE001 – a quirk of the backend or of this generator, not of quri-parts
                ctx.count(f"{backend}.native", "generator-skip:" + type(e).__name__)
                continue
            ctx.evaluations += 1
            if res[0] == "rejected":
                ctx.count(f"{backend}.native", "rejected:" + res[1])
                continue
            d = res[1]
            ctx.count(f"{backend}.native", "ok" if d <= 1e-6 else "MISMATCH")
            if d > 1e-6:
                bad, bd = None, d
                for sp in specs:  # attribute to a single native gate
                    try:
                        r1 = dist(backend, rev, n, [sp])
                    except Exception:  # noqa: BLE001
                        continue
                    if r1[0] == "ok" and r1[1] > 1e-6:
                        bad, bd = sp[0], r1[1]
                        break
                detail = ".rounding" if bd < 1e-4 else ""
                ctx.witness(finding_key(backend, "native-reverse", bad or "circuit", detail),
                            f"circuit_from_{backend} of a native circuit differs from the backend's own unitary by {d:.3g}",
                            {"backend": backend, "n": n, "native_gates": [(g, q, [repr(x) for x in ps]) for g, q, ps, _ in specs]})
