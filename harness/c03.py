"""C03 — Backend circuit conversion preserves circuit semantics."""
from __future__ import annotations

import cmath
import io
import math
import os
import sys

sys.path.insert(0, os.path.dirname(os.path.dirname(os.path.abspath(__file__))))

import c01  # noqa: E402
import qp  # noqa: E402
from common import Ctx, load_known_findings  # noqa: E402
from translate import c03gen  # noqa: E402

ONE = qp.ONE_Q
ROTS = ["RX", "RY", "RZ", "U1", "U2", "U3"]
MQ = ["CNOT", "CZ", "SWAP", "TOFFOLI"]
FULL = ONE + ROTS + MQ + ["Pauli", "PauliRotation", "UM1", "UM2"]
WIDE = ["UM3", "UM4"]  # wide UnitaryMatrix gates: per-kind round only (4-qubit register)
PARAMETRIC = ["ParametricRX", "ParametricRY", "ParametricRZ", "ParametricPauliRotation"]
PAULIS = {"Pauli", "PauliRotation"}

# vocabulary each forward adapter is documented / coded to accept (everything else must raise)
BACKENDS = ["qulacs", "qiskit", "cirq", "braket", "tket", "stim", "openqasm"]

# Kinds each adapter's tables cover AND the installed backend version accepts (reference tree).  A circuit over these kinds
# is "over the adapter's supported gate vocabulary": the adapter has to yield a program for it, raising is a failure.
# (tket SqrtY/SqrtYdag/UnitaryMatrix raise TypeError with the installed pytket: counted as rejected, see DESIGN.)
FWD_SUPPORTED = {
    "qulacs": set(FULL) | set(WIDE),
    "qiskit": set(FULL) | set(WIDE),
    "cirq": (set(FULL) | set(WIDE)) - PAULIS,
    "braket": set(FULL) | set(WIDE),
    "tket": (set(ONE) - {"SqrtY", "SqrtYdag"}) | set(ROTS) | set(MQ),
    "stim": (set(ONE) - {"T", "Tdag"}) | {"CNOT", "CZ", "SWAP", "Pauli"},  # + rotations at Clifford angles (not pinned)
    "openqasm": (set(ONE) - {"SqrtXdag", "SqrtY", "SqrtYdag"}) | set(ROTS) | set(MQ),
}
# kinds whose forward image the reverse adapter takes back (reference tree)
REV_SUPPORTED = {
    "qulacs": set(FULL) - {"UM2"},  # multi-qubit DenseMatrix gates are refused by circuit_from_qulacs (observation, see judge())
    "qiskit": set(FULL) | set(WIDE),
    "cirq": (set(FULL) | set(WIDE)) - PAULIS,
    "braket": set(FULL) | set(WIDE),
    "tket": (set(ONE) - {"SqrtY", "SqrtYdag"}) | set(ROTS) | set(MQ),
}

# A circuit over the pinned supported vocabulary that the adapter refuses (raises) is reported as a witness (`*-rejects.*` keys): the
# property asks for a program for every circuit over the supported vocabulary; only gates the backend cannot express may be rejected.
# Never fires on the reference tree.  Set to False to count such refusals only.
REJECTING_SUPPORTED_IS_A_FAILURE = True


def note_once(ctx, text):
    if text not in ctx.notes:
        ctx.notes.append(text)


_ECR = None


def ecr_matrix():
    """ECR as documented in quri_parts.qiskit.circuit.gates (local bit 0 = first target)"""
    global _ECR
    if _ECR is None:
        import numpy as np

        _ECR = np.array([[0, 1, 0, 1j], [1, 0, -1j, 0], [0, 1j, 0, 1], [-1j, 0, 1, 0]], dtype=complex) / math.sqrt(2)
    return _ECR


def circ_unitary(n, gs):
    """dense oracle + the qiskit-only ECR gate that circuit_from_qiskit may return"""
    import numpy as np

    from oracle import dense

    u = np.eye(1 << n, dtype=complex)
    for g in gs:
        if g.name == "Measurement":
            continue
        if g.name in ("Pauli", "PauliRotation") and (len(g.pauli_ids) != len(g.target_indices) or any(p not in (0, 1, 2, 3) for p in g.pauli_ids)):
            raise ValueError(f"{g.name} with targets {tuple(g.target_indices)} and pauli_ids {tuple(g.pauli_ids)}")
        if g.name == "ECR":
            u = dense.embed(n, list(g.target_indices), ecr_matrix()) @ u
        else:
            u = dense.gate_unitary(n, g) @ u
    return u


def kind_of(g):
    return g.name if g.name != "UnitaryMatrix" else f"UM{len(g.target_indices)}"


def clifford_angle(rng):
    return rng.randint(-6, 6) * math.pi / 2 + rng.choice([0.0, 0.0, 0.0, 1e-12, -1e-12])


STRUCTURES = ["diagonal", "oracle", "permutation", "monomial", "controlled-U", "tensor-product", "real-orthogonal", "identity"]


def structured_unitary(rng, m, label=None):
    """(label, 2^m x 2^m unitary) with EXACT structure (exact zeros / ones): the shapes adapters may special-case.  Local bit i of the
    matrix index belongs to target_indices[i]; every shape is, in general, not invariant under reversing the targets."""
    import numpy as np

    from oracle import dense

    dim = 1 << m
    label = label or rng.choice(STRUCTURES)
    if label == "diagonal":  # generic phases
        return label, np.diag(np.exp(1j * np.array([rng.uniform(-3.1, 3.1) for _ in range(dim)])))
    if label == "oracle":  # phase oracle marking one basis state whose bit string is not a palindrome (when there is one)
        cand = [b for b in range(dim) if b != int(format(b, f"0{m}b")[::-1], 2)] or list(range(dim))
        d = np.ones(dim, dtype=complex)
        d[rng.choice(cand)] = -1
        return label, np.diag(d)
    if label in ("permutation", "monomial"):
        p = list(range(dim))
        rng.shuffle(p)
        mat = np.zeros((dim, dim), dtype=complex)
        for i, j in enumerate(p):
            mat[j, i] = 1 if label == "permutation" else np.exp(1j * rng.uniform(-3.1, 3.1))
        return label, mat
    if label == "controlled-U":  # identity unless local bit `cb` is 1; a random unitary on the other bits then
        if m == 1:
            return label, np.diag([1, np.exp(1j * rng.uniform(-3.1, 3.1))])
        cb = rng.randrange(m)
        u = dense.random_unitary(rng, dim >> 1)
        mat = np.zeros((dim, dim), dtype=complex)
        rest = [b for b in range(m) if b != cb]

        def sub(i):
            return sum(((i >> b) & 1) << k for k, b in enumerate(rest))

        for i in range(dim):
            for j in range(dim):
                if (i >> cb) & 1 != (j >> cb) & 1:
                    continue
                mat[i, j] = u[sub(i), sub(j)] if (i >> cb) & 1 else (1 if i == j else 0)
        return label, mat
    if label == "tensor-product":  # distinct factors, local bit 0 = rightmost factor
        mat = np.eye(1, dtype=complex)
        for _ in range(m):
            mat = np.kron(dense.random_unitary(rng, 2), mat)
        return label, mat
    if label == "real-orthogonal":
        z = np.array([[rng.gauss(0, 1) for _ in range(dim)] for _ in range(dim)])
        q, r = np.linalg.qr(z)
        return label, (q * np.sign(np.diag(r))).astype(complex)
    return "identity", np.eye(dim, dtype=complex)


def add_kind(rng, c, kind, clifford=False):
    """append one gate of `kind` to c (nothing when the register is too small)"""
    from quri_parts.circuit import gates

    from oracle import dense

    n = c.qubit_count
    if kind in ("UM1", "UM2", "UM3", "UM4") and (kind in WIDE or rng.random() < 0.5):
        m = int(kind[2])
        if n >= m:
            mat = structured_unitary(rng, m)[1] if rng.random() < 0.6 else dense.random_unitary(rng, 1 << m)
            ts = rng.sample(range(n), m)
            if rng.random() < 0.25:
                ts = sorted(ts, reverse=True)
            c.add_gate(gates.UnitaryMatrix(ts, mat.tolist()))
        return
    if clifford and kind in ROTS + ["PauliRotation"]:
        a = [clifford_angle(rng) for _ in range(3)]
        q = rng.randrange(n)
        if kind == "PauliRotation":
            m = rng.randint(1, min(n, 3))
            c.add_gate(gates.PauliRotation(rng.sample(range(n), m), [rng.randint(1, 3) for _ in range(m)], a[0]))
        elif kind == "U2":
            c.add_gate(gates.U2(q, a[0], a[1]))
        elif kind == "U3":
            c.add_gate(gates.U3(q, a[0], a[1], a[2]))
        else:
            c.add_gate(getattr(gates, kind)(q, a[0]))
        return
    for g in c01.random_real_circuit(rng, n, 1, [kind]).gates:
        c.add_gate(g)


def gen_circuit(rng, n, length, kinds, clifford=False):
    from quri_parts.circuit import QuantumCircuit

    c = QuantumCircuit(n)
    for _ in range(length):
        add_kind(rng, c, rng.choice(kinds), clifford)
    return c


def pauli_set_transpiler():
    from quri_parts.circuit.transpile import PauliDecomposeTranspiler, PauliRotationDecomposeTranspiler, SequentialTranspiler

    return SequentialTranspiler([PauliDecomposeTranspiler(), PauliRotationDecomposeTranspiler()])


def call_variants(ctx, backend, conv):
    """the documented ways to call the adapter: [(label, call(circuit) -> backend object, kinds gained, kinds lost)]"""
    out = [("default", conv, set(), set())]
    try:
        if backend == "qiskit":
            out += [("transpiler=None positional", lambda c: conv(c, None), set(), set()),
                    ("transpiler=<Pauli decomposition>", lambda c: conv(c, transpiler=pauli_set_transpiler()), set(), set())]
        elif backend == "braket":
            from quri_parts.braket.circuit import BraketSetTranspiler

            out += [("transpiler=None positional", lambda c: conv(c, None), set(), PAULIS),
                    ("transpiler=None keyword", lambda c: conv(c, transpiler=None), set(), PAULIS),
                    ("transpiler=BraketSetTranspiler()", lambda c: conv(c, BraketSetTranspiler()), set(), set())]
        elif backend == "cirq":
            from quri_parts.cirq.circuit import CirqSetTranspiler

            out += [("convert_circuit(CirqSetTranspiler()(c))", lambda c: conv(CirqSetTranspiler()(c)), PAULIS, set())]
        elif backend == "openqasm":
            from quri_parts.openqasm.circuit import OpenQASMTranspiler, convert_to_qasm

            def stream(c):
                s = io.StringIO()
                convert_to_qasm(c, s)
                return s.getvalue()

            out += [("convert_to_qasm_str(OpenQASMTranspiler()(c))", lambda c: conv(OpenQASMTranspiler()(c)), PAULIS, set()),
                    ("convert_to_qasm(c, StringIO)", stream, set(), set())]
    except (ImportError, AttributeError) as e:
        ctx.disagree("C03 entry point", {"backend": backend}, f"{type(e).__name__}: {e}", "documented entry point exists")
    return out


def circuit_forms(rng, circ):
    """the same gate list as a mutable / frozen / bound-parametric circuit object"""
    r = rng.random()
    if r < 0.6:
        return "QuantumCircuit", circ
    if r < 0.8:
        return "ImmutableQuantumCircuit", circ.freeze()
    from quri_parts.circuit import ParametricQuantumCircuit

    pc = ParametricQuantumCircuit(circ.qubit_count)
    pc.extend(circ)
    return "ImmutableBoundParametricQuantumCircuit", pc.bind_parameters([])


def gen(ctx: Ctx):
    with ctx.timed("translate"):
        txt, n, rows = c03gen.gen()
        ctx.write_generated("C03Adapters", txt)
        ctx.generated_entries += n
        return rows


def forward(backend):
    """returns (convert(circuit) -> backend object, unitary(obj, n) -> ndarray)"""
    from oracle import backends as B

    if backend == "qulacs":
        from quri_parts.qulacs.circuit import convert_circuit

        return convert_circuit, B.qulacs_unitary
    if backend == "qiskit":
        from quri_parts.qiskit.circuit import convert_circuit

        return convert_circuit, B.qiskit_unitary
    if backend == "cirq":
        from quri_parts.cirq.circuit import convert_circuit

        return convert_circuit, B.cirq_unitary
    if backend == "braket":
        from quri_parts.braket.circuit import convert_circuit

        return convert_circuit, B.braket_unitary
    if backend == "tket":
        from quri_parts.tket.circuit import convert_circuit

        return convert_circuit, B.tket_unitary
    if backend == "stim":
        from quri_parts.stim.circuit import convert_circuit

        return convert_circuit, B.stim_unitary
    if backend == "openqasm":
        from quri_parts.openqasm.circuit import convert_to_qasm_str

        return convert_to_qasm_str, (lambda txt, n: B.qasm_unitary(txt)[1])
    raise KeyError(backend)


def reverse(backend):
    if backend == "qulacs":
        from quri_parts.qulacs.circuit import circuit_from_qulacs

        return circuit_from_qulacs
    if backend == "qiskit":
        from quri_parts.qiskit.circuit import circuit_from_qiskit

        return circuit_from_qiskit
    if backend == "cirq":
        from quri_parts.cirq.circuit import circuit_from_cirq

        return circuit_from_cirq
    if backend == "braket":
        from quri_parts.braket.circuit import circuit_from_braket

        return circuit_from_braket
    if backend == "tket":
        from quri_parts.tket.circuit import circuit_from_tket

        return circuit_from_tket
    return None


def single_gate_circuit(rng, kind, n=3):
    c = gen_circuit(rng, 4 if kind in WIDE else n, 1, [kind])
    return c if c.gates else None


def stim_ok(circ):
    from quri_parts.circuit import is_clifford

    return all(is_clifford(g) for g in circ.gates)


def finding_key(backend, direction, kind, detail=""):
    return f"{backend}.{direction}.{kind}{detail}"


_QASM3 = []


def qasm3_loads():
    """qiskit's OpenQASM 3 importer: a second, independent reader of the emitted text (None when not installed)"""
    if not _QASM3:
        try:
            from qiskit import qasm3

            qasm3.loads('OPENQASM 3;\ninclude "stdgates.inc";\nqubit[1] q;\nh q[0];')
            _QASM3.append(qasm3.loads)
        except Exception:  # noqa: BLE001
            _QASM3.append(None)
    return _QASM3[0]


def qasm_second_reading(ctx, txt, n, want, tol):
    """(problem or None): the emitted text must be a valid OpenQASM 3 program over stdgates.inc that acts as `want` on
    `qubit[n] q` and ends with the documented measurement of every qubit into the bit of the same index"""
    from oracle import dense

    loads = qasm3_loads()
    if loads is None:
        return None
    try:
        qc = loads(txt)
    except Exception as e:  # noqa: BLE001
        return f"qiskit.qasm3.loads rejects the emitted text: {type(e).__name__}: {str(e)[:120]}"
    ctx.count("openqasm.second-reader", "loaded")
    if qc.num_qubits != n:
        return f"the program declares {qc.num_qubits} qubits for a {n}-qubit circuit"
    meas = sorted((qc.find_bit(i.qubits[0]).index, qc.find_bit(i.clbits[0]).index) for i in qc.data if i.operation.name == "measure")
    if meas != [(i, i) for i in range(n)]:
        return f"the final measurement is {meas}, documented: every q[i] into c[i]"
    from qiskit.quantum_info import Operator

    try:
        u = Operator(qc.remove_final_measurements(inplace=False)).data
    except Exception as e:  # noqa: BLE001
        return f"the program read by qiskit.qasm3 has no unitary: {type(e).__name__}"
    d = dense.phase_dist(u, want)
    if d > tol:
        return f"read by qiskit.qasm3 the program differs from the documented action by {d:.3g}"
    return None


def judge(ctx: Ctx, backend, kind, circ, form, arg, label, call, uni, rev, tol, supported):
    """one conversion, judged: forward action, supported vocabulary not rejected, round trip"""
    from oracle import dense

    n = circ.qubit_count
    want = dense.circuit_unitary(n, circ.gates)
    kinds = [kind_of(g) for g in circ.gates]
    inp = dict(c01.describe_circ(circ), call=label, circuit_type=form)
    try:
        obj = call(arg)
    except Exception as e:  # noqa: BLE001 — rejecting is allowed by the property for gates the backend cannot express
        ctx.count(f"{backend}.forward", "rejected:" + type(e).__name__)
        if REJECTING_SUPPORTED_IS_A_FAILURE and all(k in supported for k in kinds):
            bad = kinds[0] if len(set(kinds)) == 1 else rejected_kind(call, circ, supported)
            ctx.witness(finding_key(backend, "forward-rejects", bad),
                        f"{backend}: the adapter raises {type(e).__name__} ({str(e)[:80]}) for a circuit over its supported gate vocabulary", inp,
                        {"backend": backend})
        return
    if backend == "stim" and not stim_ok(circ):
        # CliffordApproximation is the documented weaker relation for non-Clifford input
        ctx.count("stim.forward", "approximated")
        return
    try:
        got = uni(obj, n)
    except Exception as e:  # noqa: BLE001
        ctx.count(f"{backend}.forward", "backend-cannot-evaluate:" + type(e).__name__)
        if backend == "openqasm":
            ctx.witness("openqasm.forward.invalid-program", f"the emitted text is not a program over stdgates.inc on the declared register "
                        f"({type(e).__name__}: {str(e)[:100]})", inp, {"text": str(obj)[:600]})
        return
    d = dense.phase_dist(got, want)
    ctx.count(f"{backend}.forward", "ok" if d <= tol else "MISMATCH")
    if d > tol:
        bad = kind
        if kind == "circuit":
            bad = first_bad_kind(backend, call, uni, circ, tol)
        ctx.witness(finding_key(backend, "forward", bad), f"{backend}: converted circuit differs from the documented action by {d:.3g} (up to phase)",
                    inp, {"backend": backend})
        return
    if backend == "openqasm":
        why = qasm_second_reading(ctx, obj, n, want, tol)
        if why:
            ctx.witness("openqasm.forward.invalid-program", why, inp, {"text": str(obj)[:600]})
        return
    if rev is None:
        return
    rsup = REV_SUPPORTED.get(backend, set())
    # Pauli gates reach the reverse adapter decomposed (braket, set transpilers) or as a backend-native box it reads as a matrix
    rkinds = [k for k in kinds if k not in PAULIS]
    try:
        back = rev(obj)
    except Exception as e:  # noqa: BLE001
        ctx.count(f"{backend}.reverse", "rejected:" + type(e).__name__)
        if backend == "qulacs" and any(k in ("UM2", "UM3", "UM4") for k in kinds):
            # observation, not a finding (rejecting is allowed): circuit_from_qulacs raises for every multi-qubit DenseMatrix gate
            ctx.count("qulacs.reverse", "observed:multi-qubit-dense-rejected")
            note_once(ctx, "observation: circuit_from_qulacs raises ValueError (np.allclose of the 2^k x 2^k matrix against the 2x2 X matrix cannot "
                      "broadcast) for every DenseMatrix gate on >= 2 targets, so the round trip of a multi-qubit UnitaryMatrix is rejected; only a "
                      "returned circuit with a different action would be a witness")
        elif REJECTING_SUPPORTED_IS_A_FAILURE and all(k in rsup for k in rkinds):
            bad = rkinds[0] if len(set(rkinds)) == 1 else "circuit"
            ctx.witness(finding_key(backend, "roundtrip-rejects", bad), f"circuit_from_{backend} raises {type(e).__name__} ({str(e)[:80]}) on the "
                        "image of a circuit over the supported vocabulary", inp, {"backend": backend})
        return
    try:
        # backends without a register size return the smallest register that holds the used qubits
        if back.qubit_count > n or any(max(tuple(g.target_indices) + tuple(g.control_indices)) >= n for g in back.gates):
            d2 = 9.0
        else:
            d2 = dense.phase_dist(circ_unitary(n, back.gates), want)
    except Exception as e:  # noqa: BLE001 — an unknown gate name or a gate with the wrong number of parameters / matrix shape
        ctx.count(f"{backend}.reverse", "malformed:" + type(e).__name__)
        d2 = 8.0
    ctx.count(f"{backend}.reverse", "ok" if d2 <= tol else "MISMATCH")
    if d2 > tol:
        bads = [kind] if kind != "circuit" else bad_kinds_rev(call, rev, circ, tol)
        if "." in kind and kind.startswith("UM"):
            # structured matrix: listed round-trip findings are keyed by width (UM2, UM3, ...) and are about the target order, so a
            # matrix that is invariant under reversing its targets keeps its own (fresh) key
            import numpy as np

            from oracle import backends as B

            mat = np.array(circ.gates[0].unitary_matrix, dtype=complex)
            symmetric = np.allclose(B.big_to_little(mat, len(circ.gates[0].target_indices)), mat, atol=1e-12)
            bads = [kind if symmetric and d2 >= 1e-4 else kind.split(".")[0]]
        for bad in bads:
            detail = ".rounding" if d2 < 1e-4 else ""
            ctx.witness(finding_key(backend, "roundtrip", bad, detail),
                        f"{backend}: circuit_from_{backend}(convert_circuit(c)) differs from c by {d2:.3g} (up to phase)", inp, {"backend": backend})


def rejected_kind(call, circ, supported):
    """the first supported kind of the circuit that the adapter rejects on its own"""
    from quri_parts.circuit import QuantumCircuit

    for g in circ.gates:
        c = QuantumCircuit(circ.qubit_count)
        c.add_gate(g)
        try:
            call(c)
        except Exception:  # noqa: BLE001
            return kind_of(g)
    return "circuit"


def validate(ctx: Ctx, budget_s: float):
    import time

    rng = ctx.rng
    t0 = time.time()
    n0 = ctx.evaluations
    setups = []
    for backend in BACKENDS:
        try:
            conv, uni = forward(backend)
        except ImportError as e:
            ctx.notes.append(f"{backend}: not importable ({e}); skipped")
            continue
        # stim: gates that `is_clifford` accepts within its own tolerance are snapped to the Clifford
        setups.append((backend, uni, reverse(backend), 1e-5 if backend == "stim" else 1e-6, call_variants(ctx, backend, conv)))
    # 1. every kind alone through every documented call form
    for backend, uni, rev, tol, variants in setups:
        for kind in FULL + WIDE:
            for label, call, plus, minus in variants:
                for _ in range(1 if ctx.quick() and label != "default" else 2 if ctx.quick() else 6):
                    c = single_gate_circuit(rng, kind)
                    if c is None:
                        continue
                    ctx.evaluations += 1
                    # UM4 is there for the adapters' width limits; its round trip adds nothing to UM3's
                    judge(ctx, backend, kind, c, "QuantumCircuit", c, label, call, uni, None if kind == "UM4" else rev, tol,
                          (FWD_SUPPORTED[backend] | plus) - minus)
        # structured UnitaryMatrix gates (the shapes a converter may special-case; random dense unitaries never have them) on 1..4 targets,
        # targets descending / non-contiguous / shuffled in a 5-qubit register
        from quri_parts.circuit import QuantumCircuit, gates

        for m in (1, 2, 3, 4):
            for slabel in STRUCTURES:
                for order in ("descending", "shuffled") if ctx.quick() else ("descending", "shuffled", "ascending", "shuffled", "shuffled"):
                    ts = rng.sample(range(5), m)
                    ts = sorted(ts, reverse=True) if order == "descending" else sorted(ts) if order == "ascending" else ts
                    c = QuantumCircuit(5)
                    c.add_gate(gates.UnitaryMatrix(ts, structured_unitary(rng, m, slabel)[1].tolist()))
                    ctx.evaluations += 1
                    ctx.count("C03.structured-UM", f"UM{m}.{slabel}")
                    judge(ctx, backend, f"UM{m}.{slabel}", c, "QuantumCircuit", c, "default", variants[0][1], uni, None if m == 4 else rev, tol,
                          FWD_SUPPORTED[backend])
        if backend == "stim":  # rotations at Clifford angles are part of the stim vocabulary
            for kind in ROTS + ["PauliRotation"]:
                for _ in range(ctx.n(3, 12)):
                    c = gen_circuit(rng, 3, 1, [kind], clifford=True)
                    ctx.evaluations += 1
                    judge(ctx, backend, kind, c, "QuantumCircuit", c, "default", variants[0][1], uni, rev, tol, FWD_SUPPORTED[backend])
    # parametric / measurement / unknown kinds must be rejected by gate-level converters
    rejection_checks(ctx)
    for part in (qulacs_gate_level, compiled_entry_point, parametric_entry_points, measurement_checks, placement_checks, length_checks):
        try:
            ctx.evaluations += part(ctx) or 0
        except (ImportError, AttributeError) as e:
            ctx.disagree("C03 entry point", {"check": part.__name__}, f"{type(e).__name__}: {e}", "documented entry point exists")
    # 2. random circuits: over the adapter's own vocabulary (so that whole circuits get through) or over everything
    while time.time() - t0 < budget_s:
        for backend, uni, rev, tol, variants in setups:
            label, call, plus, minus = rng.choice(variants) if rng.random() < 0.5 else variants[0]
            sup = (FWD_SUPPORTED[backend] | plus) - minus
            r = rng.random()
            if backend == "stim" and r < 0.7:
                kinds = sorted(sup - set(WIDE)) + ROTS + ["PauliRotation"]
                c = gen_circuit(rng, rng.randint(1, 4), rng.randint(1, 8), kinds, clifford=True)
            else:
                kinds = sorted(sup - {"UM4"}) if r < 0.7 else FULL + ["UM3"]
                c = gen_circuit(rng, rng.randint(1, 4), rng.randint(1, 7), kinds)
            if not c.gates:  # cirq / braket cannot even name the register of an empty circuit
                continue
            form, arg = circuit_forms(rng, c)
            ctx.count("C03.circuit-type", form)
            ctx.count(f"{backend}.call", label)
            ctx.evaluations += 1
            judge(ctx, backend, "circuit", c, form, arg, label, call, uni, rev, tol, sup)
    ctx.extra["oracle_validation"] = {"evaluations": ctx.evaluations - n0}
    ctx.search_budget_s = budget_s


def compiled_entry_point(ctx: Ctx) -> int:
    """quri_parts.qulacs.circuit.compile_circuit: the Qulacs program handed out by `.qulacs_circuit` (and what
    convert_circuit returns for a compiled circuit) is the circuit's program at EVERY request, whatever the caller did
    with a program it was handed earlier or with the source circuit"""
    from oracle import backends as B
    from oracle import dense

    from quri_parts.qulacs.circuit import convert_circuit
    from quri_parts.qulacs.circuit.compiled_circuit import compile_circuit
    import qulacs

    rng = ctx.rng
    k = 0
    for it in range(12 if ctx.quick() else 200):
        n = rng.randint(1, 3)
        circ = gen_circuit(rng, n, rng.randint(1, 6), FULL)
        want = dense.circuit_unitary(n, circ.gates)
        inp = c01.describe_circ(circ)
        src_form = "ImmutableQuantumCircuit" if it % 3 == 2 else "QuantumCircuit"
        try:
            cc = compile_circuit(circ.freeze() if it % 3 == 2 else circ)
            progs = [("first .qulacs_circuit", cc.qulacs_circuit)]
            # the caller keeps working with the program it was handed, and with the source circuit
            progs[0][1].add_gate(qulacs.gate.X(rng.randrange(n)))
            if it % 3 == 1:
                circ.add_X_gate(rng.randrange(n))
            progs = [("second .qulacs_circuit", cc.qulacs_circuit), ("convert_circuit(compiled)", convert_circuit(cc)),
                     (".freeze().qulacs_circuit", cc.freeze().qulacs_circuit), ("compile_circuit(compiled).qulacs_circuit", compile_circuit(cc).qulacs_circuit)]
            same_gates = tuple(cc.gates) == tuple(compile_circuit(circ).gates) if it % 3 != 1 else True
        except Exception as e:  # noqa: BLE001
            ctx.count("qulacs.compiled", "raised:" + type(e).__name__)
            ctx.witness("qulacs.compiled.raises", f"compile_circuit / .qulacs_circuit raises {type(e).__name__} ({str(e)[:80]}) for a circuit over the "
                        "Qulacs vocabulary", dict(inp, source=src_form))
            continue
        k += 1
        if not same_gates or cc.qubit_count != n:
            ctx.witness("qulacs.compiled.gates", "the compiled circuit does not list the gates / register of the circuit it was compiled from",
                        dict(inp, source=src_form))
        for what, prog in progs:
            d = dense.phase_dist(B.qulacs_unitary(prog, n), want)
            ctx.count("qulacs.compiled", "ok" if d <= 1e-6 else "MISMATCH")
            if d > 1e-6:
                ctx.witness("qulacs.compiled.program", f"compile_circuit: {what} (after the caller appended a gate to a program handed out earlier"
                            + (" and to the source circuit" if it % 3 == 1 else "") + f") differs from the circuit's action by {d:.3g}",
                            dict(inp, source=src_form), {"gate_count": prog.get_gate_count()})
                break
    # the compiled circuit is a QuantumCircuit subclass: when its own add_* methods are usable, the program has to follow
    for _ in range(ctx.n(2, 10)):
        n = rng.randint(1, 3)
        circ = gen_circuit(rng, n, rng.randint(1, 4), ONE + ROTS)
        q = rng.randrange(n)
        try:
            cc = compile_circuit(circ)
            cc.add_X_gate(q)
        except Exception as e:  # noqa: BLE001 — refusing the mutation is fine
            ctx.count("qulacs.compiled.add", "refused:" + type(e).__name__)
            continue
        k += 1
        after = list(cc.gates)
        d = dense.phase_dist(B.qulacs_unitary(cc.qulacs_circuit, n), circ_unitary(n, after))
        ctx.count("qulacs.compiled.add", "ok" if d <= 1e-6 else "STALE")
        if d > 1e-6:
            ctx.witness("qulacs.compiled.stale-after-add", f"compile_circuit(c).add_X_gate({q}) succeeds and the compiled circuit lists {len(after)} gates, but "
                        f".qulacs_circuit still is the program of the {len(circ.gates)} gates compiled at construction (distance {d:.3g})",
                        dict(c01.describe_circ(circ), then=f"add_X_gate({q}) on the compiled circuit"))
    return k


def qulacs_gate_level(ctx: Ctx) -> int:
    """quri_parts.qulacs.circuit.convert_gate (Python, public; convert_circuit itself is the Rust converter)"""
    from oracle import backends as B
    from oracle import dense

    import qulacs
    from quri_parts.qulacs.circuit import convert_gate

    rng = ctx.rng
    k = 0
    for kind in FULL + ["UM3"]:
        for _ in range(ctx.n(2, 10)):
            c = single_gate_circuit(rng, kind)
            n = c.qubit_count
            k += 1
            try:
                qc = qulacs.QuantumCircuit(n)
                qc.add_gate(convert_gate(c.gates[0]))
                d = dense.phase_dist(B.qulacs_unitary(qc, n), dense.circuit_unitary(n, c.gates))
            except Exception as e:  # noqa: BLE001
                ctx.count("qulacs.convert_gate", "raised:" + type(e).__name__)
                ctx.witness(finding_key("qulacs", "convert_gate-rejects", kind), f"qulacs convert_gate raises {type(e).__name__} ({str(e)[:80]})",
                            c01.describe_circ(c))
                continue
            ctx.count("qulacs.convert_gate", "ok" if d <= 1e-6 else "MISMATCH")
            if d > 1e-6:
                ctx.witness(finding_key("qulacs", "convert_gate", kind), f"the Qulacs gate returned by convert_gate differs from the documented action by {d:.3g}",
                            c01.describe_circ(c))
    return k


def parametric_entry_points(ctx: Ctx) -> int:
    """convert_parametric_circuit / compile_parametric_circuit: the Qulacs parametric program with its parameters set to
    param_mapper(values) acts as the circuit bound to `values` (expected action computed from the generated spec, not
    from bind_parameters); programs are handed out fresh"""
    import numpy as np

    from oracle import backends as B
    from oracle import dense

    import qulacs
    from quri_parts.circuit import CONST, LinearMappedParametricQuantumCircuit, ParametricQuantumCircuit, gates
    from quri_parts.qulacs.circuit import compile_parametric_circuit, convert_parametric_circuit

    rng = ctx.rng
    k = 0
    for it in range(ctx.n(30, 500)):
        n = rng.randint(1, 3)
        linear = it % 2 == 1
        if linear:
            circ = LinearMappedParametricQuantumCircuit(n)
            pars = circ.add_parameters(*[f"p{i}" for i in range(rng.randint(1, 3))])
        else:
            circ = ParametricQuantumCircuit(n)
            pars = []
        vals = [rng.choice([rng.uniform(-7, 7), rng.randint(-3, 3) * math.pi / 2, float(rng.randint(-2, 2))]) for _ in pars]
        want = np.eye(1 << n, dtype=complex)
        desc = []
        for _ in range(rng.randint(1, 7)):
            if rng.random() < 0.4:
                fixed = gen_circuit(rng, n, 1, FULL)
                for g in fixed.gates:
                    circ.add_gate(g)
                    want = dense.gate_unitary(n, g) @ want
                    desc.append(c01.describe_circ(fixed)["gates"][0])
                continue
            kind = rng.choice(["RX", "RY", "RZ", "PauliRotation"])
            if kind == "PauliRotation":
                m = rng.randint(1, n)
                ts, ids = rng.sample(range(n), m), [rng.randint(1, 3) for _ in range(m)]
            else:
                ts, ids = [rng.randrange(n)], []
            if linear:
                r = rng.random()
                if r < 0.3:
                    p = rng.choice(pars)
                    fn, angle, fdesc = p, vals[pars.index(p)], f"{p.name}"
                else:
                    sub = rng.sample(range(len(pars)), rng.randint(1, len(pars)))
                    coef = {i: rng.choice([1.0, -1.0, 0.5, 2.0, rng.uniform(-2, 2)]) for i in sub}
                    const = rng.choice([0.0, rng.uniform(-3, 3)]) if r < 0.7 else None
                    fn = {pars[i]: cf for i, cf in coef.items()}
                    if const is not None:
                        fn[CONST] = const
                    angle = sum(cf * vals[i] for i, cf in coef.items()) + (const or 0.0)
                    fdesc = " + ".join(f"{cf!r}*p{i}" for i, cf in coef.items()) + (f" + {const!r}" if const is not None else "")
                args = (ts, ids, fn) if kind == "PauliRotation" else (ts[0], fn)
            else:
                angle = rng.choice([rng.uniform(-7, 7), rng.randint(-4, 4) * math.pi / 2, float(rng.randint(-2, 2))])
                vals.append(angle)
                fdesc = f"theta{len(vals) - 1}"
                args = (ts, ids) if kind == "PauliRotation" else (ts[0],)
            getattr(circ, f"add_Parametric{kind}_gate")(*args)
            want = dense.embed(n, ts, dense.local_matrix(kind, (angle,), tuple(ids), None)) @ want
            desc.append({"name": "Parametric" + kind, "targets": ts, "pauli_ids": ids, "angle": fdesc})
        inp = {"qubit_count": n, "circuit_type": type(circ).__name__, "gates": desc, "values": [repr(v) for v in vals]}
        if circ.parameter_count != len(vals):
            continue
        vform = rng.choice(["list", "tuple", "ndarray"])
        vv = {"list": list(vals), "tuple": tuple(vals), "ndarray": np.array(vals, dtype=float)}[vform]

        def program(entry):
            if entry == "convert_parametric_circuit":
                return convert_parametric_circuit(circ)
            if entry == "convert_parametric_circuit(frozen)":
                return convert_parametric_circuit(circ.freeze())
            cc = compile_parametric_circuit(circ)
            if entry == "convert_parametric_circuit(compiled)":
                return convert_parametric_circuit(cc)
            first = cc.qulacs_circuit  # the caller works with the program it was handed
            first.add_gate(qulacs.gate.X(0))
            for i in range(first.get_parameter_count()):
                first.set_parameter(i, 1.0)
            return cc.qulacs_circuit, cc.param_mapper

        for entry in ("convert_parametric_circuit", "convert_parametric_circuit(frozen)", "compile_parametric_circuit", "convert_parametric_circuit(compiled)"):
            k += 1
            try:
                prog, mapper = program(entry)
                prog = prog.copy()
                mapped = list(mapper(vv))
                if len(mapped) != prog.get_parameter_count():
                    raise IndexError(f"param_mapper returns {len(mapped)} values for {prog.get_parameter_count()} Qulacs parameters")
                for i, v in enumerate(mapped):
                    prog.set_parameter(i, float(v))
                d = dense.phase_dist(B.qulacs_unitary(prog, n), want)
            except Exception as e:  # noqa: BLE001
                ctx.count("qulacs.parametric", "raised:" + type(e).__name__)
                ctx.witness("qulacs.parametric.raises", f"{entry} raises {type(e).__name__} ({str(e)[:100]}) for a parametric circuit over the Qulacs "
                            f"vocabulary (values passed as {vform})", dict(inp, entry=entry))
                continue
            ctx.count("qulacs.parametric", "ok" if d <= 1e-6 else "MISMATCH")
            if d > 1e-6:
                ctx.witness("qulacs.parametric.program", f"{entry}: the Qulacs parametric program with parameters param_mapper(values) differs from the "
                            f"circuit bound to the values by {d:.3g}", dict(inp, entry=entry), {"mapped": [repr(float(x)) for x in mapped]})
    # anything that is not a parametric circuit is refused, not compiled into something
    from quri_parts.circuit import QuantumCircuit

    for f in (compile_parametric_circuit, convert_parametric_circuit):
        k += 1
        try:
            r = f(QuantumCircuit(2))
            ctx.witness("qulacs.parametric.accepts-nonparametric", f"{f.__name__}(QuantumCircuit) returned {str(r)[:60]} instead of raising", {"qubit_count": 2})
        except Exception:  # noqa: BLE001
            pass
    return k


def measurement_checks(ctx: Ctx) -> int:
    """circuits ending in Measurement gates: Qiskit (the adapter with a measurement branch) keeps the unitary part and measures
    qubit t into classical bit c exactly as the gate says; other adapters reject or, if they accept, keep the unitary part"""
    from oracle import dense

    from quri_parts.circuit import QuantumCircuit, gates

    rng = ctx.rng
    k = 0
    common_kinds = sorted((set(ONE) - {"SqrtXdag", "SqrtY", "SqrtYdag"}) | set(ROTS) | set(MQ))
    for it in range(ctx.n(8, 80)):
        n, ncb = rng.randint(1, 3), rng.randint(1, 4)
        base = gen_circuit(rng, n, rng.randint(0, 4), common_kinds)
        c = QuantumCircuit(n, ncb)
        for g in base.gates:
            c.add_gate(g)
        m = rng.randint(1, min(n, ncb))
        qs, cs = rng.sample(range(n), m), rng.sample(range(ncb), m)
        if it % 2:
            c.add_gate(gates.Measurement(qs, cs))
        else:
            for q, cb in zip(qs, cs):
                c.add_gate(gates.Measurement([q], [cb]))
        want = dense.circuit_unitary(n, base.gates)
        inp = dict(c01.describe_circ(base), cbit_count=ncb, measurements=[[q, cb] for q, cb in zip(qs, cs)], one_gate=bool(it % 2))
        for backend in BACKENDS:
            try:
                conv, uni = forward(backend)
            except ImportError:
                continue
            k += 1
            try:
                obj = conv(c)
            except Exception as e:  # noqa: BLE001
                ctx.count(f"{backend}.measurement", "rejected:" + type(e).__name__)
                if backend == "qiskit":
                    ctx.witness("qiskit.forward-rejects.Measurement", f"the Qiskit adapter raises {type(e).__name__} ({str(e)[:80]}) for a circuit with "
                                "final measurements", inp)
                continue
            try:
                d = dense.phase_dist(uni(obj, n), want)
            except Exception as e:  # noqa: BLE001
                ctx.count(f"{backend}.measurement", "backend-cannot-evaluate:" + type(e).__name__)
                continue
            ctx.count(f"{backend}.measurement", "ok" if d <= 1e-6 else "MISMATCH")
            if d > 1e-6:
                ctx.witness(finding_key(backend, "forward", "Measurement"), f"{backend}: the unitary part of a measured circuit differs by {d:.3g}", inp)
                continue
            if backend != "qiskit":
                continue
            got = sorted((obj.find_bit(i.qubits[0]).index, obj.find_bit(i.clbits[0]).index) for i in obj.data if i.operation.name == "measure")
            if got != sorted(zip(qs, cs)) or obj.num_clbits != ncb:
                ctx.witness("qiskit.forward.Measurement", f"the Qiskit circuit measures (qubit, clbit) {got} on {obj.num_clbits} clbits; the gates say "
                            f"{sorted(zip(qs, cs))} on {ncb}", inp)
                continue
            rev = reverse("qiskit")
            try:
                back = rev(obj)
            except Exception as e:  # noqa: BLE001
                # observation, not a finding (rejecting is allowed)
                ctx.count("qiskit.measurement.reverse", "rejected:" + type(e).__name__)
                note_once(ctx, f"observation: circuit_from_qiskit raises {type(e).__name__} for every Qiskit circuit with a measure instruction (its 'measure' "
                          "branch adds a Measurement gate to a QuantumCircuit built without cbit_count); only a returned circuit with other measurements / "
                          "another unitary part would be a witness")
                continue
            bm = sorted(p for g in back.gates if g.name == "Measurement" for p in zip(g.target_indices, g.classical_indices))
            d2 = dense.phase_dist(circ_unitary(n, back.gates), want)
            ctx.count("qiskit.measurement.reverse", "ok" if d2 <= 1e-6 and bm == sorted(zip(qs, cs)) else "MISMATCH")
            if d2 > 1e-6 or bm != sorted(zip(qs, cs)):
                ctx.witness("qiskit.roundtrip.Measurement", f"round trip of a measured circuit: unitary part differs by {d2:.3g}, measurements {bm}", inp)
    return k


def placement_form(backend, obj):
    """gate-by-gate listing (name / parameters, wires) of a backend object; identities are dropped (Braket pads with them)"""
    import re

    if backend == "qulacs":
        out = []
        for i in range(obj.get_gate_count()):
            g = obj.get_gate(i)
            extra = ""
            if g.get_name() in ("DenseMatrix", "X-rotation", "Y-rotation", "Z-rotation", "Pauli-rotation"):
                extra = repr([[round(float(x.real), 9), round(float(x.imag), 9)] for x in g.get_matrix().ravel()[:6]])
            out.append((g.get_name() + extra, tuple(g.get_target_index_list()), tuple(g.get_control_index_list())))
        return out
    if backend == "qiskit":
        def par(p):
            try:
                return repr(float(p))
            except Exception:  # noqa: BLE001
                return type(p).__name__
        return [(i.operation.name + str([par(p) for p in i.operation.params][:4]) + str(getattr(i.operation, "label", "")),
                 tuple(obj.find_bit(q).index for q in i.qubits)) for i in obj.data]
    if backend == "cirq":
        import cirq
        import numpy as np

        return [(type(op.gate).__name__ + repr(np.round(cirq.unitary(op.gate), 9).ravel()[:8].tolist()), tuple(q.x for q in op.qubits))
                for op in obj.all_operations()]
    if backend == "braket":
        return [(ins.operator.name + str([getattr(ins.operator, a) for a in ("angle", "angle_1", "angle_2", "angle_3") if hasattr(ins.operator, a)]),
                 tuple(int(q) for q in ins.target)) for ins in obj.instructions if ins.operator.name != "I"]
    if backend == "tket":
        return [(str(cmd.op), tuple(int(q.index[0]) for q in cmd.qubits)) for cmd in obj]
    if backend == "stim":
        out = []
        for line in str(obj).split("\n"):
            p = line.split()
            if p:
                out.append((p[0], tuple(int(x) for x in p[1:])))
        return out
    if backend == "openqasm":
        out = []
        for line in obj.split("\n"):
            ws = tuple(int(x) for x in re.findall(r"q\[(\d+)\]", line))
            if ws:
                out.append((re.sub(r"q\[\d+\]", "q[]", line), ws))
        return out
    raise KeyError(backend)


# gate / emitted-instruction counts around the block sizes and powers of two a converter may chunk or buffer at
LENGTHS_QUICK = [0, 1, 2, 64, 255, 256, 257, 512]
LENGTHS_THOROUGH = [0, 1, 2, 63, 64, 65, 127, 128, 129, 255, 256, 257, 511, 512, 513, 768, 1023, 1024, 1025, 2048, 4096]


def length_checks(ctx: Ctx) -> int:
    """long circuits on 2-3 qubits with a prescribed number of EMITTED backend instructions (= gate count for one-to-one gates; for Stim the
    decomposed Pauli factors and Clifford-rotation pieces are counted) at the lengths where chunking / buffering could go wrong; judged
    like every other circuit (backend's own unitary against the dense oracle, and the round trip)"""
    rng = ctx.rng
    k = 0
    try:
        from quri_parts.stim.circuit import convert_gate as stim_pieces
    except (ImportError, AttributeError):
        stim_pieces = None
    for backend in BACKENDS:
        try:
            conv, uni = forward(backend)
        except ImportError:
            continue
        rev = reverse(backend)
        tol = 1e-5 if backend == "stim" else 1e-6
        sup = FWD_SUPPORTED[backend]
        # one instruction per gate, and no kind with a listed round-trip finding
        plain = sorted((set(ONE) | {"RX", "RY", "RZ", "CNOT", "CZ", "SWAP"}) & sup)
        if backend == "stim":
            plain = sorted((set(ONE) | {"CNOT", "CZ", "SWAP"}) & sup)
        for total in (LENGTHS_QUICK if ctx.quick() else LENGTHS_THOROUGH):
            for mixed in ((False, True) if backend == "stim" else (False,)):
                n = rng.randint(2, 3)
                if not mixed:
                    c = gen_circuit(rng, n, total, plain)
                    emitted = len(c.gates)
                else:  # Stim: Pauli gates and rotations at Clifford angles emit several instructions; fill up to the exact total
                    from quri_parts.circuit import QuantumCircuit

                    c, emitted = QuantumCircuit(n), 0
                    while emitted < total:
                        one = gen_circuit(rng, n, 1, plain + ["Pauli", "PauliRotation", "RX", "RY", "RZ", "U1", "U2", "U3"], clifford=True)
                        try:
                            cnt = len(stim_pieces(one.gates[0])) if stim_pieces else (1 if kind_of(one.gates[0]) in plain else None)
                        except Exception:  # noqa: BLE001
                            cnt = None
                        if cnt is None or cnt == 0 or emitted + cnt > total:
                            one = gen_circuit(rng, n, 1, plain)
                            cnt = 1
                        c.add_gate(one.gates[0])
                        emitted += cnt
                if emitted != total:
                    continue
                k += 1
                ctx.count(f"{backend}.length", str(total) + ("/mixed" if mixed else ""))
                # the register of an empty circuit cannot be recovered by cirq / braket: forward only
                judge(ctx, backend, f"length-{total}", c, "QuantumCircuit", c, f"default; {total} emitted instructions", conv, uni,
                      rev if total else None, tol, sup)
    return k


def placement_checks(ctx: Ctx) -> int:
    """wide registers (qubit labels around 31/32 and 63/64, up to 70): the dense oracle cannot follow there, but conversion has
    to commute with an order-preserving relabelling of the qubits.  The circuit on labels 0..k-1 is judged by its unitary; the
    same circuit on high labels must convert to the same gate list on the relabelled wires, in both directions."""
    from oracle import dense

    from quri_parts.circuit import QuantumCircuit, QuantumGate

    rng = ctx.rng
    k = 0
    pool = [5, 30, 31, 32, 33, 62, 63, 64, 65, 69]
    for backend in BACKENDS:
        try:
            conv, uni = forward(backend)
        except ImportError:
            continue
        rev = reverse(backend)
        sup = sorted(FWD_SUPPORTED[backend] - set(WIDE) - ({"UM2"} if backend == "qulacs" else set()))
        stim_rots = ROTS + ["PauliRotation"] if backend == "stim" else []
        work = [(3, [kd], sorted(rng.sample([64, 65, 66, 69], 3))) for kd in sup + stim_rots]  # every kind beyond label 63
        work += [(rng.randint(1, 4), None, None) for _ in range(ctx.n(4, 40))]
        for n, kds, lab in work:
            small = gen_circuit(rng, n, 1 if kds else rng.randint(1, 6), kds or sup + stim_rots, clifford=(backend == "stim"))
            if not small.gates:
                continue
            lab = lab or sorted(rng.sample(pool, n))
            m = dict(enumerate(lab))
            big = QuantumCircuit(70)
            for g in small.gates:
                big.add_gate(QuantumGate(name=g.name, target_indices=tuple(m[t] for t in g.target_indices),
                                         control_indices=tuple(m[t] for t in g.control_indices), params=g.params, pauli_ids=g.pauli_ids,
                                         unitary_matrix=g.unitary_matrix))
            inp = dict(c01.describe_circ(small), relabelled_to=lab, register=70)
            k += 1
            try:
                o_small = conv(small)
                d = dense.phase_dist(uni(o_small, n), dense.circuit_unitary(n, small.gates))
                f_small = placement_form(backend, o_small)
            except Exception as e:  # noqa: BLE001 — judged by the main loop
                ctx.count(f"{backend}.placement", "small-skip:" + type(e).__name__)
                continue
            if d > 1e-5:
                continue  # a wrong small circuit is the main loop's business
            try:
                o_big = conv(big)
                f_big = placement_form(backend, o_big)
            except Exception as e:  # noqa: BLE001
                ctx.count(f"{backend}.placement", "rejected:" + type(e).__name__)
                ctx.witness(finding_key(backend, "forward-rejects", "wide-register"), f"{backend}: the adapter converts the circuit on qubits 0..{n - 1} but raises "
                            f"{type(e).__name__} ({str(e)[:80]}) for the same circuit on qubits {lab} of a 70-qubit register", inp)
                continue
            want = [(x[0],) + tuple(tuple(m[w] for w in ws) for ws in x[1:]) for x in f_small]
            ok = f_big == want
            ctx.count(f"{backend}.placement", "ok" if ok else "MISMATCH")
            if not ok:
                diff = next((i for i, (p, q) in enumerate(zip(f_big, want)) if p != q), min(len(f_big), len(want)))
                ctx.witness(finding_key(backend, "forward", "wide-register"), f"{backend}: on qubits {lab} of a 70-qubit register the converted gate list is not "
                            f"the relabelled gate list of the (correct) conversion on qubits 0..{n - 1}; first difference at gate {diff}", inp,
                            {"got": str(f_big[diff:diff + 2])[:300], "expected": str(want[diff:diff + 2])[:300]})
                continue
            if rev is None:
                continue
            try:
                b_small = rev(o_small)
            except Exception:  # noqa: BLE001
                continue
            try:
                b_big = rev(o_big)
            except Exception as e:  # noqa: BLE001
                ctx.witness(finding_key(backend, "roundtrip-rejects", "wide-register"), f"circuit_from_{backend} takes the circuit on qubits 0..{n - 1} but raises "
                            f"{type(e).__name__} ({str(e)[:80]}) on qubits {lab}", inp)
                continue

            def listing(c, mp):
                return [(g.name, tuple(mp[t] for t in g.target_indices), tuple(mp[t] for t in g.control_indices),
                         tuple(round(float(p), 9) for p in g.params), tuple(g.pauli_ids), str(g.unitary_matrix)[:200]) for g in c.gates if g.name != "Identity"]

            try:
                ls, lb = listing(b_small, m), listing(b_big, {i: i for i in range(71)})
            except KeyError:
                ls, lb = None, []
            ctx.count(f"{backend}.placement.reverse", "ok" if ls == lb else "MISMATCH")
            if ls != lb:
                ctx.witness(finding_key(backend, "roundtrip", "wide-register"), f"circuit_from_{backend}: on qubits {lab} the circuit that comes back is not the "
                            f"relabelled circuit that comes back on qubits 0..{n - 1}", inp, {"got": str(lb)[:300], "expected": str(ls)[:300]})
    return k


def first_bad_kind(backend, call, uni, circ, tol):
    from oracle import dense
    from quri_parts.circuit import QuantumCircuit

    for g in circ.gates:
        c = QuantumCircuit(circ.qubit_count)
        c.add_gate(g)
        try:
            d = dense.phase_dist(uni(call(c), c.qubit_count), dense.circuit_unitary(c.qubit_count, c.gates))
        except Exception:  # noqa: BLE001
            continue
        if d > tol:
            return kind_of(g)
    return "circuit"


def bad_kinds_rev(call, rev, circ, tol):
    """every kind whose own round trip deviates; when none does, the one that deviates most (a sub-tolerance rounding of
    one gate can add up in a circuit); 'circuit' when the deviation cannot be attributed"""
    from oracle import dense
    from quri_parts.circuit import QuantumCircuit

    best, bd, bads = None, 1e-9, []
    for g in circ.gates:
        c = QuantumCircuit(circ.qubit_count)
        c.add_gate(g)
        try:
            back = rev(call(c))
            d = dense.phase_dist(circ_unitary(c.qubit_count, back.gates), dense.circuit_unitary(c.qubit_count, c.gates))
        except Exception:  # noqa: BLE001
            continue
        if d > tol and kind_of(g) not in bads:
            bads.append(kind_of(g))
        if d > bd:
            best, bd = kind_of(g), d
    return bads or [best or "circuit"]


def rejection_checks(ctx: Ctx):
    """gates a backend cannot express must be rejected, not mistranslated"""
    from quri_parts.circuit import ParametricQuantumGate, QuantumGate

    convs = {}
    try:
        from quri_parts.qulacs.circuit import convert_gate as cq

        convs["qulacs"] = cq
    except ImportError:
        pass
    for name, mod in (("qiskit", "quri_parts.qiskit.circuit"), ("cirq", "quri_parts.cirq.circuit"), ("braket", "quri_parts.braket.circuit"),
                      ("tket", "quri_parts.tket.circuit")):
        try:
            convs[name] = __import__(mod, fromlist=["convert_gate"]).convert_gate
        except (ImportError, AttributeError):
            pass
    try:
        from quri_parts.openqasm.circuit import convert_gate_to_qasm_line

        convs["openqasm"] = convert_gate_to_qasm_line
    except ImportError:
        pass
    try:
        from quri_parts.stim.circuit import convert_gate as cs

        convs["stim"] = cs
    except ImportError:
        pass
    bad_gates = [
        ParametricQuantumGate(name="ParametricRX", target_indices=(0,)),
        ParametricQuantumGate(name="ParametricRY", target_indices=(1,)),
        ParametricQuantumGate(name="ParametricRZ", target_indices=(0,)),
        ParametricQuantumGate(name="ParametricPauliRotation", target_indices=(0, 1), pauli_ids=(1, 2)),
        QuantumGate(name="Measurement", target_indices=(0,), classical_indices=(0,)),  # no gate-level converter expresses it
        QuantumGate(name="NoSuchGate", target_indices=(0,)),
        QuantumGate(name="NoSuchGate", target_indices=(1,), control_indices=(0,), params=(0.3,)),
    ]
    for b, f in convs.items():
        for g in bad_gates:
            ctx.evaluations += 1
            try:
                r = f(g)
                ctx.witness(finding_key(b, "accepts", g.name), f"{b}.convert_gate accepted {g.name} and returned {str(r)[:60]}", {"gate": g.name})
            except Exception:  # noqa: BLE001
                pass
    from quri_parts.circuit import gates

    if "tket" in convs:  # documented limit of the tket adapter: unitary boxes up to 3 qubits
        import numpy as np

        ctx.evaluations += 1
        try:
            r = convs["tket"](gates.UnitaryMatrix([0, 1, 2, 3], np.eye(16).tolist()))
            ctx.witness("tket.accepts.UM4", f"tket convert_gate accepted a 4-qubit UnitaryMatrix and returned {str(r)[:60]}", {"gate": "UnitaryMatrix on 4 qubits"})
        except Exception:  # noqa: BLE001
            pass
    for b, f in convs.items():
        if b in ("stim",):
            for g in (gates.T(0), gates.RX(0, 0.3), gates.TOFFOLI(0, 1, 2)):
                ctx.evaluations += 1
                try:
                    f(g)
                    ctx.witness(finding_key(b, "accepts", g.name), f"{b}.convert_gate accepted non-Clifford {g.name}", {"gate": g.name})
                except Exception:  # noqa: BLE001
                    pass


def run(ctx: Ctx, replay=None) -> int:
    ctx.rule = ("translated adapter rows (backend, gate kind ↦ backend constructor, argument order and sign) are checked by the kernel against the assumed "
                "backend semantics; every adapter is then run through every documented call form (default / explicit / None transpiler, set transpilers, "
                "stream and string output, mutable / frozen / bound circuit objects) on single-gate and random circuits over its own vocabulary, and the "
                "backend's own simulator / matrix export is compared with the documented action (dense oracle), forward and round trip; a circuit over the "
                "supported vocabulary must not be rejected; emitted OpenQASM is read twice (own stdgates.inc interpreter, qiskit.qasm3); the Python Qulacs "
                "gate converter, the parametric converters / compiled circuits (program with param_mapper(values) set = circuit bound to values; fresh "
                "program at every request), measurements, wide registers (relabelling equivariance up to qubit 69) and native backend circuits (special "
                "angles, gate modifiers, several registers, pre_conversion) are judged the same way; evaluations = converted circuits")
    ctx.trusted = c01.TRUSTED[:4] + [
        "assumed backend gate semantics (Props/C03.lean `sem`): validated each run against the backends' own simulators through the forward adapters",
        "backends' matrix exports (qulacs state updates, qiskit Operator, cirq unitary, braket to_unitary, pytket get_unitary, stim tableau) and their qubit-ordering conventions",
        "OpenQASM: an interpreter of the emitted text with stdgates.inc semantics (oracle/backends.py), cross-read by qiskit.qasm3.loads",
        "packages/rust/src/qulacs/mod.rs is tied by a text translator only; the executed converter is the installed 0.27 binary",
        "the supported-vocabulary tables FWD_SUPPORTED / REV_SUPPORTED / NATIVE_REJECTED pin which kinds the reference tree accepts with the installed backend versions",
    ]
    ctx.assumptions = ["circuits over each adapter's vocabulary; UnitaryMatrix on ≤ 4 qubits; dense comparison on ≤ 4 qubits, structural (relabelling) comparison "
                       "on a 70-qubit register"]
    rows = gen(ctx)
    ok = ctx.prove(["QuriVerif.Props.C03", "QuriVerif.Props.C03Lift"], ["QuriVerif.Props.C03", "QuriVerif.Props.C03Lift", "QuriVerif.Generated.C03Adapters"])
    if ok:
        names = [f"QV.Props.C03.{n}" for _, n, _ in ctx.count_obligations(["QuriVerif.Props.C03"])]
        names += [f"QV.Props.C03Lift.{n}" for _, n, _ in ctx.count_obligations(["QuriVerif.Props.C03Lift"])]
        ctx.audit(names, ["QuriVerif.Props.C03", "QuriVerif.Props.C03Lift"])
        for r in rows:
            ctx.case(("row", r["backend"], r["kind"]), sample=r if len(ctx.samples) < 4 else None)
            ctx.traces += 1
    with ctx.timed("oracle_validation"):
        budget = (32 if ctx.quick() else 260) * (1 if ok else 3)
        validate(ctx, budget)
        validate_native_reverse(ctx, 50 if ctx.quick() else 500)
    return ctx.finish()


# ---------------------------------------------------------------------------
# reverse adapters on NATIVE backend circuits (not only on images of the forward adapter)
# ---------------------------------------------------------------------------
NATIVE = {
    "qulacs": ["I", "X", "Y", "Z", "H", "S", "Sdag", "T", "Tdag", "sqrtX", "sqrtXdag", "sqrtY", "sqrtYdag", "RX", "RY", "RZ", "U1", "U2", "U3",
               "CNOT", "CZ", "SWAP", "TOFFOLI", "dense1", "dense2", "cdense", "ccx_dense", "pauli", "paulirot", "FREDKIN", "P0",
               # the full legal input space of Qulacs' multi-Pauli gates (not only what convert_circuit emits): any width incl. 0,
               # identity factors (pauli_id 0) at any position, built through the circuit methods or as gate objects
               "paulis", "paulirots", "paulis", "paulirots"],
    "qiskit": ["h", "x", "y", "z", "s", "sdg", "t", "tdg", "sx", "sxdg", "id", "rx", "ry", "rz", "p", "u", "u1", "u2", "u3", "cx", "cz", "swap",
               "ecr", "ccx", "unitary1", "unitary2", "unitary3", "cy", "ch", "crx", "rzz", "iswap", "ccz", "cswap", "cx_o0", "ccx_o",
               "pauli_label", "pauli_evolution", "gphase"],
    "cirq": ["H", "X", "Y", "Z", "S", "T", "Sdag", "SqrtX", "SqrtXdag", "SqrtY", "Tdag", "rx", "ry", "rz", "CNOT", "CZ", "SWAP", "TOFFOLI",
             "ISWAP", "matrix1", "matrix2", "XPow", "YPow", "ZPow", "CCZ",
             # other spellings of the named gates: powers Cirq regards as EQUAL to the gate (what cirq.inverse / op**-1 / gate**3 leave behind)
             "Hpow", "CNOTpow", "CZpow", "SWAPpow", "TOFFOLIpow", "CCZpow", "ISWAPpow", "X.controlled",
             # qubit-symmetric gates of the generic branch, and gates of the generic branch that are not symmetric (see key cirq.native-reverse.generic)
             "CZfrac", "generic:CXPow-fractional", "generic:CY", "generic:CX-open-control", "generic:CSWAP", "generic:PauliString",
             "gphase", "IdentityGate"],
    "braket": ["h", "x", "y", "z", "s", "si", "t", "ti", "v", "vi", "rx", "ry", "rz", "phaseshift", "u", "u", "cnot", "cz", "swap", "ccnot",
               "unitary1", "unitary2", "unitary3", "iswap", "cy", "modifier:control", "modifier:neg-control", "modifier:power", "gphase"],
    "tket": ["H", "X", "Y", "Z", "S", "Sdg", "T", "Tdg", "SX", "SXdg", "noop", "Rx", "Ry", "Rz", "U1", "U2", "U3", "CX", "CZ", "SWAP", "CCX", "CY",
             "Unitary1qBox", "Unitary2qBox", "Unitary3qBox", "PauliExpBox", "phase"],
}
VARIABLE_WIDTH = {"paulis", "paulirots", "pauli_label", "pauli_evolution", "generic:PauliString", "PauliExpBox", "IdentityGate"}
ARITY2 = {"CNOT", "CZ", "SWAP", "dense2", "cdense", "pauli", "paulirot", "cx", "cz", "swap", "cy", "ch", "unitary2", "ISWAP", "matrix2",
          "cnot", "iswap", "CX", "CY", "ecr", "crx", "rzz", "Unitary2qBox", "modifier:control", "modifier:neg-control",
          "CNOTpow", "CZpow", "SWAPpow", "ISWAPpow", "X.controlled", "CZfrac", "generic:CXPow-fractional", "generic:CY", "generic:CX-open-control", "cx_o0"}
ARITY3 = {"TOFFOLI", "ccx", "ccnot", "CCX", "ccx_dense", "unitary3", "ccz", "cswap", "CCZ", "Unitary3qBox", "FREDKIN", "TOFFOLIpow", "CCZpow", "generic:CSWAP", "ccx_o"}
NPAR = {"paulirots": 1, "pauli_evolution": 1, "gphase": 1, "phase": 1, "PauliExpBox": 1, "RX": 1, "RY": 1, "RZ": 1, "U1": 1, "U2": 2, "U3": 3, "paulirot": 1, "rx": 1, "ry": 1, "rz": 1, "p": 1, "u": 3, "phaseshift": 1,
        "Rx": 1, "Ry": 1, "Rz": 1, "u1": 1, "u2": 2, "u3": 3, "crx": 1, "rzz": 1, "modifier:neg-control": 1}
# native gates the reverse adapters do not take (reference tree): an error, as the property asks
NATIVE_REJECTED = {"braket": {"iswap", "cy", "gphase"}, "tket": {"CY", "PauliExpBox"}, "qulacs": {"FREDKIN", "dense2", "P0"}}  # dense2: see note_once in judge()
# native gates with a listed finding (or refused) on the reference tree: kept out of the adjoint-circuit runs
NATIVE_KNOWN_BAD = {
    "cirq": {"matrix2", "generic:CXPow-fractional", "generic:CY", "generic:CX-open-control", "generic:CSWAP", "generic:PauliString"},
    "tket": {"Unitary2qBox", "Unitary3qBox", "CY", "PauliExpBox"},
    "braket": {"modifier:control", "modifier:neg-control", "modifier:power", "iswap", "cy", "gphase"},
    "qulacs": {"cdense", "dense1", "dense2", "FREDKIN", "P0", "U1", "U2", "U3"},
    "qiskit": {"iswap"},
}
# argument values the reverse adapters branch on, tried on every run
PINNED_NATIVE = {
    "braket": [("u", [0.0, 0.0, 0.7]), ("u", [0.0, 0.9, 0.7]), ("u", [0.0, 0.9, 0.0]), ("u", [math.pi / 2, 0.9, 0.7]), ("u", [math.pi / 2, 0.0, 0.0]),
               ("u", [0.3, 0.9, 0.7]), ("u", [0.3, 0.0, 0.0]), ("phaseshift", [0.0])],
    "qulacs": [(g, [a]) for g in ("RX", "RY", "RZ") for a in (0.0, math.pi, -math.pi, 2 * math.pi, math.pi / 2, -0.3)],
    "qiskit": [("u", [0.0, 0.0, 0.7]), ("u", [math.pi / 2, 0.9, 0.7]), ("u2", [0.0, 0.0]), ("p", [0.0])],
    "tket": [("U3", [0.0, 0.0, 0.7]), ("U2", [0.9, 0.7]), ("Rz", [2 * math.pi])],
}


def native_specs(backend, rng, n, k):
    from oracle import dense

    # exact special values (0, ±π/2, π) matter: reverse adapters pattern-match on them
    ang = lambda: rng.choice([rng.uniform(-7, 7), rng.randint(-8, 8) * math.pi / 4, 0.0, 0.0, math.pi / 2, math.pi])
    specs = []
    for _ in range(k):
        g = rng.choice(NATIVE[backend])
        ar = 3 if g in ARITY3 else 2 if g in ARITY2 else 1
        if g in VARIABLE_WIDTH:
            ar = rng.randint(0 if g in ("paulis", "paulirots") else 1, n)
        elif g in ("gphase", "phase"):
            ar = 0
        if ar > n:
            continue
        q = rng.sample(range(n), ar)
        ps = [ang() for _ in range(NPAR.get(g, 0))]
        extra = None
        if g in VARIABLE_WIDTH and g != "IdentityGate":
            # Pauli strings with identity factors at any position (also all-identity); half of the time at least one identity
            ids = [rng.randint(0, 3) for _ in q]
            if ids and rng.random() < 0.5:
                ids[rng.randrange(len(ids))] = 0
            extra = (ids, rng.random() < 0.5)
        if g in ("XPow", "YPow", "ZPow", "modifier:power"):
            ps = [rng.choice([0.5, -0.5, 1.0, 1.5, -1.5, 0.25, -0.25, 1.75, 2.0, 3.0, round(rng.uniform(-2, 2), 3)])]
        elif g.endswith("pow"):  # exponents under which the gate equals itself (odd; for ISWAP 1 mod 4)
            ps = [rng.choice([-3, 1, 5, -7] if g == "ISWAPpow" else [-1, -1, 3, -3, 5, 1, -1.0, 3.0])]
        elif g in ("CZfrac", "generic:CXPow-fractional"):
            ps = [rng.choice([0.5, -0.5, 0.25, 1.5, round(rng.uniform(-0.9, 0.9), 3) or 0.3])]
        mat = lambda m: structured_unitary(rng, m)[1] if rng.random() < 0.5 else dense.random_unitary(rng, 1 << m)  # noqa: E731
        if g in ("dense1", "cdense", "unitary1", "matrix1", "Unitary1qBox"):
            extra = mat(1)
        elif g in ("dense2", "unitary2", "matrix2", "Unitary2qBox"):
            extra = mat(2)
        elif g in ("unitary3", "Unitary3qBox"):
            extra = mat(3)
        elif g in ("pauli", "paulirot"):
            extra = [rng.randint(1, 3), rng.randint(1, 3)]
        specs.append((g, q, ps, extra))
    return specs


def build_native(backend, n, specs):
    if backend == "qulacs":
        import qulacs

        c = qulacs.QuantumCircuit(n)
        for g, q, ps, extra in specs:
            if g in ("RX", "RY", "RZ", "U1", "U2", "U3"):
                getattr(c, f"add_{g}_gate")(q[0], *ps)
            elif g in ("CNOT", "CZ", "SWAP"):
                getattr(c, f"add_{g}_gate")(q[0], q[1])
            elif g in ("TOFFOLI", "FREDKIN"):
                c.add_gate(getattr(qulacs.gate, g)(q[0], q[1], q[2]))
            elif g == "dense1":
                c.add_dense_matrix_gate(q[0], extra)
            elif g == "dense2":
                c.add_dense_matrix_gate([q[0], q[1]], extra)
            elif g == "cdense":
                mg = qulacs.gate.DenseMatrix(q[0], extra)
                mg.add_control_qubit(q[1], 1)
                c.add_gate(mg)
            elif g == "ccx_dense":  # the pattern circuit_from_qulacs reads as TOFFOLI
                mg = qulacs.gate.DenseMatrix(q[2], [[0, 1], [1, 0]])
                mg.add_control_qubit(q[0], 1)
                mg.add_control_qubit(q[1], 1)
                c.add_gate(mg)
            elif g == "I":
                c.add_gate(qulacs.gate.Identity(q[0]))
            elif g == "P0":  # a projection: nothing quri-parts can express, the adapter has to refuse it
                c.add_gate(qulacs.gate.P0(q[0]))
            elif g == "paulis":
                c.add_gate(qulacs.gate.Pauli(list(q), extra[0])) if extra[1] else c.add_multi_Pauli_gate(list(q), extra[0])
            elif g == "paulirots":
                (c.add_gate(qulacs.gate.PauliRotation(list(q), extra[0], ps[0])) if extra[1]
                 else c.add_multi_Pauli_rotation_gate(list(q), extra[0], ps[0]))
            elif g == "pauli":
                c.add_multi_Pauli_gate([q[0], q[1]], extra)
            elif g == "paulirot":
                c.add_multi_Pauli_rotation_gate([q[0], q[1]], extra, ps[0])
            else:
                getattr(c, f"add_{g}_gate")(q[0])
        return c
    if backend == "qiskit":
        from qiskit import QuantumCircuit

        from qiskit.circuit import library as L

        c = QuantumCircuit(n)
        for g, q, ps, extra in specs:
            if g in ("rx", "ry", "rz", "p", "u"):
                getattr(c, g)(*ps, q[0])
            elif g in ("u1", "u2", "u3"):
                c.append(getattr(L, g.upper() + "Gate")(*ps), [q[0]])
            elif g in ("crx", "rzz"):
                getattr(c, g)(ps[0], q[0], q[1])
            elif g in ("cx", "cz", "swap", "cy", "ch", "ecr", "iswap"):
                getattr(c, g)(q[0], q[1])
            elif g in ("ccx", "ccz", "cswap"):
                getattr(c, g)(q[0], q[1], q[2])
            elif g == "pauli_label":  # label position k from the right <-> k-th qubit argument
                c.append(L.PauliGate("".join("IXYZ"[i] for i in reversed(extra[0]))), list(q))
            elif g == "pauli_evolution":
                from qiskit.quantum_info import SparsePauliOp

                c.append(L.PauliEvolutionGate(SparsePauliOp("".join("IXYZ"[i] for i in reversed(extra[0]))), time=ps[0] / 2), list(q))
            elif g == "gphase":
                c.append(L.GlobalPhaseGate(ps[0]), [])
            elif g == "cx_o0":  # open control: a different gate under a name that starts like cx
                c.cx(q[0], q[1], ctrl_state=0)
            elif g == "ccx_o":
                c.ccx(q[0], q[1], q[2], ctrl_state=1 + (q[0] > q[1]))
            elif g in ("unitary1", "unitary2", "unitary3"):
                c.unitary(extra, list(q))
            else:
                getattr(c, g)(q[0])
        return c
    if backend == "cirq":
        import cirq

        qs = cirq.LineQubit.range(n)
        one = {"H": cirq.H, "X": cirq.X, "Y": cirq.Y, "Z": cirq.Z, "S": cirq.S, "T": cirq.T, "Sdag": cirq.S**-1, "SqrtX": cirq.X**0.5,
               "SqrtXdag": cirq.X**-0.5, "SqrtY": cirq.Y**0.5, "Tdag": cirq.T**-1}
        ops = []
        for g, q, ps, extra in specs:
            if g in one:
                ops.append(one[g].on(qs[q[0]]))
            elif g in ("rx", "ry", "rz"):
                ops.append(getattr(cirq, g)(ps[0]).on(qs[q[0]]))
            elif g in ("CNOT", "CZ", "SWAP", "ISWAP"):
                ops.append(getattr(cirq, g).on(qs[q[0]], qs[q[1]]))
            elif g in ("TOFFOLI", "CCZ"):
                ops.append(getattr(cirq, g).on(qs[q[0]], qs[q[1]], qs[q[2]]))
            elif g in ("XPow", "YPow", "ZPow"):  # other spellings of the named gates, and generic powers
                ops.append((getattr(cirq, g[0]) ** ps[0]).on(qs[q[0]]))
            elif g.endswith("pow"):
                ops.append((getattr(cirq, g[:-3]) ** ps[0]).on(*[qs[i] for i in q]))
            elif g == "CZfrac":
                ops.append((cirq.CZ ** ps[0]).on(qs[q[0]], qs[q[1]]))
            elif g == "generic:CXPow-fractional":
                ops.append((cirq.CNOT ** ps[0]).on(qs[q[0]], qs[q[1]]))
            elif g == "X.controlled":
                ops.append(cirq.X.controlled().on(qs[q[0]], qs[q[1]]))
            elif g == "generic:CY":
                ops.append(cirq.Y.controlled().on(qs[q[0]], qs[q[1]]))
            elif g == "generic:CX-open-control":
                ops.append(cirq.X.controlled(control_values=[0]).on(qs[q[0]], qs[q[1]]))
            elif g == "generic:CSWAP":
                ops.append(cirq.CSWAP.on(qs[q[0]], qs[q[1]], qs[q[2]]))
            elif g == "generic:PauliString":
                ops.append(cirq.DensePauliString("".join("IXYZ"[i] for i in extra[0])).on(*[qs[i] for i in q]))
            elif g == "gphase":
                ops.append(cirq.global_phase_operation(cmath.exp(1j * ps[0])))
            elif g == "IdentityGate":
                ops.append(cirq.IdentityGate(len(q)).on(*[qs[i] for i in q]))
            else:
                ops.append(cirq.MatrixGate(extra).on(*[qs[i] for i in q]))
        ops.append(cirq.I.on(qs[n - 1]))  # keep the register size recoverable
        return cirq.Circuit(ops)
    if backend == "braket":
        from braket.circuits import Circuit

        c = Circuit()
        for q0 in range(n):
            c.i(q0)
        for g, q, ps, extra in specs:
            if g in ("rx", "ry", "rz", "phaseshift"):
                getattr(c, g)(q[0], ps[0])
            elif g == "u":
                c.u(q[0], *ps)
            elif g in ("cnot", "cz", "swap", "iswap", "cy"):
                getattr(c, g)(q[0], q[1])
            elif g == "ccnot":
                c.ccnot(q[0], q[1], q[2])
            elif g in ("unitary1", "unitary2", "unitary3"):
                c.unitary(matrix=extra, targets=list(q))
            elif g == "gphase":
                c.gphase(ps[0])
            elif g == "modifier:control":
                c.x(q[1], control=[q[0]])
            elif g == "modifier:neg-control":
                c.rx(q[1], ps[0], control=q[0], control_state=[0])
            elif g == "modifier:power":
                c.x(q[0], power=ps[0])
            else:
                getattr(c, g)(q[0])
        return c
    if backend == "tket":
        from pytket import Circuit, OpType

        from pytket.circuit import Unitary1qBox, Unitary2qBox, Unitary3qBox

        c = Circuit(n)
        for g, q, ps, extra in specs:
            if g == "PauliExpBox":
                from pytket.circuit import PauliExpBox
                from pytket.pauli import Pauli

                c.add_pauliexpbox(PauliExpBox([[Pauli.I, Pauli.X, Pauli.Y, Pauli.Z][i] for i in extra[0]], ps[0] / math.pi), list(q))
            elif g == "phase":
                c.add_phase(ps[0] / math.pi)
            elif g == "Unitary1qBox":
                c.add_unitary1qbox(Unitary1qBox(extra), q[0])
            elif g == "Unitary2qBox":
                c.add_unitary2qbox(Unitary2qBox(extra), q[0], q[1])
            elif g == "Unitary3qBox":
                c.add_unitary3qbox(Unitary3qBox(extra), q[0], q[1], q[2])
            elif ps:
                c.add_gate(getattr(OpType, g), [x / math.pi for x in ps], [q[0]])
            else:
                c.add_gate(getattr(OpType, g), list(q))
        return c
    raise KeyError(backend)


def validate_native_reverse(ctx: Ctx, rounds: int):
    from oracle import backends as B
    from oracle import dense

    uni = {"qulacs": B.qulacs_unitary, "qiskit": B.qiskit_unitary, "cirq": B.cirq_unitary, "braket": B.braket_unitary, "tket": B.tket_unitary}
    rng = ctx.rng

    def dist(backend, call, n, specs, build=build_native):
        """None = rejected / not evaluable"""
        circ = build(backend, n, specs)
        want = uni[backend](circ, n)
        try:
            back = call(circ)
        except Exception as e:  # noqa: BLE001
            return ("rejected", type(e).__name__, str(e)[:90])
        try:
            if back.qubit_count > n:
                return ("ok", 9.0)
            got = circ_unitary(n, back.gates)
            d = dense.phase_dist(got, want)
            if d > 1e-6 and n >= 2 and up_to_output_permutation(n, got, want):
                return ("ok", d, "permuted")
            return ("ok", d)
        except Exception as e:  # noqa: BLE001 — e.g. a gate with the wrong number of parameters: no documented action at all
            return ("ok", 8.0, f"malformed result ({type(e).__name__}: {str(e)[:60]})")

    def up_to_output_permutation(n, got, want):
        """does `got` followed by a fixed relabelling of the qubits equal `want`? (what an elided swap leaves behind)"""
        import itertools

        import numpy as np

        for perm in itertools.permutations(range(n)):
            if list(perm) == list(range(n)):
                continue
            p = np.zeros((1 << n, 1 << n))
            for i in range(1 << n):
                j = sum(((i >> q) & 1) << perm[q] for q in range(n))
                p[j, i] = 1
            if dense.phase_dist(p @ got, want) <= 1e-6:
                return True
        return False

    def judge_native(backend, call, label, n, specs, build=build_native, fixed_key=None, allow_reject=()):
        names = [sp[0] for sp in specs]
        inp = {"backend": backend, "n": n, "call": label, "native_gates": [(g, q, [repr(x) for x in ps]) + ((f"pauli_ids={ex[0]}" + (" (gate object)" if ex[1] else ""),) if isinstance(ex, tuple) else ())
                                                                                 for g, q, ps, ex in specs]}
        try:
            res = dist(backend, call, n, specs, build)
        except Exception as e:  # noqa: BLE001 – a quirk of the backend or of this generator, not of quri-parts
            ctx.count(f"{backend}.native", "generator-skip:" + type(e).__name__)
            return
        ctx.evaluations += 1
        if res[0] == "rejected":
            ctx.count(f"{backend}.native", "rejected:" + res[1])
            if any(g in allow_reject for g in names):
                return
            if not REJECTING_SUPPORTED_IS_A_FAILURE:
                return
            bad = names[0] if len(set(names)) == 1 else "circuit"
            if bad == "circuit":
                for sp in specs:
                    try:
                        if dist(backend, call, n, [sp], build)[0] == "rejected":
                            bad = sp[0]
                            break
                    except Exception:  # noqa: BLE001
                        continue
            ctx.witness(finding_key(backend, "native-rejects", bad.split(":")[0]), f"circuit_from_{backend} ({label}) raises {res[1]} ({res[2]}) for a native "
                        "circuit over gates it has a translation for", inp)
            return
        d = res[1]
        ctx.count(f"{backend}.native", "ok" if d <= 1e-6 else "MISMATCH")
        if d > 1e-6 and backend == "qiskit" and "pre_conversion=True" in label and res[2:] == ("permuted",) and not fixed_key:
            # qiskit's transpile (run by pre_conversion=True) elides swap gates (and swap-equivalent blocks) into a final layout the
            # adapter does not read: what comes back is right up to a fixed relabelling of the output qubits
            fixed_key = "qiskit.native-reverse.pre_conversion-swap"
        if d > 1e-6 and fixed_key:
            ctx.witness(fixed_key, f"circuit_from_{backend} ({label}) of a native circuit differs from the backend's own unitary by {d:.3g}", inp)
        elif d > 1e-6:
            bads = []
            for sp in specs:  # attribute to single native gates (all of them: a known defect must not mask another one)
                try:
                    r1 = dist(backend, call, n, [sp], build)
                except Exception:  # noqa: BLE001
                    continue
                if r1[0] == "ok" and r1[1] > 1e-6 and sp[0] not in [b for b, _ in bads]:
                    bads.append((sp[0], r1[1]))
            for bad, bd in bads or [("circuit", d)]:
                detail = ".rounding" if bd < 1e-4 else ""
                ctx.witness(fixed_key or finding_key(backend, "native-reverse", bad.split(":")[0], detail),
                            f"circuit_from_{backend} ({label}) of a native circuit differs from the backend's own unitary by {d:.3g}"
                            + (f" [{res[2]}]" if len(res) > 2 and str(res[2]).startswith("malformed") else ""), inp)

    for backend in uni:
        try:
            rev = reverse(backend)
        except ImportError:
            continue
        calls = [("default", rev, ())]
        if backend == "qiskit":
            calls += [("pre_conversion=False", lambda c: rev(c, pre_conversion=False), ()), ("pre_conversion=True", lambda c: rev(c, pre_conversion=True), ()),
                      ("pre_conversion=True positional", lambda c: rev(c, True), ())]
        allow = NATIVE_REJECTED.get(backend, set())
        # every native gate alone, then circuits
        for g in dict.fromkeys(NATIVE[backend]):
            for _ in range(ctx.n(2, 8)):
                saved = NATIVE[backend]
                NATIVE[backend] = [g]
                try:
                    specs = native_specs(backend, rng, 3, 1)
                finally:
                    NATIVE[backend] = saved
                if specs:
                    judge_native(backend, rev, "default", 3, specs, allow_reject=allow)
        for g, ps in PINNED_NATIVE.get(backend, []):
            judge_native(backend, rev, "default", 2, [(g, [rng.randrange(2)], list(ps), None)], allow_reject=allow)
        if backend == "qulacs":  # an identity factor at every position, a non-identity factor after it; also the empty and the all-identity string
            for ids in ([0, 2, 3], [1, 0, 3], [2, 1, 0], [0, 0, 3], [0, 0, 0], []):
                for obj in (False, True):
                    tq = [2, 0, 1][:len(ids)]
                    judge_native(backend, rev, "default", 3, [("paulis", tq, [], (ids, obj))], allow_reject=allow)
                    judge_native(backend, rev, "default", 3, [("paulirots", tq, [rng.choice([0.7, 0.0, math.pi])], (ids, obj))], allow_reject=allow)
        for r in range(rounds):
            n = rng.randint(1, 3)
            specs = native_specs(backend, rng, n, rng.randint(1, 5))
            if not specs:
                continue
            label, call, _ = calls[0] if rng.random() < 0.5 else rng.choice(calls)
            ctx.count(f"{backend}.native.call", label)
            judge_native(backend, call, label, n, specs, allow_reject=() if "True" in label else allow)
        # the backend's own adjoint of a native circuit (un-computation): named gates come back as powers / daggered spellings
        def build_adjoint(b, n, specs):
            c = build_native(b, n, specs)
            if b == "cirq":
                import cirq

                keep = cirq.I.on(cirq.LineQubit(n - 1))
                return cirq.Circuit([cirq.inverse(c) if build_adjoint.how else c ** -1, keep])
            return {"qiskit": lambda: c.inverse(), "braket": lambda: c.adjoint(), "tket": lambda: c.dagger(), "qulacs": lambda: c.get_inverse()}[b]()

        saved = NATIVE[backend]
        NATIVE[backend] = [g for g in saved if g not in NATIVE_KNOWN_BAD.get(backend, set())]
        try:
            for r in range(max(6, rounds // 3)):
                n = rng.randint(1, 3)
                specs = native_specs(backend, rng, n, rng.randint(1, 4))
                if not specs:
                    continue
                build_adjoint.how = r % 2
                judge_native(backend, rev, "adjoint of the native circuit", n, specs, build=build_adjoint, allow_reject=[sp[0] for sp in specs])
        finally:
            NATIVE[backend] = saved
        # long native circuits (lengths around block sizes / powers of two) over the gates that come back right one by one
        saved = NATIVE[backend]
        NATIVE[backend] = [g for g in saved if g not in NATIVE_KNOWN_BAD.get(backend, set()) and g not in allow and g not in ARITY3
                           and g not in VARIABLE_WIDTH and g not in ("unitary2", "unitary3")]
        try:
            for total in ([1, 64, 256, 257] if ctx.quick() else LENGTHS_THOROUGH[1:]):
                specs = []
                while len(specs) < total:
                    specs += native_specs(backend, rng, 3, total - len(specs))
                judge_native(backend, rev, f"default; {total} native gates", 3, specs, fixed_key=f"{backend}.native-reverse.length-{total}")
        finally:
            NATIVE[backend] = saved
        if backend == "qiskit":
            qiskit_registers(ctx, judge_native, rev, rounds)
            # pinned instance of the pre_conversion / swap case (random circuits reach it only now and then)
            judge_native("qiskit", lambda c: rev(c, pre_conversion=True), "pre_conversion=True", 2, [("h", [0], [], None), ("swap", [0, 1], [], None)],
                         fixed_key="qiskit.native-reverse.pre_conversion-swap")


def qiskit_registers(ctx: Ctx, judge_native, rev, rounds):
    """Qiskit circuits whose qubits live in more than one register: the action is defined on the circuit's qubit order"""
    rng = ctx.rng

    def build(backend, n, specs):
        from qiskit import QuantumCircuit, QuantumRegister

        one = build_native("qiskit", n, specs)
        k = build.split
        regs = [QuantumRegister(k, "a"), QuantumRegister(n - k, "b")] if 0 < k < n else [QuantumRegister(n, "a")]
        qc = QuantumCircuit(*regs)
        for inst in one.data:
            qc.append(inst.operation, [qc.qubits[one.find_bit(q).index] for q in inst.qubits])
        return qc

    for _ in range(max(4, rounds // 8)):
        n = rng.randint(2, 4)
        specs = native_specs("qiskit", rng, n, rng.randint(1, 4))
        if not specs:
            continue
        # only when the same gates on one register come back right is a failure a matter of the registers
        build.split = 0
        before = getattr(ctx, "witness_total", 0)
        judge_native("qiskit", rev, "one register", n, specs, build=build)
        if getattr(ctx, "witness_total", 0) != before:
            continue
        build.split = rng.randint(1, n - 1)
        judge_native("qiskit", rev, f"registers a[{build.split}], b[{n - build.split}]", n, specs, build=build,
                     fixed_key="qiskit.native-reverse.multi-register")
