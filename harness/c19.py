"""C19 — Structured (qsub) compilation preserves meaning and resource counts."""
from __future__ import annotations

import json
import os
import sys
import time

sys.path.insert(0, os.path.dirname(os.path.dirname(os.path.abspath(__file__))))

from common import Ctx, InfraError, VERIF  # noqa: E402

from translate import c19gen  # noqa: E402

LEAN_TARGETS = ["QuriVerif.Props.C19", "QuriVerif.Props.C19Lib", "QuriVerif.Props.C19Lift", "QuriVerif.Props.C19SubLift", "QuriVerif.Driver.C19"]
OBLIGATION_MODULES = ["QuriVerif.Props.C19", "QuriVerif.Props.C19Lib", "QuriVerif.Props.C19Lift", "QuriVerif.Props.C19SubLift", "QuriVerif.Generated.C19Lib"]
ENTRY = "DriverC19.lean"

TRUSTED = [
    "Lean 4.33 kernel incl. `decide +kernel` evaluation; axioms audited ⊆ {propext, Classical.choice, Quot.sound}",
    "hand-written model Model/C19.lean (SubBuilder naming convention, Evaluator stack machine, qubit-map stack, "
    "allocator, memo tables); tied to the real code only by the correspondence harness harness/c19.py",
    "translator translate/c19gen.py (Python `ast` reader for lib/std/inverse.py, control.py, op definitions, "
    "eval/quriparts.py gate mapping) and Found/Gate.lean's restatement of the documented gate matrices",
    "exact-ring reflection proved sound (Proof/PolySound, Proof/MatSound, Props/Reflect — obligations of C01): a discharged Template.check / checkExact / Poly identity holds in ℂ for all real angles; trusted spec = MatSound.embedAct / semCirc + Gate.localMat",
    "Python set iteration order (aux_qubits of full_expand) is treated as an arbitrary order σ",
    "installed quri_parts.rust 0.27 binary provides QuantumGate/QuantumCircuit",
]

# primitive vocabulary used by the correspondence: op id -> (std attribute, arity, quri-parts gate name)
PRIMS = [("H", 1, "H"), ("X", 1, "X"), ("T", 1, "T"), ("S", 1, "S"), ("CNOT", 2, "CNOT"), ("CZ", 2, "CZ"),
         ("SWAP", 2, "SWAP"), ("Toffoli", 3, "TOFFOLI")]
NSTD = len(PRIMS)
_uniq = [0]
GATE2ID = {g: i for i, (_, _, g) in enumerate(PRIMS)}
T_ID = 2


# ---------------------------------------------------------------------------
# op-level programs (what a user writes): HProgram
#   ops 0..NSTD-1 : the std ops above, ops NSTD.. : user ops
#   prims : set of op ids handed to CodeGenerator
#   subs  : {op id: HSub}  registered in the repository;  HSub = (nArgs, nAux, [(op, qs)])
#   root  : HSub
# ---------------------------------------------------------------------------
class HP:
    def __init__(self, nops, arity, prims, subs, root):
        self.nops, self.arity, self.prims, self.subs, self.root = nops, arity, sorted(prims), subs, root

    def key(self):
        return (self.nops, tuple(self.prims), tuple(sorted((k, _hs_key(v)) for k, v in self.subs.items())), _hs_key(self.root))

    def enc(self):
        def hs(s):
            return f"{s[0]} {s[1]} " + ";".join(f"{o}:{','.join(map(str, qs))}" for o, qs in s[2])
        subs = " | ".join((hs(self.subs[o]) if o in self.subs else "-") for o in range(self.nops))
        return f"{','.join(map(str, self.prims))} / {hs(self.root)} / {subs}"

    def to_json(self):
        return {"nops": self.nops, "arity": self.arity, "prims": self.prims,
                "subs": {str(k): [v[0], v[1], [[o, list(q)] for o, q in v[2]]] for k, v in self.subs.items()},
                "root": [self.root[0], self.root[1], [[o, list(q)] for o, q in self.root[2]]]}

    @staticmethod
    def from_json(d):
        f = lambda v: (v[0], v[1], [(o, tuple(q)) for o, q in v[2]])
        return HP(d["nops"], d["arity"], d["prims"], {int(k): f(v) for k, v in d["subs"].items()}, f(d["root"]))


def _hs_key(s):
    return (s[0], s[1], tuple((o, tuple(q)) for o, q in s[2]))


def gen_hp(rng, kind="acyclic", max_depth=5, user_prims=False):
    """random op-level program.  kind: acyclic | cyclic | repeat (repeated call arguments) | arity | missing"""
    big = rng.random() < 0.08  # sizes the other cases never pick: deeper chains, wider subs, more auxiliaries
    if big:
        max_depth = 9
    nuser = rng.randint(6, 10) if big else rng.randint(1, 7)
    nops = NSTD + nuser
    arity = [a for _, a, _ in PRIMS] + [rng.randint(1, 4 if big else 3) for _ in range(nuser)]
    # levels give a topological order: an op of level L only uses ops of lower level
    level = {o: 0 for o in range(NSTD)}
    chain = rng.random() < 0.5  # a chain of distinct levels gives deep call stacks
    for j, o in enumerate(range(NSTD, nops)):
        level[o] = min(max_depth, j + 1) if chain else rng.randint(1, max_depth)
    prims = set(range(NSTD))
    subs = {}
    # some std ops are non-primitive and get a sub of their own / are primitive AND have a (never called) sub
    for o in rng.sample(range(NSTD), rng.choice([0, 0, 1, 2])):
        lower = [x for x in range(NSTD) if x != o and arity[x] <= arity[o] + 1 and x not in subs]
        if not lower:
            continue
        if rng.random() < 0.7:
            prims.discard(o)
        level[o] = 0.5
        subs[o] = _gen_hsub(rng, arity[o], rng.randint(0, 1), [x for x in lower if x in prims or x in subs], arity, kind="acyclic")
    for o in sorted(range(NSTD, nops), key=lambda x: level[x]):
        usable = [x for x in range(nops) if level[x] < level[o] and (x in prims or x in subs)]
        below = [x for x in usable if x >= NSTD and level[x] == max([level[y] for y in usable if y >= NSTD] or [0])]
        subs[o] = _gen_hsub(rng, arity[o], rng.randint(0, 4 if big else 2), usable + below * 3, arity, kind)
    if kind == "acyclic" and rng.random() < 0.15:
        # twins: two ops whose registered subs are equal as values (SubCollector tests `sub not in subs` by value)
        cand = [(a, b) for a in range(NSTD, nops) for b in range(NSTD, nops)
                if a != b and a in subs and b in subs and arity[a] == arity[b] and level[a] <= level[b]]
        if cand:
            a, b = rng.choice(cand)
            subs[b] = subs[a]
    if user_prims:  # user ops as primitives (counters / expand only)
        for o in rng.sample(range(NSTD, nops), rng.randint(1, max(1, nuser // 2))):
            prims.add(o)
            if rng.random() < 0.5:
                subs.pop(o, None)
    rootn = rng.randint(1, 5 if big else 3)
    usable = [x for x in range(nops) if (x in prims or x in subs)]
    top = [x for x in usable if x >= NSTD and level[x] == max([level[y] for y in usable if y >= NSTD] or [0])]
    root = _gen_hsub(rng, rootn, rng.randint(0, 2), usable + top * 2, arity, kind, length=rng.randint(1, 6), prefer_user=True)
    if kind == "cyclic":
        users = [o for o in range(NSTD, nops) if o in subs and o not in prims]
        if users:
            # a back edge: some sub calls an op of higher-or-equal level
            src = rng.choice(users)
            dst = rng.choice([o for o in users if level[o] >= level[src]])
            n, a, body = subs[src]
            if arity[dst] <= n + a:
                pos = rng.randint(0, len(body))
                body = body[:pos] + [(dst, tuple(rng.sample(range(n + a), arity[dst])))] + body[pos:]
                subs[src] = (n, a, body)
    if kind == "missing":
        # an op that is neither primitive nor has a sub
        victims = [o for o in range(NSTD, nops)]
        v = rng.choice(victims)
        subs.pop(v, None)
        prims.discard(v)
    return HP(nops, arity, prims, subs, root)


def _gen_hsub(rng, nargs, naux, usable, arity, kind, length=None, prefer_user=False):
    size = nargs + naux
    body = []
    length = rng.randint(0, 5) if length is None else length
    for _ in range(length):
        cands = [o for o in usable if arity[o] <= size or kind in ("repeat", "arity")]
        if not cands:
            break
        if prefer_user and rng.random() < 0.6:
            u = [o for o in cands if o >= NSTD]
            cands = u or cands
        o = rng.choice(cands)
        k = arity[o]
        if kind == "repeat" and rng.random() < 0.5:
            qs = tuple(rng.randrange(size) for _ in range(k))
        elif kind == "arity" and o >= NSTD and rng.random() < 0.4:
            k2 = max(1, min(size, k + rng.choice([-1, 1])))
            qs = tuple(rng.sample(range(size), k2))
        elif k <= size:
            qs = tuple(rng.sample(range(size), k))
        else:
            qs = tuple(rng.randrange(size) for _ in range(k))
        body.append((o, qs))
    return (nargs, naux, body)


# ---------------------------------------------------------------------------
# the real pipeline
# ---------------------------------------------------------------------------
PATHS = ["linker", "compile_sub", "compile", "link_fn", "linker_reuse", "compile_sub_default"]
VIA_COLLECTOR = {"compile_sub", "compile", "compile_sub_default"}


class Real:
    """real ops / subs for one HProgram.  Every choice of argument form (how a sub is registered, which container
    carries the primitives, ...) derives from the program itself, so that a replay makes the same choices."""

    def __init__(self, hp: HP):
        import random

        from quri_parts.qsub.lib import std
        from quri_parts.qsub.namespace import NameSpace
        from quri_parts.qsub.op import Ident, Op

        _uniq[0] += 1
        ns = NameSpace(f"c19p{_uniq[0]}")
        self.ns = ns
        self.hp = hp
        self.frng = random.Random(repr(hp.key()))
        self.ops = [getattr(std, n) for n, _, _ in PRIMS] + [
            Op(Ident(ns, f"F{o}"), hp.arity[o]) for o in range(NSTD, hp.nops)]
        self.id_of = {op.base_id: i for i, op in enumerate(self.ops)}
        self._subs = {}
        self.forms = {}

    def sub(self, hs):
        """the Sub of an HSub; equal HSubs give the very same Sub object (twins)"""
        from quri_parts.qsub.sub import SubBuilder

        k = _hs_key(hs)
        if k not in self._subs:
            n, a, body = hs
            b = SubBuilder(n)
            aux = b.add_aux_qubits(a)
            names = list(b.qubits) + list(aux)
            for o, qs in body:
                b.add_op(self.ops[o], tuple(names[q] for q in qs))
            self._subs[k] = b.build()
        return self._subs[k]

    def container(self, items):
        """the same items in one of the iterable forms the signatures allow (Iterable[AbstractOp])"""
        f = self.frng.choice(["list", "tuple", "gen", "set", "dictkeys", "reversed"])
        self.forms["prims"] = f
        items = list(items)
        if f == "tuple":
            return tuple(items)
        if f == "gen":
            return (x for x in items)
        if f == "set":
            return set(items)
        if f == "dictkeys":
            return {x: None for x in items}.keys()
        if f == "reversed":
            return list(reversed(items))
        return items

    def register(self, repo, op, sub):
        """register `sub` for `op` through one of the public registration forms; later registrations take precedence
        (the library layers its own specific resolvers over the generic ones this way)"""
        from quri_parts.qsub.sub import SubBuilder

        r = self.frng
        f = r.choice(["sub", "sub", "base_id", "factory", "resolver", "resolver_cond"])
        shadow = r.random() < 0.25
        self.forms.setdefault("register", []).append(f + ("+shadow" if shadow else ""))
        if shadow:  # an earlier registration for the same op that must be overridden
            b = SubBuilder(op.qubit_count)
            b.add_op(self.ops[0], (b.qubits[0],))
            repo.register_sub(op, b.build())
        if f == "sub":
            repo.register_sub(op, sub)
        elif f == "base_id":
            repo.register_sub(op.base_id, sub)
        elif f == "factory":
            repo.register_sub(op, lambda *params: sub)
        elif f == "resolver":
            repo.register_sub_resolver(op, lambda o, rp: sub)
        else:
            repo.register_sub_resolver(op, lambda o, rp: sub, lambda ident: True)
        if shadow:  # a later conditional registration whose condition does not hold: skipped
            repo.register_sub_resolver(op.base_id, lambda o, rp: None, lambda ident: False)

    def link(self, path: str):
        """returns the linked MachineSub; raises whatever the real code raises"""
        from quri_parts.qsub.codegen import CodeGenerator
        from quri_parts.qsub.compile import compile, compile_sub
        from quri_parts.qsub.link import Linker, link
        from quri_parts.qsub.op import Ident, Op
        from quri_parts.qsub.resolve import SubRepository, default_repository

        hp = self.hp
        prims = self.container([self.ops[o] for o in hp.prims])
        root = self.sub(hp.root)
        if path in ("linker", "link_fn", "linker_reuse"):
            cg = CodeGenerator(prims)
            table = {self.ops[o]: cg.lower(self.sub(hs)) for o, hs in hp.subs.items()}
            if path == "linker":
                return Linker(table).link(cg.lower(root))
            if path == "link_fn":
                link(cg.lower(root), table)  # the module-level function links the caller's table in place
                return link(cg.lower(root), table)
            lk = Linker(table)
            for o, hs in list(hp.subs.items())[:2]:  # other entry subs first, then the root, on the same Linker
                lk.link(cg.lower(self.sub(hs)))
            first = lk.link(cg.lower(root))
            if self.frng.random() < 0.5:
                return first
            return Linker(lk.calltable).link(cg.lower(root))
        if path == "compile_sub_default" and any(o < NSTD for o in hp.subs):
            path = "compile_sub"  # never register a sub for a std op in the library's own repository
        repo = default_repository() if path == "compile_sub_default" else SubRepository()
        for o, hs in hp.subs.items():
            self.register(repo, self.ops[o], self.sub(hs))
        if path == "compile_sub":
            return compile_sub(root, prims, repo)
        if path == "compile_sub_default":
            return compile_sub(root, prims)
        if path == "compile":
            entry = Op(Ident(self.ns, "ENTRY"), hp.root[0])
            self.register(repo, entry, root)
            return compile(entry, prims, repo, ()) if self.frng.random() < 0.5 else compile(entry, prims, repository=repo)
        raise InfraError("unknown path " + path)


def exc_name(e):
    n = type(e).__name__
    return {"MachineSubRecursionError": "recursion", "KeyError": "key"}.get(n, n)


class PeakAlloc:
    peak = 0


def observe(real: Real, msub, filt):
    """every observable of the real code on one linked MachineSub"""
    import quri_parts.qsub.eval.quriparts as QPE
    from quri_parts.qsub.allocate import QubitAllocator
    from quri_parts.qsub.eval import AuxQubitCountEvaluatorHooks, GateCountEvaluatorHooks, QURIPartsEvaluatorHooks
    from quri_parts.qsub.evaluate import Evaluator
    from quri_parts.qsub.expand import full_expand

    obs = {}
    peak = {"v": 0}
    alias = []
    # a real evaluator that fails to stop on a cyclic program must fail fast (model call depth is < 40)
    import inspect
    old_limit = sys.getrecursionlimit()
    sys.setrecursionlimit(len(inspect.stack()) + 400)
    try:
        return _observe(real, msub, filt, obs, peak, alias)
    finally:
        sys.setrecursionlimit(old_limit)


def _observe(real, msub, filt, obs, peak, alias):
    import quri_parts.qsub.eval.quriparts as QPE
    from quri_parts.qsub.allocate import QubitAllocator
    from quri_parts.qsub.eval import AuxQubitCountEvaluatorHooks, GateCountEvaluatorHooks, QURIPartsEvaluatorHooks
    from quri_parts.qsub.evaluate import Evaluator
    from quri_parts.qsub.expand import full_expand

    class Alloc(QubitAllocator):
        def allocate(self, n):
            r = super().allocate(n)
            peak["v"] = max(peak["v"], self.total())
            return r

    class Hooks(QURIPartsEvaluatorHooks):
        # in-process observation only: which absolute qubits are live in the callers when a sub is entered
        def enter_sub(self, sub, qubits, regs, call_stack):
            live = set(v.uid for v in (self._qubit_map or {}).values())
            r = super().enter_sub(sub, qubits, regs, call_stack)
            new = [v.uid for v in self._qubit_map_stack[-1].values()]
            if len(call_stack) > 1 and set(new) & live:
                alias.append((sorted(live), new))
            return r

    def gates_of(circ):
        out = []
        for g in circ.gates:
            # a gate outside the vocabulary is an output of the real code (op id 999), not a fault of the harness
            out.append((GATE2ID.get(g.name, 999), tuple(g.control_indices) + tuple(g.target_indices)))
        return out

    # history: one Evaluator object serves all runs on this program (its call stack is re-initialised by run(), also after
    # a run that ended in an exception), or a fresh one per run
    shared = Evaluator(None) if real.frng.random() < 0.5 else None

    def run_with(h, sub):
        if shared is None:
            return Evaluator(h).run(sub)
        shared.hooks = h
        return shared.run(sub)

    saved = QPE.QubitAllocator
    QPE.QubitAllocator = Alloc
    qp_ok = all(o < NSTD for o in real.hp.prims)  # QURIPartsEvaluatorHooks only knows the std gate set
    obs["qp"] = qp_ok
    try:
        try:
            if not qp_ok:
                raise InfraError("skip")
            c = run_with(Hooks(), msub)
            obs["eval"] = ("ok", gates_of(c))
            obs["peak"] = peak["v"]
            obs["qubit_count"] = c.qubit_count
        except InfraError as e:
            if str(e) != "skip":
                raise
            obs["eval"] = None
        except Exception as e:  # noqa: BLE001
            obs["eval"] = ("err", exc_name(e))
        obs["alias"] = alias
    finally:
        QPE.QubitAllocator = saved
    try:
        ex = full_expand(msub)
        insts = []
        for mop, qs, rs in ex.instructions:
            insts.append((real.id_of[mop.op.base_id], tuple(q.uid for q in qs)))
        obs["expand"] = ("ok", insts)
        obs["expand_aux"] = tuple(q.uid for q in ex.aux_qubits)
        obs["expand_args"] = tuple(q.uid for q in ex.qubits)
        try:
            if not qp_ok:
                raise InfraError("skip")
            c2 = run_with(QURIPartsEvaluatorHooks(), ex)
            obs["evalflat"] = ("ok", gates_of(c2))
        except InfraError as e:
            if str(e) != "skip":
                raise
            obs["evalflat"] = None
        except Exception as e:  # noqa: BLE001
            obs["evalflat"] = ("err", exc_name(e))
    except InfraError:
        raise
    except Exception as e:  # noqa: BLE001
        obs["expand"] = ("err", exc_name(e))
    try:
        fops = [real.ops[o] for o in filt]
        form = real.frng.choice(["list", "tuple", "gen", "set"])
        h = GateCountEvaluatorHooks({"list": fops, "tuple": tuple(fops), "gen": (x for x in fops), "set": set(fops)}[form])
        r = run_with(h, msub)
        obs["counts"] = ("ok", {real.id_of[k]: v for k, v in r.items()})
    except Exception as e:  # noqa: BLE001
        obs["counts"] = ("err", exc_name(e))
    # the T-count entry point: documented as GateCountEvaluatorHooks restricted to std.T
    try:
        from quri_parts.qsub.eval.gatecount import TGateCountEvaluatorHooks

        r = run_with(TGateCountEvaluatorHooks(), msub)
        obs["tcount"] = ("ok", {real.id_of[k]: v for k, v in r.items() if v})
    except Exception as e:  # noqa: BLE001
        obs["tcount"] = ("err", exc_name(e))
    try:
        r = run_with(GateCountEvaluatorHooks((real.ops[T_ID],)), msub)
        obs["tcount_ref"] = ("ok", {real.id_of[k]: v for k, v in r.items() if v})
    except Exception as e:  # noqa: BLE001
        obs["tcount_ref"] = ("err", exc_name(e))
    if not qp_ok:
        # user ops as primitives: the quri-parts evaluator has no gate for them
        try:
            c = run_with(QURIPartsEvaluatorHooks(), msub)
            obs["eval_userprim"] = ("ok", gates_of(c))
        except InfraError:
            raise
        except Exception as e:  # noqa: BLE001
            obs["eval_userprim"] = ("err", exc_name(e))
    try:
        obs["aux"] = ("ok", run_with(AuxQubitCountEvaluatorHooks(), msub))
    except Exception as e:  # noqa: BLE001
        obs["aux"] = ("err", exc_name(e))
    return obs


def py_canon(nargs, gates):
    """independent implementation of the canonical renaming by first use"""
    seen = {}
    out = []
    for o, qs in gates:
        r = []
        for q in qs:
            if q >= nargs and q not in seen:
                seen[q] = nargs + len(seen)
            r.append(q if q < nargs else seen[q])
        out.append((o, tuple(r)))
    return out


def enc_gates(gs):
    return ";".join(f"{o}:{','.join(map(str, qs))}" for o, qs in gs)


def dec_gates(s):
    s = s.strip()
    if not s:
        return []
    out = []
    for part in s.split(";"):
        o, qs = part.split(":")
        out.append((int(o), tuple(int(x) for x in qs.split(",")) if qs else ()))
    return out


def dec_res(s):
    s = s.strip()
    if s.startswith("ok"):
        return ("ok", dec_gates(s[2:]))
    return ("err", s[3:].strip())


# ---------------------------------------------------------------------------
# one batch of correspondence cases
# ---------------------------------------------------------------------------
def property_checks(ctx: Ctx, hp: HP, obs, tag):
    """the property itself, on the real code only (no model involved): a failure is a witness"""
    n = hp.root[0]
    inp = {"program": hp.to_json(), "path": tag}
    if obs.get("alias"):
        ctx.witness("aux-alias", "an auxiliary qubit allocated to a sub coincides with a qubit live in a caller", inp,
                    {"live,new": obs["alias"][:2]})
    ev, ex = obs.get("eval"), obs.get("expand")
    if ev and ex and ev[0] == "ok" and ex[0] == "ok":
        fl = obs.get("evalflat")
        if fl and fl[0] == "ok":
            if py_canon(n, ev[1]) != py_canon(n, fl[1]):
                ctx.witness("eval-vs-expand", "hierarchical evaluation differs from evaluation of the fully expanded form "
                            "(after canonical renaming of auxiliaries)", inp,
                            {"hier": enc_gates(ev[1]), "flat": enc_gates(fl[1])})
        elif fl:
            ctx.witness("eval-vs-expand", "evaluating the expanded form raises " + fl[1], inp)
        cnt = obs.get("counts")
        if cnt and cnt[0] == "ok":
            want = {}
            for o, _ in ev[1]:
                if not obs["filt"] or o in obs["filt"]:
                    want[o] = want.get(o, 0) + 1
            if want != cnt[1]:
                ctx.witness("gate-count", "GateCountEvaluatorHooks differs from the number of gates of the generated circuit", inp,
                            {"reported": cnt[1], "actual": want})
        elif cnt:
            ctx.witness("gate-count", "gate counter raises " + cnt[1] + " on a program that evaluates", inp)
        ax = obs.get("aux")
        if ax and ax[0] == "ok":
            if ax[1] != obs["peak"] - n or ax[1] != len(obs["expand_aux"]):
                ctx.witness("aux-count", "AuxQubitCountEvaluatorHooks differs from the peak auxiliary usage", inp,
                            {"reported": ax[1], "allocator_peak_minus_args": obs["peak"] - n, "expanded_aux": len(obs["expand_aux"])})
        elif ax:
            ctx.witness("aux-count", "aux counter raises " + ax[1] + " on a program that evaluates", inp)
        tc = obs.get("tcount")
        if tc and tc[0] == "ok":
            nt = sum(1 for o, _ in ev[1] if o == T_ID)
            if tc[1] != ({T_ID: nt} if nt else {}):
                ctx.witness("gate-count", "TGateCountEvaluatorHooks differs from the number of T gates of the generated circuit", inp,
                            {"reported": tc[1], "actual": nt})
        elif tc:
            ctx.witness("gate-count", "T-gate counter raises " + tc[1] + " on a program that evaluates", inp)
    elif ev and ex and (ev[0] == "ok") != (ex[0] == "ok"):
        ctx.witness("eval-vs-expand", f"one of evaluation / expansion raises and the other does not: {ev[0]}/{ex}", inp)
    up = obs.get("eval_userprim")
    if up and ex and ex[0] == "ok":
        # a primitive without a quri-parts gate must be rejected (ValueError), never skipped; when no such primitive is
        # reachable the circuit is the expanded instruction list
        if any(o >= NSTD for o, _ in ex[1]):
            if up != ("err", "ValueError"):
                ctx.witness("unsupported-primitive-not-rejected", "QURIPartsEvaluatorHooks meets a primitive op without a quri-parts gate "
                            "and does not raise ValueError: " + (up[1] if up[0] == "err" else "returns a circuit"), inp)
        elif up[0] != "ok" or py_canon(n, up[1]) != py_canon(n, ex[1]):
            ctx.witness("eval-vs-expand", "hierarchical evaluation differs from the expanded instruction list "
                        "(user primitives present but unreachable)", inp, {"hier": _short(up), "expanded": enc_gates(ex[1])})


def run_batch(ctx: Ctx, hps, paths, filts):
    """compile with the model, run model and real code, diff everything"""
    creq = [f"c19compile {1 if paths[i] in VIA_COLLECTOR else 0} / " + hp.enc() for i, hp in enumerate(hps)]
    cres = ctx.driver(creq, entry=ENTRY)
    areq, idx = [], []
    for i, (hp, r) in enumerate(zip(hps, cres)):
        if r == "bad-request":
            raise InfraError("driver rejected " + creq[i][:300])
        if r.startswith("ok "):
            idx.append(i)
            areq.append(f"c19all {hp.nops} / {','.join(map(str, filts[i]))} / {r[3:]}")
    ares = dict(zip(idx, ctx.driver(areq, entry=ENTRY)))
    flat_req, flat_meta = [], []
    for i, hp in enumerate(hps):
        real = Real(hp)
        tag = paths[i]
        inp = {"program": hp.to_json(), "path": tag, "filter": filts[i]}
        ctx.traces += 1
        try:
            msub = real.link(tag)
            linked = "ok"
        except Exception as e:  # noqa: BLE001
            linked = exc_name(e)
        mc = cres[i]
        ctx.count("link", linked if linked != "ok" else "ok")
        if linked != "ok":
            want = "err unlinked" if linked == "ValueError" else "err ?" + linked
            if mc != want:
                ctx.disagree("compile/link", inp, "raises " + linked, mc)
            ctx.case(("link-fail",) + hp.key(), True, None)
            continue
        if not mc.startswith("ok "):
            ctx.disagree("compile/link", inp, "links", mc)
            continue
        obs = observe(real, msub, filts[i])
        obs["filt"] = filts[i]
        f = [x.strip() for x in ares[i].split(" # ")]
        if len(f) != 8:
            raise InfraError("driver response: " + ares[i][:300])
        m_eval, m_exp, m_canon, m_aux, m_peak, m_wf, m_acyc, m_counts = f
        nontrivial = any(o >= NSTD for o, _ in hp.root[2])
        ctx.case(hp.key() + (tag, tuple(filts[i])), nontrivial,
                 {"program": mc[3:][:300], "model_eval": m_eval[:160], "aux": m_aux, "wf": m_wf, "acyclic": m_acyc})
        ctx.count("wf", m_wf)
        ctx.count("acyclic", m_acyc)
        ctx.count("depth", str(_depth(hp)))
        ctx.count("outcome", m_eval.split(" ")[0] + ("" if m_eval.startswith("ok") else ":" + m_eval[4:]))
        n = hp.root[0]
        # --- model vs real
        me = dec_res(m_eval)
        if obs["eval"] is not None and obs["eval"] != me:
            ctx.disagree("eval", inp, _short(obs["eval"]), m_eval[:400])
        mx = dec_res(m_exp)
        if obs["expand"] != mx:
            ctx.disagree("expand", inp, _short(obs["expand"]), m_exp[:400])
        if obs["eval"] is not None and obs["eval"][0] == "ok":
            if m_canon != enc_gates(py_canon(n, obs["eval"][1])):
                ctx.disagree("canon", inp, enc_gates(py_canon(n, obs["eval"][1]))[:300], m_canon[:300])
            if str(obs["peak"]) != m_peak:
                ctx.disagree("allocator-peak", inp, obs["peak"], m_peak)
        if obs["expand"][0] == "ok":
            if obs["expand_args"] != tuple(range(n)):
                ctx.disagree("expand-args", inp, obs["expand_args"], tuple(range(n)))
            if sorted(obs["expand_aux"]) != list(range(n, int(m_peak))):
                ctx.disagree("expand-aux-set", inp, sorted(obs["expand_aux"]), f"{n}..{m_peak}")
            if obs["evalflat"] is not None:
              flat_req.append(f"c19flat {n} / {','.join(map(str, obs['expand_aux']))} / {enc_gates(obs['expand'][1])}")
              flat_meta.append((inp, obs, n))
        ma = m_aux.split(" ")
        ra = obs["aux"]
        if (ra[0] == "ok" and m_aux != f"ok {ra[1]}") or (ra[0] == "err" and m_aux != "err " + ra[1]):
            ctx.disagree("aux-count", inp, ra, m_aux)
        rc = obs["counts"]
        mcs = m_counts.split(",")
        if rc[0] == "ok":
            want = [str(rc[1].get(t, 0)) for t in range(hp.nops)]
            if want != mcs:
                ctx.disagree("gate-count", inp, rc[1], m_counts)
        else:
            if any(x != rc[1] for x in mcs):
                ctx.disagree("gate-count", inp, rc, m_counts)
        if obs.get("tcount") != obs.get("tcount_ref"):
            ctx.disagree("tcount", inp, obs.get("tcount"), f"GateCountEvaluatorHooks([T]): {obs.get('tcount_ref')}")
        # theorem hypotheses vs outcome (sanity of the model-level statements on this very input)
        if m_wf == "true" and m_acyc == "true" and not (m_eval.startswith("ok") and m_exp == m_eval):
            ctx.disagree("theorem-instance", inp, "WF ∧ Acyclic", "eval/expand: " + m_eval[:100] + " / " + m_exp[:100])
        if m_wf == "true" and m_acyc == "false" and m_eval != "err recursion":
            ctx.disagree("theorem-instance", inp, "WF ∧ ¬Acyclic", m_eval[:100])
        # --- the property on the real code
        if m_wf == "true":
            property_checks(ctx, hp, obs, tag)
            if m_acyc == "false":
                for what in ("eval", "expand", "counts", "aux"):
                    r = obs.get(what)
                    if r is not None and r != ("err", "recursion"):
                        ctx.witness("cycle-not-rejected", f"a cyclic call graph is not rejected with MachineSubRecursionError by {what}: "
                                    + (r[1] if r[0] == "err" else "returns a result"), {"program": hp.to_json(), "path": tag})
        else:
            # malformed input (repeated / too many call arguments, wrong arity): outside the property; the model still has
            # to agree with the code, and we record whether the two real evaluation routes diverge there
            ev, fl = obs.get("eval"), obs.get("evalflat")
            if ev and fl and (ev[0] != fl[0] or (ev[0] == "ok" and py_canon(n, ev[1]) != py_canon(n, fl[1]))):
                ctx.count("malformed", "eval-and-expand-diverge")
            else:
                ctx.count("malformed", "agree")
    if flat_req:
        for (inp, obs, n), r in zip(flat_meta, ctx.driver(flat_req, entry=ENTRY)):
            a, b = [x.strip() for x in r.split(" # ")]
            if dec_res(a) != obs["evalflat"]:
                ctx.disagree("evalflat", inp, _short(obs["evalflat"]), a[:300])
            elif obs["evalflat"][0] == "ok" and b != enc_gates(py_canon(n, obs["evalflat"][1])):
                ctx.disagree("canon-flat", inp, enc_gates(py_canon(n, obs["evalflat"][1]))[:300], b[:300])


def _short(r):
    return (r[0], enc_gates(r[1])[:400]) if r[0] == "ok" else r


def _depth(hp: HP):
    memo = {}

    def d(o, stack):
        if o in hp.prims or o not in hp.subs or o in stack:
            return 0
        if o not in memo:
            memo[o] = 1 + max([d(x, stack | {o}) for x, _ in hp.subs[o][2]] + [0])
        return memo[o]

    return max([d(x, frozenset()) for x, _ in hp.root[2]] + [0])


def correspond(ctx: Ctx, n_cases: int):
    rng = ctx.rng
    hps, paths, filts = [], [], []
    # corpus first
    cdir = os.path.join(VERIF, "corpus", "C19")
    for fn in sorted(os.listdir(cdir)) if os.path.isdir(cdir) else []:
        if fn.endswith(".json"):
            d = json.load(open(os.path.join(cdir, fn)))
            hps.append(HP.from_json(d["program"]))
            paths.append(d.get("path", "linker"))
            filts.append(d.get("filter", []))
    kinds = ["acyclic"] * 10 + ["cyclic"] * 3 + ["repeat"] * 2 + ["arity", "missing"]
    for _ in range(n_cases):
        k = rng.choice(kinds)
        up = rng.random() < 0.15
        hp = gen_hp(rng, k, user_prims=up)
        ctx.count("kind", k + ("+userprims" if up else ""))
        hps.append(hp)
        paths.append(rng.choice(PATHS))
        ctx.count("path", paths[-1])
        r = rng.random()
        if r < 0.4:
            filts.append([])
        else:
            filts.append(sorted(rng.sample(range(hp.nops), rng.randint(1, 3))))
    run_batch(ctx, hps, paths, filts)



# ---------------------------------------------------------------------------
# translator (library tables) and the wrapper validation against the dense oracle
# ---------------------------------------------------------------------------
def gen(ctx: Ctx):
    with ctx.timed("translate"):
        try:
            txt, n, desc = c19gen.emit()
        except Exception as e:  # noqa: BLE001 – the translator cannot read the tree any more
            ctx.failed_obligations.append({"obligation": "translator.c19gen", "error": f"{type(e).__name__}: {e}"[:300]})
            return None
        ctx.write_generated("C19Lib", txt)
        ctx.generated_entries += n
        try:
            nc, ni = c19gen.count_candidates()
            if nc != len(desc["control"]) or ni != len(desc["inverse"]):
                ctx.failed_obligations.append({"obligation": "translator.entry_count",
                                               "error": f"control rows {len(desc['control'])}/{nc}, inverse rows {len(desc['inverse'])}/{ni}"})
        except Exception as e:  # noqa: BLE001
            ctx.failed_obligations.append({"obligation": "translator.entry_count", "error": str(e)[:200]})
        return desc


UNSAFE_UNDER_CTL = {"H": "controlled-H-order", "SqrtX": "controlled-sqrt-phase", "SqrtXdag": "controlled-sqrt-phase",
                    "SqrtY": "controlled-sqrt-phase", "SqrtYdag": "controlled-sqrt-phase"}
PRIM1 = ["H", "X", "Y", "Z", "S", "Sdag", "T", "Tdag", "SqrtX", "SqrtXdag", "SqrtY", "SqrtYdag", "RX", "RY", "RZ", "Phase"]
PRIM23 = ["CNOT", "CZ", "SWAP", "Toffoli"]


class RealTerms:
    """`repo`: the repository the user subs are registered in (None: the library's default repository).  `decoy`: the same op
    is ALSO registered in the default repository, with another body - the custom repository's definition is the program's."""

    def __init__(self, subs, repo=None, decoy=False, transform=None):
        from quri_parts.qsub.namespace import NameSpace

        self.subs = subs
        self.repo = repo
        self.decoy = decoy
        self.transform = transform  # a Sub -> Sub transformation applied to every user sub before it is registered
        self.cache = {}
        _uniq[0] += 1
        self.ns = NameSpace(f"c19w{_uniq[0]}")

    def op(self, t):
        import math

        from oracle import qsub_dense as QD
        from quri_parts.qsub.lib import std
        from quri_parts.qsub.op import Ident, Op
        from quri_parts.qsub.resolve import default_repository
        from quri_parts.qsub.sub import SubBuilder

        k = t[0]
        if k == "prim":
            o = getattr(std, t[1])
            return o(t[2] * math.pi / 8) if t[1] in QD.PARAM else o
        if k == "user":
            if t[1] not in self.cache:
                nargs, naux, ph, ops = self.subs[t[1]]
                b = SubBuilder(nargs)
                names = list(b.qubits) + list(b.add_aux_qubits(naux))
                for term, qs in ops:
                    b.add_op(self.op(term), tuple(names[q] for q in qs))
                if ph and ph % 2 == 0 and abs(ph) >= 4:
                    b.add_phase(math.pi / 2)  # add_phase accumulates
                    b.add_phase((ph - 2) * math.pi / 4)
                elif ph:
                    b.add_phase(ph * math.pi / 4)
                o = Op(Ident(self.ns, f"W{t[1]}"), nargs)
                built = b.build() if self.transform is None else self.transform(b.build())
                (self.repo if self.repo is not None else default_repository()).register_sub(o, built)
                if self.repo is not None and self.decoy:
                    d = SubBuilder(nargs)
                    d.add_op(std.X, (d.qubits[0],))
                    d.add_op(std.T, (d.qubits[-1],))
                    if nargs >= 2:
                        d.add_op(std.CNOT, (d.qubits[1], d.qubits[0]))
                    default_repository().register_sub(o, d.build())
                self.cache[t[1]] = o
            return self.cache[t[1]]
        if k == "inv":
            return std.Inverse(self.op(t[1]))
        if k == "ctl":
            return std.Controlled(self.op(t[1]))
        return std.MultiControlled(self.op(t[1]), t[2], t[3])


def real_unitary(term, subs, repo=None, decoy=False, entry="compile_sub", transform=None):
    """compile + evaluate with the real code; returns (matrix on the term's qubits, leakage) or raises"""
    import numpy as np

    from oracle import dense
    from oracle import qsub_dense as QD
    from quri_parts.qsub.compile import compile_sub
    from quri_parts.qsub.eval import QURIPartsEvaluatorHooks
    from quri_parts.qsub.evaluate import Evaluator
    from quri_parts.qsub.primitive import AllBasicSet
    from quri_parts.qsub.sub import SubBuilder

    rt = RealTerms(subs, repo, decoy, transform)
    a = QD.arity(term, subs)
    b = SubBuilder(a)
    b.add_op(rt.op(term), b.qubits)
    if repo is None:
        ms = compile_sub(b.build(), AllBasicSet)
    elif entry == "compile":
        from quri_parts.qsub.compile import compile
        from quri_parts.qsub.op import Ident, Op

        eop = Op(Ident(rt.ns, "ENTRY"), a)
        repo.register_sub(eop, b.build())
        ms = compile(eop, AllBasicSet, repo)
    else:
        ms = compile_sub(b.build(), AllBasicSet, repo) if entry == "compile_sub" else compile_sub(b.build(), AllBasicSet, repository=repo)
    circ = Evaluator(QURIPartsEvaluatorHooks()).run(ms)
    n = max(circ.qubit_count, a)
    if n > 9:
        return None, None
    u = dense.circuit_unitary(n, circ.gates)
    d = 1 << a
    leak = float(np.max(np.abs(u[d:, :d]))) if n > a else 0.0
    return u[:d, :d], leak


def gen_angle_k(rng):
    """angle of a parametric op in units of pi/8.  RX/RY/RZ have period 4*pi (R(t + 2*pi) = -R(t)) and Phase has period 2*pi, and
    qsub never normalises an angle, so the whole real line is legal input: inside one turn, exactly +-2*pi / +-4*pi / +-6*pi,
    just around those thresholds, several turns away (odd and even numbers of turns), and off the pi/8 grid"""
    r = rng.random()
    if r < 0.4:
        return rng.randint(-9, 9)
    if r < 0.55:
        return rng.choice([16, -16, 32, -32, 48, -48])
    if r < 0.7:
        return rng.choice([16, 32, 48, 64]) * rng.choice([1, -1]) + rng.choice([-1, 1, 2, -3])
    if r < 0.85:
        return rng.randint(-80, 80)
    return round(rng.uniform(-70, 70), 3)


def gen_term(rng, subs, depth, under_ctl, max_arity):
    from oracle import qsub_dense as QD

    def prim(ar_max):
        pool = list(PRIM1)
        if ar_max >= 2:
            pool += ["CNOT", "CZ", "SWAP"] * 2
        if ar_max >= 3:
            pool += ["Toffoli"] * 2
        name = rng.choice(pool)
        return ("prim", name, gen_angle_k(rng) if name in QD.PARAM else None)

    r = rng.random()
    if depth <= 0 or r < 0.25:
        return prim(max_arity)
    if r < 0.45:
        return ("inv", gen_term(rng, subs, depth - 1, under_ctl, max_arity))
    if r < 0.65 and max_arity >= 2:
        return ("ctl", gen_term(rng, subs, depth - 1, True, max_arity - 1))
    if r < 0.75 and max_arity >= 2:
        bits = rng.randint(1, min(3, max_arity - 1))
        return ("mctl", gen_term(rng, subs, depth - 1, True, max_arity - bits), bits, rng.randrange(1 << bits))
    # a user sub
    nargs = rng.randint(1, max_arity)
    uid = len(subs)
    subs[uid] = None
    ops = []
    naux = 0
    if nargs >= 3 and rng.random() < 0.35:
        naux = 1
        a, b, c = rng.sample(range(nargs), 3)
        mid = [(("prim", rng.choice(["CNOT", "CZ"]), None), (nargs, c))]
        if rng.random() < 0.5:
            mid.append((gen_term(rng, subs, 0, under_ctl, 1), (c,)))
        ops = [(("prim", "Toffoli", None), (a, b, nargs))] + mid + [(("prim", "Toffoli", None), (a, b, nargs))]
    for _ in range(rng.randint(1, 3)):
        t = gen_term(rng, subs, depth - 1, under_ctl, nargs)
        ar = QD.arity(t, subs)
        pos = rng.randint(0, len(ops)) if naux == 0 else rng.choice([0, len(ops)])
        ops.insert(pos, (t, tuple(rng.sample(range(nargs), ar))))
    subs[uid] = (nargs, naux, rng.choice([0, 0, 0, 1, 2, 4, 6, 3, 7, -1, -2, -4, 9, 10, 12, 16]), ops)
    return ("user", uid)


def check_term(ctx, term, subs, tol=1e-7, **how):
    """None if the real code implements the oracle's unitary (up to a global phase), else a description"""
    from oracle import dense
    from oracle import qsub_dense as QD

    try:
        want = QD.unitary(term, subs)
    except QD.NotClean:
        return "skip"
    try:
        got, leak = real_unitary(term, subs, **how)
    except Exception as e:  # noqa: BLE001
        return f"raises {type(e).__name__}: {str(e)[:120]}"
    if got is None:
        return "skip"
    if leak > tol:
        return f"auxiliary qubits are not returned to |0> (leakage {leak:.3g})"
    d = dense.phase_dist(got, want)
    return None if d <= tol else f"unitary differs from the oracle by {d:.4g} (up to a global phase)"


def minimal_bad(ctx, term, subs):
    """descend to a smallest sub-term the real code gets wrong"""
    from oracle import qsub_dense as QD

    for ch in QD.children(term, subs):
        r = check_term(ctx, ch, subs)
        if r not in (None, "skip"):
            return minimal_bad(ctx, ch, subs)
    return term


def term_key(term, subs):
    if term[0] in ("ctl", "mctl"):
        inner = term[1]
        while inner[0] == "inv":
            inner = inner[1]
        if inner[0] == "prim" and inner[1] in UNSAFE_UNDER_CTL:
            return UNSAFE_UNDER_CTL[inner[1]]
    if term[0] == "ctl" and term[1][0] == "inv" and term[1][1][0] == "user" and subs[term[1][1][1]][2] != 0:
        return "inverse-drops-phase"
    if term[0] == "ctl" and term[1][0] == "prim":
        return "controlled:" + term[1][1]
    if term[0] == "inv" and term[1][0] == "prim":
        return "inverse:" + term[1][1]
    return "wrapper:" + term[0] + "(" + term[1][0] + ")" if len(term) > 1 and isinstance(term[1], tuple) else "wrapper:" + term[0]



KNOWN_KEYS = ["controlled-H-order", "controlled-sqrt-phase", "inverse-drops-phase"]


class patched:
    """ATTRIBUTION ONLY: temporarily registers corrected resolvers (in front of the library's own) for the rows that are
    known to be wrong, to decide whether a failing nesting fails *only* because of them.  Never active while a
    verdict about the unchanged code is computed."""

    def __init__(self, keys):
        self.keys = set(keys)
        self.undo = []

    def __enter__(self):
        import dataclasses
        import math

        from quri_parts.qsub.lib import std
        from quri_parts.qsub.lib.std import control as C
        from quri_parts.qsub.lib.std import inverse as I
        from quri_parts.qsub.resolve import default_repository
        from quri_parts.qsub.sub import SubBuilder

        repo = default_repository()
        lc = repo._mapping[std.Controlled.base_id]
        li = repo._mapping[std.Inverse.base_id]

        def add(lst, entry, pos=None):
            if pos is None:
                lst.append(entry)
            else:
                lst.insert(pos, entry)
            self.undo.append((lst, entry))

        if "controlled-H-order" in self.keys:
            def h_res(op, repository):
                b = SubBuilder(op.qubit_count, op.reg_count)
                q0, q1 = b.qubits
                b.add_op(std.RY(-math.pi / 4), (q1,))
                b.add_op(std.CZ, (q0, q1))
                b.add_op(std.RY(math.pi / 4), (q1,))
                return b.build()
            add(lc, (h_res, C.control_target_condition(std.H)))
        if "controlled-sqrt-phase" in self.keys:
            def mk(fn, ang, corr):
                def res(op, repository):
                    b = SubBuilder(op.qubit_count, op.reg_count)
                    q0, q1 = b.qubits
                    fn(b, q0, q1, ang)
                    b.add_op(corr, (q0,))
                    return b.build()
                return res
            add(lc, (mk(C._crx, math.pi / 2, std.T), C.control_target_condition(std.SqrtX)))
            add(lc, (mk(C._crx, -math.pi / 2, std.Tdag), C.control_target_condition(std.SqrtXdag)))
            add(lc, (mk(C._cry, math.pi / 2, std.T), C.control_target_condition(std.SqrtY)))
            add(lc, (mk(C._cry, -math.pi / 2, std.Tdag), C.control_target_condition(std.SqrtYdag)))
        if "inverse-drops-phase" in self.keys:
            def inv_res(op, repository):
                sub = I.inverse_sub_resolver(op, repository)
                target_op = op.id.params[0]
                if sub is None or target_op.self_inverse:
                    return sub
                r = repository.find_resolver(target_op)
                tsub = r(target_op, repository) if r else None
                if tsub is None:
                    return sub
                return dataclasses.replace(sub, phase=(-tsub.phase) % (2 * math.pi))
            add(li, (inv_res, None), pos=1)
        return self

    def __exit__(self, *a):
        for lst, entry in reversed(self.undo):
            for i in range(len(lst) - 1, -1, -1):
                if lst[i] is entry:
                    del lst[i]
                    break
        self.undo = []
        return False


def attribute(ctx, term, subs):
    """key of the known finding that alone explains the mismatch of `term`, or None (a new defect)"""
    with patched(KNOWN_KEYS):
        r = check_term(ctx, term, subs)
    if r not in (None, "skip"):
        return None
    needed = []
    for k in KNOWN_KEYS:
        with patched([x for x in KNOWN_KEYS if x != k]):
            if check_term(ctx, term, subs) not in (None, "skip"):
                needed.append(k)
    return needed[0] if needed else KNOWN_KEYS[0]


def report_bad(ctx, t, subs, r):
    from oracle import qsub_dense as QD

    m = minimal_bad(ctx, t, subs)
    key = attribute(ctx, m, subs)
    if key is None:
        key = term_key(m, subs)
        if key in KNOWN_KEYS:  # the known row is wrong AND something else is: keep them apart
            key = "wrapper:" + key + "+other"
    ctx.witness(key, f"{QD.show(m, subs)}: {check_term(ctx, m, subs)}",
                {"term": QD.show(t, subs), "minimal": QD.show(m, subs), "wrapper_term": m, "wrapper_subs": {str(k): v for k, v in subs.items()}})
    return key


def wrapper_validate(ctx: Ctx, n_random: int):
    from oracle import qsub_dense as QD

    rng = ctx.rng
    n_eval = 0
    # 1. every std op alone under Inverse / Controlled / Controlled∘Controlled / Controlled∘Inverse / MultiControlled
    for name in PRIM1 + PRIM23:
        # parametric ops: inside one turn, and at / beyond the 2*pi and 4*pi thresholds with either sign (an odd and an even
        # number of whole turns away from the principal range), where R(t) and R(t mod 2*pi) differ by the sign that a
        # control turns into a relative phase
        ks = [None] if name not in QD.PARAM else [rng.randint(-9, 9), 3, 16, -16, 32, -32, rng.randint(17, 31), -rng.randint(17, 31),
                                                  rng.randint(33, 47), -rng.randint(33, 47), gen_angle_k(rng)]
        for k in ks:
            base = ("prim", name, k)
            forms = [("inv", base), ("ctl", base), ("ctl", ("inv", base)), ("inv", ("ctl", base)), ("ctl", ("ctl", base)),
                     ("mctl", base, 2, rng.randrange(4))]
            if name in QD.PARAM:
                forms += [("mctl", ("inv", base), 1, 1), ("mctl", ("inv", base), 2, rng.randrange(4)),
                          ("inv", ("mctl", base, 2, rng.randrange(4))), ("ctl", ("inv", ("inv", base)))]
            for t in forms:
                if QD.arity(t, {}) > 5:
                    continue
                r = check_term(ctx, t, {})
                n_eval += 1
                ctx.count("wrapper", "table:" + ("ok" if r is None else "skip" if r == "skip" else "MISMATCH"))
                if r not in (None, "skip"):
                    ctx.count("wrapper_keys", report_bad(ctx, t, {}, r))
    # 1b. Identity: Inverse(Identity) is implemented; control.py has no resolver for Controlled(Identity), the compilation is
    #     refused with ValueError (an unsupported construction, recorded, not a violation); a wrong unitary or any other
    #     exception would be one
    ident = ("prim", "Identity", None)
    for t in (("inv", ident), ("inv", ("inv", ident)), ("ctl", ident), ("ctl", ("inv", ident)), ("mctl", ident, 2, 1)):
        r = check_term(ctx, t, {})
        n_eval += 1
        if r is not None and r != "skip" and t[0] != "inv" and r.startswith("raises ValueError") and "not found in calltable" in r:
            ctx.count("wrapper", "unsupported:" + QD.show(t, {}))
            note = "Controlled(Identity) has no resolver: compile_sub refuses it with ValueError (unsupported construction, no witness)"
            if note not in ctx.notes:
                ctx.notes.append(note)
        elif r not in (None, "skip"):
            ctx.count("wrapper_keys", report_bad(ctx, t, {}, r))
        else:
            ctx.count("wrapper", "identity:ok")
    # 2. tracked global phase of a sub under Controlled, and under Controlled(Inverse(.))
    for ph in (1, 2, 4, 6, 3, -2, -4, 8, 10):
        subs = {0: (1, 0, ph, [(("prim", "X", None), (0,)), (("prim", "T", None), (0,))])}
        for t in (("ctl", ("user", 0)), ("ctl", ("inv", ("user", 0))), ("ctl", ("ctl", ("user", 0)))):
            r = check_term(ctx, t, subs)
            n_eval += 1
            ctx.count("wrapper", "phase:" + ("ok" if r is None else "MISMATCH"))
            if r not in (None, "skip"):
                ctx.count("wrapper_keys", report_bad(ctx, t, subs, r))
    # 2b. a user sub (no tracked phase) containing a rotation of any magnitude, inverted as a whole under a control
    for name in sorted(QD.PARAM):
        for k in (rng.randint(-9, 9), rng.choice([16, -16, 32, -32]), rng.choice([1, -1]) * rng.randint(17, 31), gen_angle_k(rng)):
            subs = {0: (2, 0, 0, [(("prim", "H", None), (1,)), (("prim", name, k), (0,)), (("prim", "CNOT", None), (0, 1))])}
            for t in (("ctl", ("inv", ("user", 0))), ("inv", ("ctl", ("user", 0))), ("mctl", ("inv", ("user", 0)), 2, 3)):
                r = check_term(ctx, t, subs)
                n_eval += 1
                ctx.count("wrapper", "sub-rotation:" + ("ok" if r is None else "skip" if r == "skip" else "MISMATCH"))
                if r not in (None, "skip"):
                    ctx.count("wrapper_keys", report_bad(ctx, t, subs, r))
    # 3. random nestings; a mismatch is attributed to a known finding only if correcting exactly the known rows
    #    (class `patched`) makes this very nesting agree with the oracle
    for _ in range(n_random):
        if sum(v for k, v in ctx.dist.get("wrapper_keys", {}).items() if k not in KNOWN_KEYS) >= 40:
            ctx.notes.append("wrapper validation stopped early: 40 mismatches that the known findings do not explain")
            break
        subs = {}
        t = gen_term(rng, subs, rng.randint(1, 4), False, rng.randint(1, 4))
        r = check_term(ctx, t, subs)
        n_eval += 1
        ctx.count("wrapper", "random:" + ("ok" if r is None else "skip" if r == "skip" else "MISMATCH"))
        ctx.count("wrapper_top", t[0])
        if r not in (None, "skip"):
            ctx.count("wrapper_keys", report_bad(ctx, t, subs, r))
    ctx.evaluations += n_eval
    ctx.extra["oracle_wrapper_evaluations"] = n_eval


_STD_ENTRIES = []


def custom_repository(drop_specific=False):
    """a NON-default SubRepository carrying the library's own resolvers (every registration of the std namespace, in the
    library's order); `drop_specific`: without inverse_controlled_resolver / inverse_multicontrolled_resolver, so that
    Inverse(Controlled(.)) goes through the generic inverse_sub_resolver"""
    from quri_parts.qsub.lib import std
    from quri_parts.qsub.lib.std import inverse as I
    from quri_parts.qsub.resolve import SubRepository, default_repository

    if not _STD_ENTRIES:
        for base, lst in default_repository()._mapping.items():
            if base[0] == std.NS or (base[0].parent is not None and base[0].parent == std.NS):
                for res, cond in lst:
                    _STD_ENTRIES.append((base, res, cond))
    skip = (getattr(I, "inverse_controlled_resolver", None), getattr(I, "inverse_multicontrolled_resolver", None)) if drop_specific else ()
    R = SubRepository()
    for base, res, cond in _STD_ENTRIES:
        if any(res is x for x in skip if x is not None):
            continue
        R.register_sub_resolver(base, res, cond)
    return R


SAFE1 = ["X", "Y", "Z", "S", "Sdag", "T", "Tdag", "RY", "RZ", "Phase"]  # rows of the controlled table without a known defect


def gen_custom_term(rng):
    """wrappers (Inverse / Controlled / MultiControlled) at nesting depth 1-3 around a user sub F - possibly inside another
    user sub G whose body applies a wrapper to F - over ops whose controlled rows are sound"""
    from oracle import qsub_dense as QD

    def prim(ar):
        if ar >= 2 and rng.random() < 0.4:
            return ("prim", rng.choice(["CNOT", "CZ", "SWAP"]), None), 2
        name = rng.choice(SAFE1)
        return ("prim", name, gen_angle_k(rng) if name in QD.PARAM else None), 1

    subs = {}
    nargs = rng.randint(1, 2)
    ops = []
    for _ in range(rng.randint(1, 3)):
        t, ar = prim(nargs)
        ops.append((t, tuple(rng.sample(range(nargs), ar))))
    subs[0] = (nargs, 0, 0, ops)
    core = ("user", 0)
    if rng.random() < 0.35:  # G: a user sub that applies a wrapper to F and a primitive
        w = rng.choice(["inv", "ctl"])
        inner = (w, core)
        gar = nargs + (1 if w == "ctl" else 0)
        gops = [(inner, tuple(rng.sample(range(gar), gar)))]
        t, ar = prim(gar)
        gops.insert(rng.randint(0, 1), (t, tuple(rng.sample(range(gar), ar))))
        subs[1] = (gar, 0, 0, gops)
        core = ("user", 1)
    term = core
    for _ in range(rng.randint(1, 3)):
        ar = QD.arity(term, subs)
        r = rng.random()
        if r < 0.45:
            term = ("inv", term)
        elif r < 0.85 and ar < 4:
            term = ("ctl", term)
        elif ar < 3:
            bits = rng.randint(1, 2)
            term = ("mctl", term, bits, rng.randrange(1 << bits))
        else:
            term = ("inv", term)
    return term, subs


def custom_repo_wrappers(ctx: Ctx, n_cases: int):
    """the same wrapper nestings compiled against a NON-default repository: user ops registered only there, or registered in
    both with DIFFERENT bodies (the custom one is the program's).  Judged against the dense oracle built from the custom
    repository's definitions; a mismatch that the default repository shows as well is handed to the ordinary wrapper report."""
    from oracle import qsub_dense as QD

    rng = ctx.rng
    fixed = [(("inv", ("inv", ("user", 0))), {0: (1, 0, 0, [(("prim", "T", None), (0,)), (("prim", "RZ", 5), (0,))])}),
             (("inv", ("inv", ("inv", ("user", 0)))), {0: (2, 0, 0, [(("prim", "S", None), (1,)), (("prim", "CNOT", None), (1, 0))])}),
             (("inv", ("ctl", ("user", 0))), {0: (1, 0, 0, [(("prim", "T", None), (0,)), (("prim", "Y", None), (0,))])}),
             (("ctl", ("inv", ("user", 0))), {0: (1, 0, 0, [(("prim", "T", None), (0,)), (("prim", "RY", 3), (0,))])}),
             (("ctl", ("ctl", ("user", 0))), {0: (1, 0, 0, [(("prim", "S", None), (0,)), (("prim", "Z", None), (0,))])}),
             (("inv", ("mctl", ("user", 0), 2, 1)), {0: (1, 0, 0, [(("prim", "T", None), (0,))])}),
             (("mctl", ("inv", ("user", 0)), 2, 2), {0: (1, 0, 0, [(("prim", "Tdag", None), (0,)), (("prim", "Phase", 3), (0,))])})]
    cases = [(t, sb, mode, drop) for t, sb in fixed for mode in ("only-custom", "both-different") for drop in (False, True)]
    for _ in range(n_cases):
        t, sb = gen_custom_term(rng)
        cases.append((t, sb, rng.choice(["only-custom", "both-different", "both-different"]), rng.random() < 0.4))
    try:
        custom_repository()
    except Exception as e:  # noqa: BLE001 - a renamed private attribute: a correspondence difference, not a crash
        ctx.disagree("custom-repository", {"what": "copying the std registrations"}, f"{type(e).__name__}: {e}", "SubRepository._mapping")
        return
    n_eval = 0
    for t, sb, mode, drop in cases:
        if QD.arity(t, sb) > 5:
            continue
        entry = rng.choice(["compile_sub", "compile_sub_kw", "compile"])
        r = check_term(ctx, t, sb, repo=custom_repository(drop), decoy=(mode == "both-different"), entry=entry)
        n_eval += 1
        ctx.count("custom_repo", mode + (":generic-only-inverse" if drop else "") + ":" + ("ok" if r is None else "skip" if r == "skip" else "MISMATCH"))
        if r in (None, "skip"):
            continue
        r0 = check_term(ctx, t, sb)
        if r0 not in (None, "skip"):
            ctx.count("wrapper_keys", report_bad(ctx, t, sb, r0))  # not a question of the repository
            continue
        ctx.witness("custom-repository-wrapper", f"{QD.show(t, sb)} compiled against a custom SubRepository ({mode}: the user op is "
                    + ("registered only there" if mode == "only-custom" else "also registered in the default repository with another body")
                    + (", no specific Inverse(Controlled) resolver" if drop else "") + f", entry {entry}): {r}; the default repository gets it right",
                    {"term": QD.show(t, sb), "custom_term": t, "custom_subs": {str(k): v for k, v in sb.items()}, "mode": mode,
                     "drop_specific": drop, "entry": entry})
    ctx.evaluations += n_eval


def sub_transformers_check(ctx: Ctx, n_cases: int):
    """every Sub -> Sub transformation of the public API (trans/: SeparateTranspiler subclasses incl.
    SeparateQURIPartsTranspiler, SequentialTranspiler) applied DIRECTLY to a Sub with a non-zero tracked phase, argument and
    auxiliary registers and auxiliary qubits: (i) field by field - only `operations` may change, and in it only the ops the
    transpiler targets; the argument is not mutated; (ii) by meaning - the transformed Sub registered as an op's definition
    and wrapped in Controlled / MultiControlled is the controlled version of the ORIGINAL definition's unitary (dense
    oracle, phase-sensitive).  (ii) uses chunk transformations that are exact including the global phase (none, SWAP -> 3 CNOT,
    identity) - quri-parts circuit transpilers in general, and Phase -> RZ in convert_to_qp, only promise equality up to a
    global phase, which a direct use under a control would expose without the Sub transformer being at fault."""
    import copy
    import math

    import quri_parts.circuit.transpile as qt
    from oracle import qsub_dense as QD
    from quri_parts.qsub.lib import std
    from quri_parts.qsub.namespace import NameSpace
    from quri_parts.qsub.op import Ident, Op
    from quri_parts.qsub.sub import SubBuilder
    from quri_parts.qsub.trans import SequentialTranspiler
    from quri_parts.qsub.trans.qp_trans import SeparateQURIPartsTranspiler
    from quri_parts.qsub.trans.transpiler import SeparateTranspiler

    rng = ctx.rng

    class IdentityChunks(SeparateTranspiler):
        """a user-defined SeparateTranspiler: chunks of a few std ops, handed back unchanged"""

        @property
        def target_ops(self):
            return {std.CNOT.base_id, std.T.base_id, std.X.base_id, std.RZ.base_id, std.SWAP.base_id}

        def transpile_chunk(self, ops):
            return list(ops)

    def exact_transformers():
        qp0 = SeparateQURIPartsTranspiler([])
        qp1 = SeparateQURIPartsTranspiler((qt.SWAP2CNOTTranspiler(),))
        ident = IdentityChunks()
        return [("SeparateQURIPartsTranspiler([])", qp0, qp0.target_ops), ("SeparateQURIPartsTranspiler((SWAP2CNOT,))", qp1, qp1.target_ops),
                ("user-defined SeparateTranspiler (identity chunks)", ident, ident.target_ops),
                ("SequentialTranspiler([identity chunks, SeparateQURIPartsTranspiler([SWAP2CNOT])])", SequentialTranspiler([ident, qp1]), qp1.target_ops),
                ("SequentialTranspiler(())", SequentialTranspiler(()), set())]

    def any_transformers():
        trs = [t() for t in rng.sample([qt.T2RZTranspiler, qt.S2RZTranspiler, qt.CZ2CNOTHTranspiler, qt.H2RZSqrtXTranspiler,
                                        qt.SWAP2CNOTTranspiler, qt.TOFFOLI2HTTdagCNOTTranspiler, qt.RX2RZSqrtXTranspiler], rng.randint(1, 3))]
        qp = SeparateQURIPartsTranspiler(trs)
        return [("SeparateQURIPartsTranspiler([" + ", ".join(type(t).__name__ for t in trs) + "])", qp, qp.target_ops)]

    # ---- (i) field by field
    for ci in range(n_cases):
        _uniq[0] += 1
        ns = NameSpace(f"c19t{_uniq[0]}")
        nq, nr = rng.randint(1, 3), rng.randint(0, 2)
        b = SubBuilder(nq, nr)
        qn = list(b.qubits) + list(b.add_aux_qubits(rng.randint(0, 2)))
        rn = list(b.registers) + list(b.add_aux_registers(rng.randint(0, 2)))
        other = [Op(Ident(ns, "U"), 1), Op(Ident(ns, "M"), 1, min(1, len(rn)), unitary=False), std.Controlled(std.X)]
        desc = []
        for _ in range(rng.randint(1, 7)):
            if rng.random() < 0.3:
                o = rng.choice([x for x in other if x.qubit_count <= len(qn)])
            else:
                name = rng.choice(["H", "X", "T", "S", "CNOT", "CZ", "SWAP", "RZ", "RX", "Toffoli", "Identity"])
                o = getattr(std, name)
                o = o(rng.uniform(-7, 7)) if name in ("RZ", "RX") else o
            if o.qubit_count > len(qn):
                continue
            qs = rng.sample(range(len(qn)), o.qubit_count)
            rs = rng.sample(range(len(rn)), o.reg_count)
            b.add_op(o, tuple(qn[q] for q in qs), tuple(rn[r] for r in rs))
            desc.append(f"{o.id.local_name}@{qs}" + (f"r{rs}" if rs else ""))
        ph = rng.choice([1, 2, 3, 4, 6, 7, -1]) * math.pi / 4 if rng.random() < 0.8 else rng.uniform(0.1, 6.0)
        b.add_phase(ph)
        sub = b.build()
        before = copy.deepcopy(sub)
        for name, tr, targets in exact_transformers() + any_transformers():
            inp = {"transformer": name, "sub": {"qubits": nq, "registers": nr, "aux_qubits": len(sub.aux_qubits),
                                                "aux_registers": len(sub.aux_registers), "phase": sub.phase, "operations": desc}}
            ctx.traces += 1
            try:
                out = tr(sub)
            except Exception as e:  # noqa: BLE001
                ctx.witness("sub-transformer-field", f"{name} applied to a Sub raises {type(e).__name__}: {str(e)[:100]}", inp)
                continue
            for f in ("qubits", "registers", "aux_qubits", "aux_registers", "phase"):
                try:
                    a, bb = getattr(out, f), getattr(sub, f)
                    same = (a == bb) if f == "phase" else (tuple(a) == tuple(bb))
                except Exception as e:  # noqa: BLE001
                    same, a, bb = False, f"{type(e).__name__}", None
                if not same:
                    ctx.witness("sub-transformer-field", f"{name}: the transformed Sub has another `{f}` than its source "
                                f"({a!r} instead of {bb!r})", inp)
            keep = [(o, tuple(q), tuple(r)) for o, q, r in sub.operations if o.base_id not in targets]
            kept = [(o, tuple(q), tuple(r)) for o, q, r in out.operations if o.base_id not in targets]
            if keep != kept:
                ctx.witness("sub-transformer-field", f"{name}: operations the transpiler does not target were changed, dropped or "
                            "reordered", inp)
            if sub != before:
                ctx.witness("sub-transformer-field", f"{name} mutates the Sub it is applied to", inp)
        ctx.case(("sub-fields", tuple(desc), round(ph, 6)), True, None)
    # ---- (ii) by meaning, under a control
    n_eval = 0
    for ci in range(max(8, n_cases // 2)):
        nargs = rng.randint(1, 2)
        ops = []
        for _ in range(rng.randint(1, 4)):
            if nargs >= 2 and rng.random() < 0.45:
                name, ar, k = rng.choice(["CNOT", "CZ", "SWAP", "SWAP"]), 2, None
            else:
                name = rng.choice(["X", "Y", "Z", "S", "Sdag", "T", "Tdag", "RY", "RZ"])
                ar, k = 1, (gen_angle_k(rng) if name in QD.PARAM else None)
            ops.append((("prim", name, k), tuple(rng.sample(range(nargs), ar))))
        subs = {0: (nargs, 0, rng.choice([1, 2, 3, 4, 6, 7, -1, -2, 5]), ops)}
        t = rng.choice([("ctl", ("user", 0)), ("ctl", ("user", 0)), ("mctl", ("user", 0), 2, rng.randrange(4)), ("ctl", ("ctl", ("user", 0))),
                        ("inv", ("ctl", ("user", 0)))])
        if t[0] == "inv":
            subs[0] = subs[0][:2] + (0,) + subs[0][3:]  # Inverse drops the tracked phase (known finding): keep that apart
            t = ("ctl", ("user", 0))
        for name, tr, _ in exact_transformers():
            r = check_term(ctx, t, subs, transform=tr)
            n_eval += 1
            ctx.count("sub_transformer", "ok" if r is None else "skip" if r == "skip" else "MISMATCH")
            if r in (None, "skip"):
                continue
            r0 = check_term(ctx, t, subs)
            if r0 not in (None, "skip"):
                ctx.count("wrapper_keys", report_bad(ctx, t, subs, r0))  # wrong without any transformer as well
                break
            ctx.witness("sub-transformer-meaning", f"{QD.show(t, subs)} where the sub was first passed through {name}: {r}; without the "
                        "transformer the construction is right", {"term": QD.show(t, subs), "transformer": name})
    ctx.evaluations += n_eval


def _has_ctl_inv_phase(t, subs, under_ctl, under_inv):
    """a sub with a non-zero tracked phase below both a Controlled and an Inverse (known finding inverse-drops-phase)"""
    k = t[0]
    if k == "prim":
        return False
    if k == "user":
        nargs, naux, ph, ops = subs[t[1]]
        if ph and under_ctl and under_inv:
            return True
        return any(_has_ctl_inv_phase(x, subs, under_ctl, under_inv) for x, _ in ops)
    if k == "inv":
        return _has_ctl_inv_phase(t[1], subs, under_ctl, True)
    return _has_ctl_inv_phase(t[1], subs, True, under_inv)


def resolver_structure(ctx: Ctx, n_cases: int):
    """the generic Inverse / Controlled resolvers as program transformations: real resolved sub vs `invSub` / `ctlSub`"""
    import math

    from quri_parts.qsub.lib import std
    from quri_parts.qsub.namespace import NameSpace
    from quri_parts.qsub.op import Ident, Op
    from quri_parts.qsub.resolve import SubRepository, default_repository, resolve_sub
    from quri_parts.qsub.sub import SubBuilder

    rng = ctx.rng
    names = ["H", "X", "T", "S", "CNOT", "CZ", "SWAP", "Toffoli"]
    reqs, meta = [], []
    for ci in range(n_cases):
        _uniq[0] += 1
        ns = NameSpace(f"c19r{_uniq[0]}")
        ops = [getattr(std, n) for n in names] + [Op(Ident(ns, f"G{j}"), rng.randint(1, 3), self_inverse=(rng.random() < 0.3))
                                                   for j in range(3)]
        # ops that are not unitary (measurement-like): both generic resolvers keep them as they are, where they are
        ops += [Op(Ident(ns, f"M{j}"), rng.randint(1, 2), unitary=False) for j in range(2)]
        ar = [o.qubit_count for o in ops]
        nargs, naux = rng.randint(1, 3), rng.randint(0, 2)
        body = []
        for _ in range(rng.randint(0, 6)):
            cands = [i for i in range(len(ops)) if ar[i] <= nargs + naux]
            o = rng.choice(cands)
            body.append((o, tuple(rng.sample(range(nargs + naux), ar[o]))))
        ph = rng.choice([0, 0, 1, 2, 4, 6, 5])
        b = SubBuilder(nargs)
        nm = list(b.qubits) + list(b.add_aux_qubits(naux))
        for o, qs in body:
            b.add_op(ops[o], tuple(nm[q] for q in qs))
        if ph:
            b.add_phase(ph * math.pi / 4)
        F = Op(Ident(ns, "F"), nargs)
        repo = default_repository()
        repo.register_sub(F, b.build())
        prog = f"{nargs} {naux} " + ";".join(f"p{o}:{','.join(map(str, qs))}" for o, qs in body)
        selfinv = [i for i, o in enumerate(ops) if o.self_inverse or not o.unitary]
        pairs = ",".join(f"{i}-{i + 100}" for i in range(len(ops)) if i not in selfinv)
        reqs.append(f"c19inv {pairs} / {prog}")
        reqs.append(f"c19ctl 100 / {prog}")
        meta.append((ops, F, repo, ph, prog, resolve_sub))
    resp = ctx.driver(reqs, entry=ENTRY)
    lad = {4: "Z", 2: "S", 6: "Sdag"}
    for i, (ops, F, repo, ph, prog, resolve_sub) in enumerate(meta):
        idx = {o: j for j, o in enumerate(ops)}

        def enc(sub, wrapper):
            out = []
            for o, qs, rs in sub.operations:
                if o.base_id == wrapper.base_id:
                    out.append(f"p{idx[o.id.params[0]] + 100}:{','.join(str(q.uid) for q in qs)}")
                elif o in idx:
                    out.append(f"p{idx[o]}:{','.join(str(q.uid) for q in qs)}")
                else:
                    out.append(f"?{o.id}:{','.join(str(q.uid) for q in qs)}")
            return f"{len(sub.qubits)} {len(sub.aux_qubits)} " + ";".join(out)

        ctx.traces += 2
        try:
            si = resolve_sub(std.Inverse(F), repo)
            real_i = enc(si, std.Inverse)
            if si.phase != 0 and ph != 0:
                ctx.count("resolver", "inverse-keeps-phase")
        except Exception as e:  # noqa: BLE001
            real_i = "raises " + type(e).__name__
        if real_i.strip() != resp[2 * i].strip():
            ctx.disagree("inverse_sub_resolver", {"sub": prog}, real_i, resp[2 * i])
        try:
            sc = resolve_sub(std.Controlled(F), repo)
            real_c = enc(sc, std.Controlled)
        except Exception as e:  # noqa: BLE001
            real_c = "raises " + type(e).__name__
        want = resp[2 * i + 1].strip()
        # restatement for non-unitary ops (the model's ctlSub controls every op): no control, qubits only shifted
        wf = want.split(" ", 2)
        if len(wf) == 3 and wf[2]:
            insts = []
            for part in wf[2].split(";"):
                o, qs = part.split(":")
                k = int(o[1:]) - 100
                if 0 <= k < len(ops) and not ops[k].unitary:
                    part = f"p{k}:{','.join(qs.split(',')[1:])}"
                    ctx.count("resolver", "non-unitary-under-control")
                insts.append(part)
            want = f"{wf[0]} {wf[1]} " + ";".join(insts)
        if ph:
            extra = f"p{['H', 'X', 'T', 'S'].index(lad[ph]) if lad.get(ph) in ['H', 'X', 'T', 'S'] else -1}:0" if False else None
            # the phase correction op is compared by name below
            tail = real_c.rsplit(";", 1)[-1] if ";" in real_c else real_c.split(" ", 2)[-1]
            head = real_c[: len(real_c) - len(tail)].rstrip(";")
            exp_name = lad.get(ph, "Phase")
            last = sc.operations[-1] if not real_c.startswith("raises") else None
            okp = last is not None and last[0].id.local_name == exp_name and [q.uid for q in last[1]] == [0]
            if not okp:
                ctx.disagree("controlled_sub_resolver.phase", {"sub": prog, "phase_pi_4": ph}, str(last), exp_name + " on control")
            real_c = head
        if real_c.strip() != want:
            ctx.disagree("controlled_sub_resolver", {"sub": prog}, real_c, want)
        ctx.case(("resolver", prog, ph), True, None)


def transpiler_validate(ctx: Ctx, n_cases: int):
    """trans/qp_trans.py: compiling with a SeparateQURIPartsTranspiler leaves the circuit's action unchanged"""
    import numpy as np

    import quri_parts.circuit.transpile as qt
    from oracle import dense
    from quri_parts.qsub.compile import compile_sub
    from quri_parts.qsub.eval import QURIPartsEvaluatorHooks
    from quri_parts.qsub.evaluate import Evaluator
    from quri_parts.qsub.resolve import SubRepository
    from quri_parts.qsub.trans.qp_trans import SeparateQURIPartsTranspiler

    rng = ctx.rng
    pool = [qt.CZ2CNOTHTranspiler, qt.SWAP2CNOTTranspiler, qt.H2RZSqrtXTranspiler, qt.TOFFOLI2HTTdagCNOTTranspiler,
            qt.CNOT2CZHTranspiler, qt.T2RZTranspiler, qt.S2RZTranspiler]
    done = 0
    tries = 0
    while done < n_cases and tries < n_cases * 12:
        tries += 1
        hp = gen_hp(rng, "acyclic")
        if any(o >= NSTD for o in hp.prims) or any(o < NSTD for o in hp.subs) or len(hp.prims) != NSTD:
            continue  # std ops keep their meaning: all primitive, none with a user-defined sub
        real = Real(hp)
        repo = SubRepository()
        for o, hs in hp.subs.items():
            repo.register_sub(real.ops[o], real.sub(hs))
        from quri_parts.qsub.lib import std as _std
        allp = [getattr(_std, n) for n in ["CNOT", "CZ", "H", "Identity", "S", "Sdag", "SqrtX", "SqrtXdag", "SqrtY", "SqrtYdag",
                                            "SWAP", "T", "Tdag", "Toffoli", "X", "Y", "Z", "RX", "RY", "RZ"]]
        trs = [t() for t in rng.sample(pool, rng.randint(1, 3))]
        try:
            c0 = Evaluator(QURIPartsEvaluatorHooks()).run(compile_sub(real.sub(hp.root), allp, repo))
        except Exception:  # noqa: BLE001
            continue
        inp = {"program": hp.to_json(), "transpilers": [type(t).__name__ for t in trs]}
        try:
            c1 = Evaluator(QURIPartsEvaluatorHooks()).run(
                compile_sub(real.sub(hp.root), allp, repo, [SeparateQURIPartsTranspiler(trs)]))
        except Exception as e:  # noqa: BLE001
            ctx.witness("qp-trans", f"compiling with SeparateQURIPartsTranspiler raises {type(e).__name__}: {str(e)[:100]}", inp)
            continue
        n = max(c0.qubit_count, c1.qubit_count)
        if n > 8 or len(c0.gates) == 0:
            continue
        d = dense.phase_dist(dense.circuit_unitary(n, c1.gates), dense.circuit_unitary(n, c0.gates))
        done += 1
        ctx.evaluations += 1
        ctx.count("qp_trans", "ok" if d <= 1e-7 else "MISMATCH")
        if d > 1e-7:
            ctx.witness("qp-trans", f"transpiled compilation differs from the plain one by {d:.3g} (up to phase)", inp)




RICH1 = ["Identity", "H", "X", "Y", "Z", "S", "Sdag", "SqrtX", "SqrtXdag", "SqrtY", "SqrtYdag", "T", "Tdag"]
RICHP = ["RX", "RY", "RZ", "Phase"]
RICH_GATE = {"Toffoli": "TOFFOLI", "Phase": "RZ"}


def rich_programs(ctx: Ctx, n_cases: int):
    """the whole std primitive vocabulary (parametric ops, Phase, Identity, ...) through every compile entry point, with and
    without sub-transpilers; judged on the real code only: compile == compile_sub, hierarchical == expanded (up to renaming),
    counters == circuit, transpiled == untranspiled (dense unitary up to a global phase), unsupported gates rejected"""
    import numpy as np

    import quri_parts.circuit.transpile as qt
    from oracle import dense
    from quri_parts.circuit import QuantumCircuit, gates
    from quri_parts.qsub.compile import compile, compile_sub
    from quri_parts.qsub.eval import AuxQubitCountEvaluatorHooks, GateCountEvaluatorHooks, QURIPartsEvaluatorHooks
    from quri_parts.qsub.evaluate import Evaluator
    from quri_parts.qsub.expand import full_expand
    from quri_parts.qsub.lib import std
    from quri_parts.qsub.namespace import NameSpace
    from quri_parts.qsub.op import Ident, Op
    from quri_parts.qsub.primitive import AllBasicSet
    from quri_parts.qsub.qubit import Qubit
    from quri_parts.qsub.resolve import SubRepository
    from quri_parts.qsub.sub import SubBuilder
    from quri_parts.qsub.trans.qp_trans import SeparateQURIPartsTranspiler, convert_from_qp, convert_to_qp

    rng = ctx.rng
    pool = [qt.CZ2CNOTHTranspiler, qt.SWAP2CNOTTranspiler, qt.H2RZSqrtXTranspiler, qt.TOFFOLI2HTTdagCNOTTranspiler,
            qt.CNOT2CZHTranspiler, qt.T2RZTranspiler, qt.S2RZTranspiler, qt.RX2RZSqrtXTranspiler, qt.RY2RZSqrtXTranspiler,
            qt.Sdag2RZTranspiler, qt.Tdag2RZTranspiler, qt.SqrtX2RXTranspiler, qt.SqrtY2RYTranspiler, qt.X2HZTranspiler,
            qt.Z2HXTranspiler, qt.Identity2RZTranspiler, qt.H2RXRYTranspiler]

    def leaf(maxar):
        r = rng.random()
        if r < 0.3:
            name = rng.choice(RICHP)
            ang = rng.choice([rng.uniform(-7, 7), rng.uniform(-30, 30), rng.randint(-9, 9) * math.pi / 8,
                              rng.choice([2, -2, 4, -4]) * math.pi, 0.0])
            return getattr(std, name)(float(ang)), 1
        if r < 0.6 or maxar < 2:
            return getattr(std, rng.choice(RICH1)), 1
        if r < 0.9 or maxar < 3:
            return getattr(std, rng.choice(["CNOT", "CZ", "SWAP"])), 2
        return std.Toffoli, 3

    def gl(c):
        return [(g.name, tuple(g.control_indices) + tuple(g.target_indices), tuple(g.params)) for g in c.gates]

    def canon(n, gs):
        seen = {}
        out = []
        for name, qs, ps in gs:
            r = []
            for q in qs:
                if q >= n and q not in seen:
                    seen[q] = n + len(seen)
                r.append(q if q < n else seen[q])
            out.append((name, tuple(r), ps))
        return out

    import math

    from quri_parts.qsub.op import SimpleParamOp

    def pu_body(k):
        """body of the parametric user op PU(k) (2 arguments, 1 auxiliary): depends on the parameter"""
        return ([(("std", "T", ()), (0,))] * (k % 3) + [(("std", "RZ", (0.25 * k,)), (1,)), (("std", "CNOT", ()), (0, 2))]
                + ([(("std", "CNOT", ()), (1, 0))] if k % 2 else []) + [(("std", "CNOT", ()), (0, 2))])

    def reference(structs, root):
        """independent restatement: inline every call, callee argument i = i-th call qubit, callee auxiliaries = the next free
        indices above everything live in the callers, released when the callee returns"""
        out = []
        peak = [root[0]]

        def run(st, env, idx):
            nargs, naux, body = st
            loc = list(env) + list(range(idx, idx + naux))
            idx += naux
            peak[0] = max(peak[0], idx)
            for ref, qs in body:
                abs_q = tuple(loc[q] for q in qs)
                if ref[0] == "std":
                    out.append((RICH_GATE.get(ref[1], ref[1]), abs_q, tuple(float(x) for x in ref[2])))
                elif ref[0] == "user":
                    run(structs[ref[1]], abs_q, idx)
                else:
                    run((2, 1, pu_body(ref[1])), abs_q, idx)

        run(root, tuple(range(root[0])), root[0])
        return out, peak[0] - root[0]

    for ci in range(n_cases):
        _uniq[0] += 1
        ns = NameSpace(f"c19x{_uniq[0]}")
        nuser = rng.randint(1, 4)
        uops = [Op(Ident(ns, f"U{j}"), rng.randint(1, 3)) for j in range(nuser)]
        PU = SimpleParamOp((ns, "PU"), 2)
        repo = SubRepository()
        desc = []
        structs = []

        def real_of(ref):
            if ref[0] == "std":
                o = getattr(std, ref[1])
                return o(*ref[2]) if ref[2] else o
            if ref[0] == "user":
                return uops[ref[1]]
            return PU(ref[1])

        def build_from(st):
            nargs, naux, body = st
            b = SubBuilder(nargs)
            names = list(b.qubits) + list(b.add_aux_qubits(naux))
            for ref, qs in body:
                b.add_op(real_of(ref), tuple(names[q] for q in qs))
            return b

        def build(nargs, naux, usable, length):
            size = nargs + naux
            body = []
            for _ in range(length):
                r = rng.random()
                if usable and r < 0.4:
                    j = rng.choice(usable)
                    if uops[j].qubit_count > size:
                        continue
                    ref, ar = ("user", j), uops[j].qubit_count
                elif r < 0.55 and size >= 2:
                    ref, ar = ("pu", rng.randint(0, 5)), 2
                else:
                    o, ar = leaf(size)
                    ref = ("std", o.id.local_name, tuple(o.id.params))
                body.append((ref, tuple(rng.sample(range(size), ar))))
            st = (nargs, naux, body)
            b = build_from(st)
            if rng.random() < 0.2:
                b.add_phase(rng.choice([1, 2, 4]) * math.pi / 4)
            desc.append(f"({nargs}+{naux}: " + "; ".join(f"{r[1]}{list(r[2]) if r[0] == 'std' and r[2] else ''}@{list(q)}"
                                                         if r[0] != "pu" else f"PU<{r[1]}>@{list(q)}" for r, q in body) + ")")
            return st, b.build()

        for j, o in enumerate(uops):
            st, sb = build(o.qubit_count, rng.randint(0, 1), list(range(j)), rng.randint(1, 4))
            structs.append(st)
            repo.register_sub(o, sb)
        # the parametric user op: one registration for the whole family, the sub depends on the parameter
        pu_form = rng.choice(["factory", "resolver"])
        if pu_form == "factory":
            repo.register_sub(PU, lambda k: build_from((2, 1, pu_body(k))).build())
        else:
            repo.register_sub_resolver(PU, lambda o, rp: build_from((2, 1, pu_body(o.id.params[0]))).build())
        nroot = rng.randint(1, 3)
        root_st, root = build(nroot, rng.randint(0, 1), list(range(nuser)), rng.randint(1, 5))
        entry = Op(Ident(ns, "ENTRY"), nroot)
        repo.register_sub(entry, root)
        pform = rng.choice(["as-is", "list", "reversed", "gen"])

        class _P:  # a fresh iterable per use (a generator is consumed by the call it is passed to)
            def __iter__(self):
                return iter({"as-is": AllBasicSet, "list": list(AllBasicSet), "reversed": tuple(reversed(AllBasicSet)),
                             "gen": (x for x in AllBasicSet)}[pform])
        prims = _P() if pform == "gen" else {"as-is": AllBasicSet, "list": list(AllBasicSet), "reversed": tuple(reversed(AllBasicSet))}[pform]
        inp = {"subs U0..": desc[:-1], "root": desc[-1], "PU<k>": "T@[0] x (k%3); RZ(0.25k)@[1]; CNOT@[0,aux]; CNOT@[1,0] if k odd; CNOT@[0,aux]"}
        ctx.traces += 1
        try:
            ms1 = compile_sub(root, prims, repo)
            ms2 = compile(entry, prims, repo)
            g1 = gl(Evaluator(QURIPartsEvaluatorHooks()).run(ms1))
            g2 = gl(Evaluator(QURIPartsEvaluatorHooks()).run(ms2))
            fe = full_expand(ms1)
            gf = gl(Evaluator(QURIPartsEvaluatorHooks()).run(fe))
            cnt = Evaluator(GateCountEvaluatorHooks()).run(ms2)
            aux = Evaluator(AuxQubitCountEvaluatorHooks()).run(ms2)
        except InfraError:
            raise
        except Exception as e:  # noqa: BLE001
            ctx.witness("rich-program-raises", f"a well-formed acyclic program over the std primitives raises {type(e).__name__}: {str(e)[:100]}", inp)
            continue
        ref, ref_peak = reference(structs, root_st)
        if canon(nroot, g1) != canon(nroot, ref):
            ctx.witness("eval-vs-reference", "hierarchical evaluation differs from the reference inlining of the program "
                        "(std vocabulary, parametric user op)", inp, {"real": str(g1)[:400], "reference": str(ref)[:400]})
        ctx.case(("rich", tuple(desc)), True, None)
        if g1 != g2:
            ctx.witness("compile-vs-compile_sub", "compile(entry_op) and compile_sub(entry_sub) evaluate to different circuits", inp,
                        {"compile_sub": str(g1)[:300], "compile": str(g2)[:300]})
        if canon(nroot, g1) != canon(nroot, gf):
            ctx.witness("eval-vs-expand", "hierarchical evaluation differs from evaluation of the fully expanded form (std vocabulary "
                        "with parametric ops)", inp, {"hier": str(g1)[:300], "flat": str(gf)[:300]})
        want = {}
        for name, _, _ in g1:
            want[name] = want.get(name, 0) + 1
        got = {}
        for k, v in cnt.items():
            nm = RICH_GATE.get(k[1], k[1])
            got[nm] = got.get(nm, 0) + v
        if {k: v for k, v in got.items() if v} != want:
            ctx.witness("gate-count", "GateCountEvaluatorHooks differs from the number of gates of the generated circuit", inp,
                        {"reported": got, "actual": want})
        used = max([q for _, qs, _ in g1 for q in qs] + [nroot - 1]) + 1 - nroot
        if aux != len(fe.aux_qubits) or aux < used or aux != ref_peak:
            ctx.witness("aux-count", "AuxQubitCountEvaluatorHooks differs from the auxiliary usage of the generated circuit", inp,
                        {"reported": aux, "expanded_aux": len(fe.aux_qubits), "highest_aux_index_used": used, "reference_peak": ref_peak})
        # --- sub-transpilers, both entry points
        trs = [t() for t in rng.sample(pool, rng.randint(1, 4))]
        tin = dict(inp, transpilers=[type(t).__name__ for t in trs])
        nq = max([q for _, qs, _ in g1 for q in qs] + [0]) + 1
        for which in ("compile_sub", "compile"):
            try:
                st = [SeparateQURIPartsTranspiler(trs)] if rng.random() < 0.5 else (SeparateQURIPartsTranspiler(tuple(trs)),)
                ms3 = compile_sub(root, prims, repo, st) if which == "compile_sub" else compile(entry, prims, repo, st)
                c3 = Evaluator(QURIPartsEvaluatorHooks()).run(ms3)
            except Exception as e:  # noqa: BLE001
                ctx.witness("qp-trans", f"{which} with SeparateQURIPartsTranspiler raises {type(e).__name__}: {str(e)[:100]}", tin)
                continue
            n = max(nq, c3.qubit_count)
            if n > 8 or not g1:
                continue
            c1 = QuantumCircuit(n)
            for name, qs, ps in g1:
                c1.add_gate(_mk_gate(gates, name, qs, ps))
            dist = dense.phase_dist(dense.circuit_unitary(n, c3.gates), dense.circuit_unitary(n, c1.gates))
            ctx.evaluations += 1
            ctx.count("qp_trans", f"{which}:" + ("ok" if dist <= 1e-7 else "MISMATCH"))
            if dist > 1e-7:
                ctx.witness("qp-trans", f"{which} with sub-transpilers differs from the plain compilation by {dist:.3g} (up to phase)", tin)
        # --- a circuit transpiler that emits a gate the converter has no op for: rejected, never dropped
        if g1 and ci % 4 == 0:
            def bad_tr(c):
                c2 = QuantumCircuit(c.qubit_count)
                c2.extend(c.gates)
                c2.add_gate(gates.U1(0, 0.25))
                return c2
            which = rng.choice(["compile_sub", "compile"])
            try:
                st = [SeparateQURIPartsTranspiler([bad_tr])]
                ms4 = compile_sub(root, prims, repo, st) if which == "compile_sub" else compile(entry, prims, repo, st)
                c4 = gl(Evaluator(QURIPartsEvaluatorHooks()).run(ms4))
                ctx.witness("qp-trans-unsupported-gate-not-rejected", f"{which}: a circuit transpiler emits U1 (no qsub op) and the "
                            "compilation succeeds" + (" with the gate dropped" if len(c4) == len(g1) else ""), tin)
            except ValueError:
                ctx.count("qp_trans", "unsupported-gate-rejected")
            except Exception as e:  # noqa: BLE001
                ctx.witness("qp-trans-unsupported-gate-not-rejected", f"{which}: unsupported gate raises {type(e).__name__} instead of ValueError", tin)
        # --- the converters alone
        if ci % 3 == 0:
            ops = []
            for _ in range(rng.randint(1, 6)):
                o, ar = leaf(3)
                base = rng.choice([0, 0, 3])
                ops.append((o, tuple(Qubit(base + q) for q in rng.sample(range(4), ar)), ()))
            cin = {"ops": [f"{o.id.local_name}{list(o.id.params)}@{[q.uid for q in qs]}" for o, qs, _ in ops]}
            try:
                circ = convert_to_qp(ops if rng.random() < 0.5 else tuple(ops))
                wantg = [(RICH_GATE.get(o.id.local_name, o.id.local_name), tuple(q.uid for q in qs), tuple(o.id.params)) for o, qs, _ in ops]
                back = convert_from_qp(circ)
                wantb = [((std.RZ(o.id.params[0]) if o.base_id == std.Phase.base_id else o), tuple(qs), ()) for o, qs, _ in ops]
                if gl(circ) != wantg or circ.qubit_count != 1 + max(q.uid for _, qs, _ in ops for q in qs):
                    ctx.witness("qp-trans-convert", "convert_to_qp does not produce the ops' gates on the ops' qubits", cin, {"got": str(gl(circ))[:300]})
                elif [(o, tuple(qs), tuple(rs)) for o, qs, rs in back] != wantb:
                    ctx.witness("qp-trans-convert", "convert_from_qp(convert_to_qp(ops)) differs from ops (Phase as RZ)", cin)
            except Exception as e:  # noqa: BLE001
                ctx.witness("qp-trans-convert", f"converting supported ops raises {type(e).__name__}: {str(e)[:100]}", cin)
            try:
                convert_to_qp(ops + [(uops[0], tuple(Qubit(i) for i in range(uops[0].qubit_count)), ())])
                ctx.witness("qp-trans-unsupported-gate-not-rejected", "convert_to_qp accepts an op without a quri-parts gate", cin)
            except ValueError:
                pass
            except Exception as e:  # noqa: BLE001
                ctx.witness("qp-trans-unsupported-gate-not-rejected", f"convert_to_qp on an unsupported op raises {type(e).__name__}", cin)


def _mk_gate(gates, name, qs, ps):
    f = getattr(gates, name)
    return f(*qs, *ps)


def register_expand_check(ctx: Ctx, n_cases: int):
    """registers go through `_expand` exactly like qubits (RegisterAllocator / map_registers): the same model function is run
    on the register view and on the qubit view of programs whose ops carry both"""
    from quri_parts.qsub.codegen import CodeGenerator
    from quri_parts.qsub.expand import full_expand
    from quri_parts.qsub.link import Linker
    from quri_parts.qsub.namespace import NameSpace
    from quri_parts.qsub.op import Ident, Op
    from quri_parts.qsub.sub import SubBuilder

    rng = ctx.rng
    reqs, meta = [], []
    for _ in range(n_cases):
        _uniq[0] += 1
        ns = NameSpace(f"c19g{_uniq[0]}")
        sig = [(1, 1), (0, 2), (1, 0), (2, 1)]  # leaf ops: (qubits, registers)
        nleaf = len(sig)
        nuser = rng.randint(1, 4)
        for _j in range(nuser):
            sig.append((rng.randint(1, 2), rng.randint(0, 2)))
        ops = [Op(Ident(ns, f"P{i}"), q, r, unitary=False) for i, (q, r) in enumerate(sig)]
        hs = {}
        nroot = (rng.randint(1, 2), rng.randint(0, 2))

        def body(qa, ra, usable):
            qx, rx = rng.randint(0, 1), rng.randint(0, 2)
            out = []
            for _k in range(rng.randint(1, 4)):
                c = [o for o in usable if sig[o][0] <= qa + qx and sig[o][1] <= ra + rx]
                if not c:
                    break
                o = rng.choice(c)
                out.append((o, tuple(rng.sample(range(qa + qx), sig[o][0])), tuple(rng.sample(range(ra + rx), sig[o][1]))))
            return (qa, qx, ra, rx, out)

        for o in range(nleaf, nleaf + nuser):
            hs[o] = body(sig[o][0], sig[o][1], list(range(o)))
        root = body(nroot[0], nroot[1], list(range(len(sig))))

        def real_sub(h):
            qa, qx, ra, rx, out = h
            b = SubBuilder(qa, ra)
            qn = list(b.qubits) + list(b.add_aux_qubits(qx))
            rn = list(b.registers) + list(b.add_aux_registers(rx))
            for o, qs, rs in out:
                b.add_op(ops[o], tuple(qn[q] for q in qs), tuple(rn[r] for r in rs))
            return b.build()

        cg = CodeGenerator(ops[:nleaf])
        try:
            ms = Linker({ops[o]: cg.lower(real_sub(h)) for o, h in hs.items()}).link(cg.lower(real_sub(root)))
            ex = full_expand(ms)
            idx = {op.base_id: i for i, op in enumerate(ops)}
            real_q = ("ok", [(idx[m.op.base_id], tuple(q.uid for q in qs)) for m, qs, rs in ex.instructions])
            real_r = ("ok", [(idx[m.op.base_id], tuple(r.uid for r in rs)) for m, qs, rs in ex.instructions])
            real_ar = sorted(r.uid for r in ex.aux_registers)
        except Exception as e:  # noqa: BLE001
            real_q = real_r = ("err", exc_name(e))
            real_ar = None

        def view(h, which):
            qa, qx, ra, rx, out = h
            a, x = (qa, qx) if which == "q" else (ra, rx)
            return f"{a} {x} " + ";".join(f"{o}:{','.join(map(str, (qs if which == 'q' else rs)))}" for o, qs, rs in out)

        for which in ("q", "r"):
            subs = " | ".join(view(hs[o], which) if o in hs else "-" for o in range(len(sig)))
            reqs.append(f"c19compile 0 / {','.join(map(str, range(nleaf)))} / {view(root, which)} / {subs}")
        meta.append((real_q, real_r, real_ar, root))
    comp = ctx.driver(reqs, entry=ENTRY)
    areq = [f"c19all {8} / / {r[3:]}" for r in comp if r.startswith("ok ")]
    if len(areq) != len(comp):
        raise InfraError("register view: model compile failed: " + str([r for r in comp if not r.startswith('ok ')][:2]))
    ares = ctx.driver(areq, entry=ENTRY)
    for i, (real_q, real_r, real_ar, root) in enumerate(meta):
        for j, (which, real) in enumerate((("q", real_q), ("r", real_r))):
            f = [x.strip() for x in ares[2 * i + j].split(" # ")]
            ctx.traces += 1
            if dec_res(f[1]) != real:
                ctx.disagree("expand-" + ("qubits" if which == "q" else "registers"), {"request": reqs[2 * i + j]}, _short(real), f[1][:300])
            if which == "r" and real[0] == "ok" and real_ar != list(range(root[2], int(f[4]))):
                ctx.disagree("expand-aux-registers", {"request": reqs[2 * i + j]}, real_ar, f"{root[2]}..{f[4]}")
        ctx.case(("regs", reqs[2 * i + 1]), True, None)


# ---------------------------------------------------------------------------
# one-level expansion, unlinked programs, evaluator / allocator API (judged by direct restatements, no model)
# ---------------------------------------------------------------------------
def inline_spec(ms, ex):
    """`ex` is `ms` with every top-level call replaced by the callee's instructions: callee arguments become the call-site
    qubits, callee auxiliaries become names that no local of `ms` has (they may be shared between different inlined calls),
    everything else is unchanged up to one consistent injective renaming of the locals of `ms` (arguments by position).
    Returns None or a description of the first difference."""
    from quri_parts.qsub.machineinst import is_primitive, is_subcall

    rho, fresh = {}, set()

    def bind(m, a, b):
        if a in m:
            return m[a] == b
        if b in m.values():
            return False
        m[a] = b
        return True

    if len(ex.qubits) != len(ms.qubits):
        return "argument count changed"
    for a, b in zip(ms.qubits, ex.qubits):
        if not bind(rho, a, b):
            return "arguments are not renamed injectively"
    out = list(ex.instructions)
    pos = 0
    for mop, qs, rs in ms.instructions:
        if is_subcall(mop):
            callee = mop.sub
            if callee is None:
                return "unlinked"
            args = {a: q for a, q in zip(callee.qubits, qs)}
            mu = {}
            for cm, cqs, crs in callee.instructions:
                if pos >= len(out):
                    return "instructions missing"
                em, eqs, ers = out[pos]
                pos += 1
                if type(em) is not type(cm) or em.op != cm.op or len(eqs) != len(cqs):
                    return f"instruction {pos - 1}: {em.op.id.local_name} where the callee has {cm.op.id.local_name}"
                if is_subcall(cm) and em.sub is not cm.sub:
                    return f"instruction {pos - 1}: the inlined call has another callee"
                for x, y in zip(cqs, eqs):
                    if x in args:
                        if not bind(rho, args[x], y):
                            return f"instruction {pos - 1}: callee argument is not the call-site qubit"
                    elif not bind(mu, x, y):
                        return f"instruction {pos - 1}: callee auxiliaries are not renamed injectively"
            fresh |= set(mu.values())
        else:
            if pos >= len(out):
                return "instructions missing"
            em, eqs, ers = out[pos]
            pos += 1
            if not is_primitive(em) or em.op != mop.op or len(eqs) != len(qs):
                return f"instruction {pos - 1}: primitive changed"
            for x, y in zip(qs, eqs):
                if not bind(rho, x, y):
                    return f"instruction {pos - 1}: qubits of a primitive changed"
    if pos != len(out):
        return "extra instructions"
    live = set(rho.values()) | set(ex.qubits)
    if fresh & live:
        return f"an inlined auxiliary coincides with a qubit of the caller: {sorted(q.uid for q in fresh & live)}"
    aux = list(ex.aux_qubits)
    if len(set(aux)) != len(aux) or set(aux) & set(ex.qubits):
        return "aux_qubits of the result repeat a name or contain an argument"
    need = fresh | {rho[a] for a in ms.aux_qubits if a in rho}
    if not need <= set(aux):
        return "an auxiliary used by the result is not listed in its aux_qubits"
    return None


def _weak(n, gates):
    """what every correct partial inlining preserves of the generated circuit: the op sequence and the argument
    positions (auxiliaries may be shared differently, cf. inline_spec)"""
    return [(o, tuple(q if q < n else -1 for q in qs)) for o, qs in gates]


def expand_levels_check(ctx: Ctx, n_cases: int, fixed=None):
    """`expand(sub)` / `expand(sub, recursive=False)` (one level), iterated to the fixed point, against `full_expand`;
    the partially expanded programs are themselves programs: the property is checked on them too"""
    from quri_parts.qsub.eval import AuxQubitCountEvaluatorHooks, GateCountEvaluatorHooks, QURIPartsEvaluatorHooks
    from quri_parts.qsub.evaluate import Evaluator
    from quri_parts.qsub.expand import expand, full_expand
    from quri_parts.qsub.machineinst import is_subcall

    rng = ctx.rng
    done = 0

    def cands():
        if fixed is not None:
            yield from fixed
            return
        for _ in range(n_cases * 3):
            yield gen_hp(rng, "acyclic"), rng.choice(PATHS)

    for hp, path in cands():
        if done >= n_cases and fixed is None:
            break
        if any(o >= NSTD for o in hp.prims):
            continue
        real = Real(hp)
        try:
            ms = real.link(path)
        except Exception:  # noqa: BLE001 - judged by run_batch
            continue
        n = hp.root[0]
        inp = {"program": hp.to_json(), "path": path, "entry": "expand"}

        def gl(c):
            return [(GATE2ID.get(g.name, -1), tuple(g.control_indices) + tuple(g.target_indices)) for g in c.gates]

        try:
            g0 = gl(Evaluator(QURIPartsEvaluatorHooks()).run(ms))
            c0 = dict(Evaluator(GateCountEvaluatorHooks()).run(ms))
            fe = full_expand(ms)
        except Exception:  # noqa: BLE001 - judged by run_batch
            continue
        done += 1
        ctx.traces += 1
        try:
            fe2 = expand(ms, True)
            same = (list(fe2.instructions) == list(fe.instructions) and tuple(fe2.qubits) == tuple(fe.qubits)
                    and set(fe2.aux_qubits) == set(fe.aux_qubits))
            if not same:
                ctx.witness("expand-entry-points", "expand(sub, True) differs from full_expand(sub)", inp)
            cur = ms
            steps = 0
            while any(is_subcall(m) for m, _, _ in cur.instructions):
                steps += 1
                if steps > 12:
                    ctx.witness("expand-one-level", "iterated one-level expansion of an acyclic program does not terminate", inp)
                    break
                nxt = expand(cur) if steps % 2 else expand(cur, recursive=False)
                why = inline_spec(cur, nxt)
                if why:
                    ctx.witness("expand-one-level", f"expand(sub) is not the one-level inlining of sub (step {steps}): {why}", inp)
                    break
                g1 = gl(Evaluator(QURIPartsEvaluatorHooks()).run(nxt))
                if _weak(n, g1) != _weak(n, g0):
                    ctx.witness("expand-one-level", f"evaluating the one-level expansion (step {steps}) gives other gates than "
                                "evaluating the program", inp, {"program": enc_gates(g0), "expanded": enc_gates(g1)})
                    break
                c1 = dict(Evaluator(GateCountEvaluatorHooks()).run(nxt))
                if {k: v for k, v in c1.items() if v} != {k: v for k, v in c0.items() if v}:
                    ctx.witness("gate-count", f"gate counts change under one-level expansion (step {steps})", inp)
                    break
                # the partially expanded program as an input of its own
                obs = observe(real, nxt, [])
                obs["filt"] = []
                property_checks(ctx, hp, obs, f"{path}+expand^{steps}")
                cur = nxt
            else:
                flat = [(real.id_of.get(m.op.base_id, -1), tuple(q.uid for q in qs)) for m, qs, _ in cur.instructions]
                ref = [(real.id_of.get(m.op.base_id, -1), tuple(q.uid for q in qs)) for m, qs, _ in fe.instructions]
                if _weak(n, flat) != _weak(n, ref):
                    ctx.witness("expand-one-level", "the fixed point of one-level expansion differs from full_expand", inp,
                                {"fixed_point": enc_gates(flat), "full_expand": enc_gates(ref)})
            ctx.count("expand_levels", str(steps))
            # nothing above may have changed the program itself
            g9 = gl(Evaluator(QURIPartsEvaluatorHooks()).run(ms))
            if g9 != g0 or list(full_expand(ms).instructions) != list(fe.instructions):
                ctx.witness("expand-mutates-input", "expanding a program changes what the program itself evaluates to", inp)
        except InfraError:
            raise
        except Exception as e:  # noqa: BLE001
            ctx.witness("expand-one-level", f"one-level expansion of a well-formed acyclic program raises {type(e).__name__}: {str(e)[:100]}", inp)
        ctx.case(("expand-levels",) + hp.key() + (path,), True, None)


def unlinked_check(ctx: Ctx, n_cases: int, fixed=None):
    """a SubCall that was never linked must be rejected (ValueError) by every evaluator and by expansion, at the top level
    and below a linked call; it is never skipped"""
    from quri_parts.qsub.codegen import CodeGenerator
    from quri_parts.qsub.eval import AuxQubitCountEvaluatorHooks, GateCountEvaluatorHooks, QURIPartsEvaluatorHooks
    from quri_parts.qsub.evaluate import Evaluator
    from quri_parts.qsub.expand import expand, full_expand
    from quri_parts.qsub.machineinst import is_subcall

    rng = ctx.rng
    done = 0

    def cands():
        if fixed is not None:
            yield from fixed
            return
        for _ in range(n_cases * 4):
            yield gen_hp(rng, "acyclic"), rng.random() < 0.5

    for hp, deep in cands():
        if done >= n_cases and fixed is None:
            break
        if any(o >= NSTD for o in hp.prims):
            continue
        real = Real(hp)
        cg = CodeGenerator([real.ops[o] for o in hp.prims])
        top = cg.lower(real.sub(hp.root))
        calls = [m for m, _, _ in top.instructions if is_subcall(m)]
        if not calls:
            continue
        reach_unlinked = True
        if deep:
            # link the top-level calls only: the unlinked call (if any) sits one level down
            for m in calls:
                oid = real.id_of[m.op.base_id]
                if oid not in hp.subs:
                    break
                m.sub = cg.lower(real.sub(hp.subs[oid]))
            else:
                reach_unlinked = any(is_subcall(x) for m in calls for x, _, _ in m.sub.instructions)
            if any(m.sub is None for m in calls):
                reach_unlinked = True
        if not reach_unlinked:
            continue
        done += 1
        ctx.traces += 1
        inp = {"program": hp.to_json(), "entry": "unlinked", "linked_levels": 1 if deep else 0}
        runs = {"Evaluator/QURIParts": lambda: Evaluator(QURIPartsEvaluatorHooks()).run(top),
                "Evaluator/GateCount": lambda: Evaluator(GateCountEvaluatorHooks()).run(top),
                "Evaluator/AuxQubitCount": lambda: Evaluator(AuxQubitCountEvaluatorHooks()).run(top),
                "full_expand": lambda: full_expand(top)}
        if not deep:
            runs["expand"] = lambda: expand(top)
        for name, f in runs.items():
            try:
                f()
                got = "returns a result"
            except ValueError:
                continue
            except Exception as e:  # noqa: BLE001
                got = "raises " + type(e).__name__
            ctx.witness("unlinked-not-rejected", f"{name} on a program with an unlinked SubCall {got} instead of raising ValueError", inp)
        ctx.case(("unlinked",) + hp.key() + (deep,), True, None)
        ctx.count("unlinked", "below-a-call" if deep else "top-level")


def evaluator_reuse_check(ctx: Ctx, n_cases: int, fixed=None):
    """history on one Evaluator object: a run that ended in MachineSubRecursionError, then runs on subs of the same linked
    program (some of them were on the call stack when the error was raised): `run` starts every evaluation afresh, so
    the results are those of a new Evaluator"""
    from quri_parts.qsub.eval import AuxQubitCountEvaluatorHooks, GateCountEvaluatorHooks, QURIPartsEvaluatorHooks
    from quri_parts.qsub.evaluate import Evaluator
    from quri_parts.qsub.machineinst import is_subcall

    rng = ctx.rng

    def outcome(f):
        try:
            r = f()
        except Exception as e:  # noqa: BLE001
            return ("err", exc_name(e))
        if isinstance(r, dict):
            return ("ok", sorted((k[1], v) for k, v in r.items() if v))
        if isinstance(r, int):
            return ("ok", r)
        return ("ok", [(g.name, tuple(g.control_indices) + tuple(g.target_indices)) for g in r.gates])

    done = 0

    def cands():
        if fixed is not None:
            yield from fixed
            return
        for _ in range(n_cases * 6):
            yield gen_hp(rng, "cyclic")

    for hp in cands():
        if done >= n_cases and fixed is None:
            break
        if any(o >= NSTD for o in hp.prims):
            continue
        real = Real(hp)
        try:
            ms = real.link("linker")
        except Exception:  # noqa: BLE001
            continue
        reach, todo = [], [ms]
        while todo:
            x = todo.pop()
            for m, _, _ in x.instructions:
                if is_subcall(m) and m.sub is not None and all(m.sub is not y for y in reach):
                    reach.append(m.sub)
                    todo.append(m.sub)
        all_hooks = [QURIPartsEvaluatorHooks, GateCountEvaluatorHooks, AuxQubitCountEvaluatorHooks]
        counted = False
        for hooks in (all_hooks if fixed is not None else [rng.choice(all_hooks)]):
            ev = Evaluator(hooks())
            first = outcome(lambda: ev.run(ms))
            if first != ("err", "recursion"):
                continue
            counted = True
            for i, sub in enumerate(reach[:8]):
                fresh = outcome(lambda: Evaluator(hooks()).run(sub))
                ev.hooks = hooks()
                again = outcome(lambda: ev.run(sub))
                if fresh != again:
                    ctx.witness("evaluator-reuse", f"an Evaluator({hooks.__name__}) that has raised MachineSubRecursionError evaluates "
                                f"sub-routine #{i} of the same program differently from a new Evaluator",
                                {"program": hp.to_json(), "path": "linker", "entry": "evaluator-reuse"},
                                {"new": str(fresh)[:200], "reused": str(again)[:200]})
                    break
        if not counted:
            continue
        done += 1
        ctx.traces += 1
        ctx.case(("reuse",) + hp.key(), True, None)


def hp_reference(prims, defs, root):
    """independent restatement of a program's meaning from its SOURCE definitions: inline every call, callee argument i =
    i-th call qubit, callee auxiliaries = the next free indices above everything live in the callers, released on return.
    Returns (gates [(op, absolute qubits)], peak number of auxiliaries)"""
    out = []
    peak = [root[0]]

    def run(hs, env, idx, depth):
        if depth > 40:
            raise RecursionError("reference: call depth")
        n, a, body = hs
        loc = list(env) + list(range(idx, idx + a))
        idx += a
        peak[0] = max(peak[0], idx)
        for o, qs in body:
            absq = tuple(loc[q] for q in qs)
            if o in prims:
                out.append((o, absq))
            else:
                run(defs[o], absq, idx, depth + 1)

    run(root, tuple(range(root[0])), root[0], 0)
    return out, peak[0] - root[0]


def _snapshot(real, n, ms):
    """what a linked program evaluates / expands / counts to, right now"""
    from quri_parts.qsub.eval import AuxQubitCountEvaluatorHooks, GateCountEvaluatorHooks, QURIPartsEvaluatorHooks
    from quri_parts.qsub.evaluate import Evaluator
    from quri_parts.qsub.expand import full_expand

    snap = {}

    def attempt(name, f):
        try:
            snap[name] = ("ok", f())
        except Exception as e:  # noqa: BLE001
            snap[name] = ("err", exc_name(e))

    attempt("eval", lambda: py_canon(n, [(GATE2ID.get(g.name, 999), tuple(g.control_indices) + tuple(g.target_indices))
                                         for g in Evaluator(QURIPartsEvaluatorHooks()).run(ms).gates]))
    attempt("expand", lambda: py_canon(n, [(real.id_of.get(m.op.base_id, 999), tuple(q.uid for q in qs))
                                           for m, qs, _ in full_expand(ms).instructions]))
    attempt("counts", lambda: {real.id_of.get(k, 999): v for k, v in Evaluator(GateCountEvaluatorHooks()).run(ms).items() if v})
    attempt("aux", lambda: Evaluator(AuxQubitCountEvaluatorHooks()).run(ms))
    return snap


def _expected_snapshot(n, ref, ref_peak):
    cnt = {}
    for o, _ in ref:
        cnt[o] = cnt.get(o, 0) + 1
    g = py_canon(n, ref)
    return {"eval": ("ok", g), "expand": ("ok", g), "counts": ("ok", cnt), "aux": ("ok", ref_peak)}


def _vandalise(table):
    """mutate a container the library handed out (or was handed): nested first, then the top level"""
    from quri_parts.qsub.machineinst import is_subcall

    for ms in list(table.values()):
        for m, _, _ in ms.instructions:
            if is_subcall(m):
                m.sub = None
        if isinstance(ms.instructions, list):
            ms.instructions.clear()
        else:
            ms.instructions = ()
        ms.aux_qubits = ()
    try:
        table.clear()
    except Exception:  # noqa: BLE001 - a read-only mapping is fine
        pass


def linker_history_check(ctx: Ctx, n_cases: int, fixed=None):
    """linked programs are values: along a history of Linker / link() / link_table() / compile steps - including tables derived
    from `linker.calltable`, mutation of returned containers and of constructor arguments (nested, not only top level),
    re-registration in a repository - every program produced so far still evaluates, fully expands and counts to what its
    source definitions (at the time it was produced) say, after EVERY later step.  Only containers the library hands out
    as copies (or copies on entry) are mutated; a table passed to the in-place `link()` is never touched again."""
    import random

    from quri_parts.qsub.codegen import CodeGenerator
    from quri_parts.qsub.compile import compile_sub
    from quri_parts.qsub.link import Linker, link, link_table
    from quri_parts.qsub.resolve import SubRepository

    seeds = list(fixed) if fixed is not None else [ctx.rng.getrandbits(40) for _ in range(n_cases * 4)]
    done = 0
    for seed in seeds:
        if done >= n_cases and fixed is None:
            break
        r = random.Random(seed)
        hp = gen_hp(r, "acyclic")
        if any(o >= NSTD for o in hp.prims) or len(hp.subs) < 2:
            continue
        real = Real(hp)
        prims = set(hp.prims)
        prim_ops = [real.ops[o] for o in hp.prims]
        cg = CodeGenerator(prim_ops)
        defs = dict(hp.subs)
        history = []
        progs = []  # (label, step, msub, expected snapshot, n)
        inp = {"entry": "linker-history", "case_seed": seed, "source": hp.to_json(), "history": history}

        def entry_of(d):
            if r.random() < 0.5:
                return "root", hp.root
            o = r.choice(sorted(d))
            return f"sub of op {o}", d[o]

        def produce(label, ms, d, ehs):
            ref, pk = hp_reference(prims, d, ehs)
            progs.append((label, len(history), ms, _expected_snapshot(ehs[0], ref, pk), ehs[0]))

        def verify():
            for label, born, ms, want, n in progs:
                got = _snapshot(real, n, ms)
                bad = [k for k in want if got[k] != want[k]]
                if bad:
                    k = bad[0]
                    if born == len(history):
                        ctx.witness("link-vs-reference", f"the program '{label}' does not {k} to what its source definitions say", inp,
                                    {"got": str(got[k])[:300], "source": str(want[k])[:300]})
                    else:
                        ctx.witness("linked-program-changed", f"the program '{label}' (produced at step {born}) no longer agrees with its "
                                    f"source definitions in `{k}` after step {len(history)}: {history[-1]}", inp,
                                    {"now": str(got[k])[:300], "source": str(want[k])[:300]})
                    return False
            return True

        def alternative(d):
            """(op, other body of the same arity over primitive std ops) - preferably an op another sub calls"""
            called = sorted({o for hs in d.values() for o, _ in hs[2] if o in d})
            o = r.choice(called) if called and r.random() < 0.8 else r.choice(sorted(d))
            n, a = d[o][0], r.randint(0, 1)
            usable = [x for x in sorted(prims) if hp.arity[x] <= n + a]
            body = _gen_hsub(r, n, a, usable, hp.arity, "acyclic", length=r.randint(1, 4))
            return o, body

        try:
            table0 = {real.ops[o]: cg.lower(real.sub(hs)) for o, hs in defs.items()}
            lk = Linker(table0)
            history.append("lk = Linker(table0)")
            label, ehs = entry_of(defs)
            produce(f"lk.link({label})", lk.link(cg.lower(real.sub(ehs))), defs, ehs)
            history[-1] += f"; lk.link({label})"
            ok = verify()
            repo, repo_defs = None, None
            for _ in range(r.randint(2, 6)):
                if not ok:
                    break
                step = r.choice(["link", "derive", "derive", "derive", "vandalise-returned", "vandalise-ctor-arg", "compile", "re-register"])
                if step == "link":
                    label, ehs = entry_of(defs)
                    history.append(f"lk.link({label})")
                    produce(history[-1], lk.link(cg.lower(real.sub(ehs))), defs, ehs)
                elif step == "derive":
                    t = lk.calltable
                    if r.random() < 0.5:
                        t = dict(t)
                    o, alt = alternative(defs)
                    d2 = dict(defs)
                    d2[o] = alt
                    t[real.ops[o]] = cg.lower(real.sub(alt))
                    label, ehs = entry_of(d2)
                    how = r.choice(["link", "link", "link_table", "Linker"])
                    history.append(f"t = lk.calltable; t[op {o}] = {alt}; " + {"link": f"link({label}, t)", "link_table": "link_table(t)",
                                                                               "Linker": f"Linker(t).link({label})"}[how])
                    if how == "link":
                        produce(history[-1], link(cg.lower(real.sub(ehs)), t), d2, ehs)
                    elif how == "link_table":
                        link_table(t)
                    else:
                        produce(history[-1], Linker(t).link(cg.lower(real.sub(ehs))), d2, ehs)
                elif step == "vandalise-returned":
                    history.append("t = lk.calltable; every SubCall.sub of t := None, instruction lists cleared, t.clear()")
                    _vandalise(lk.calltable)
                elif step == "vandalise-ctor-arg":
                    history.append("table0 (the argument lk was constructed from): SubCall.sub := None, instruction lists cleared, clear()")
                    _vandalise(table0)
                elif step == "compile":
                    repo, repo_defs = SubRepository(), dict(defs)
                    for o, hs in repo_defs.items():
                        repo.register_sub(real.ops[o], real.sub(hs))
                    label, ehs = entry_of(repo_defs)
                    history.append(f"repo = SubRepository(defs); compile_sub({label}, prims, repo)")
                    produce(history[-1], compile_sub(real.sub(ehs), prim_ops, repo), repo_defs, ehs)
                elif repo is not None:
                    o, alt = alternative(repo_defs)
                    repo_defs = dict(repo_defs)
                    repo_defs[o] = alt
                    repo.register_sub(real.ops[o], real.sub(alt))
                    label, ehs = entry_of(repo_defs)
                    history.append(f"repo.register_sub(op {o}, {alt}); compile_sub({label}, prims, repo)")
                    produce(history[-1], compile_sub(real.sub(ehs), prim_ops, repo), repo_defs, ehs)
                else:
                    continue
                ok = verify()
        except InfraError:
            raise
        except Exception as e:  # noqa: BLE001
            ctx.witness("linker-history-raises", f"a history of link steps on a well-formed acyclic program raises {type(e).__name__}: "
                        f"{str(e)[:100]}", inp)
        done += 1
        ctx.traces += 1
        ctx.count("linker_history_steps", str(len(history)))
        ctx.case(("linker-history", seed), True, None)


ENTRY_NAMES_KEY = "eval-noncanonical-entry-names-capture"


def entry_names_check(ctx: Ctx, n_cases: int, fixed=None):
    """the entry sub's local qubit names are arbitrary (a `Sub` is a public dataclass; SubBuilder merely happens to number them
    0..n-1): renaming them injectively changes nothing - arguments are positional.  Checked for hierarchical evaluation, full
    expansion and both counters against the reference inlining of the source program."""
    import random

    from quri_parts.qsub.codegen import CodeGenerator
    from quri_parts.qsub.compile import compile_sub
    from quri_parts.qsub.link import Linker
    from quri_parts.qsub.qubit import Qubit
    from quri_parts.qsub.resolve import SubRepository
    from quri_parts.qsub.sub import Sub

    seeds = list(fixed) if fixed is not None else [ctx.rng.getrandbits(40) for _ in range(n_cases * 3)]
    done = 0
    for seed in seeds:
        if done >= n_cases and fixed is None:
            break
        r = random.Random(seed)
        hp = gen_hp(r, "acyclic")
        if any(o >= NSTD for o in hp.prims):
            continue
        n, a, body = hp.root
        size = n + a
        if not body:
            continue
        family = r.choice(["permutation", "permutation", "shift", "sparse", "aux-only-permutation"])
        if family == "permutation":
            names = r.sample(range(size), size)
        elif family == "shift":
            k = r.randint(1, 4)
            names = [i + k for i in range(size)]
        elif family == "sparse":
            names = r.sample(range(3 * size + 2), size)
        else:
            names = list(range(n)) + r.sample(range(n, size), a)
        real = Real(hp)
        prim_ops = [real.ops[o] for o in hp.prims]
        path = r.choice(["compile_sub", "linker"])
        inp = {"entry": "entry-names", "case_seed": seed, "program": hp.to_json(), "path": path,
               "entry_local_names": {"arguments": names[:n], "auxiliaries": names[n:]}}

        def entry_sub(nm):
            return Sub(tuple(Qubit(x) for x in nm[:n]), (), tuple(Qubit(x) for x in nm[n:]), (),
                       tuple((real.ops[o], tuple(Qubit(nm[q]) for q in qs), ()) for o, qs in body))

        def linked(nm):
            if path == "compile_sub":
                repo = SubRepository()
                for o, hs in hp.subs.items():
                    repo.register_sub(real.ops[o], real.sub(hs))
                return compile_sub(entry_sub(nm), prim_ops, repo)
            cg = CodeGenerator(prim_ops)
            return Linker({real.ops[o]: cg.lower(real.sub(hs)) for o, hs in hp.subs.items()}).link(cg.lower(entry_sub(nm)))

        try:
            ref, pk = hp_reference(set(hp.prims), hp.subs, hp.root)
            want = _expected_snapshot(n, ref, pk)
            canon_ms = linked(list(range(size)))
        except Exception:  # noqa: BLE001 - judged by run_batch
            continue
        if _snapshot(real, n, canon_ms) != want:
            continue  # not a question of names: run_batch judges the canonical program
        done += 1
        ctx.traces += 1
        ctx.count("entry_names", family)
        try:
            got = _snapshot(real, n, linked(names))
        except Exception as e:  # noqa: BLE001
            ctx.witness("entry-names:link", f"linking an entry sub with renamed local qubits raises {type(e).__name__}: {str(e)[:100]}", inp)
            continue
        bad = [k for k in want if got[k] != want[k]]
        for k in bad:
            if k == "eval":
                ctx.witness(ENTRY_NAMES_KEY, "hierarchical evaluation of an entry sub whose local qubit names are not 0..n-1 in order "
                            "differs from the source program and from its full expansion (which is right)", inp,
                            {"hierarchical": str(got[k])[:300], "source": str(want[k])[:300]})
                ctx.count("entry_names", "MISMATCH:" + family)
            else:
                ctx.witness("entry-names:" + k, f"`{k}` of an entry sub with renamed local qubits differs from the source program", inp,
                            {"got": str(got[k])[:300], "source": str(want[k])[:300]})
        ctx.case(("entry-names", seed), True, None)


def allocator_check(ctx: Ctx, n_cases: int):
    """allocate.py against its restatement: a stack of consecutive indices starting at init_count"""
    from quri_parts.qsub.allocate import QubitAllocator, RegisterAllocator
    from quri_parts.qsub.qubit import Qubit
    from quri_parts.qsub.register import Register

    rng = ctx.rng
    for ci in range(n_cases):
        cls, bit = rng.choice([(QubitAllocator, Qubit), (RegisterAllocator, Register)])
        init = rng.choice([None, 0, 1, 3, 7])
        hist = []
        try:
            al = cls() if init is None else (cls(init) if rng.random() < 0.5 else cls(init_count=init))
            idx = init or 0
            stack = []
            bad = None
            for _ in range(rng.randint(1, 12)):
                r = rng.random()
                if r < 0.35:
                    k = rng.randint(0, 3)
                    got = list(al.allocate(k))
                    hist.append(f"allocate({k})")
                    if got != [bit(i) for i in range(idx, idx + k)]:
                        bad = f"allocate({k}) at index {idx} returned {[b.uid for b in got]}"
                    idx += k
                    stack.append(k)
                elif r < 0.6:
                    k = rng.randint(0, 3)
                    keys = [bit(100 + j) for j in range(k)]
                    keys = tuple(keys) if rng.random() < 0.5 else keys
                    got = dict(al.allocate_map(keys))
                    hist.append(f"allocate_map({k} bits)")
                    if got != {bit(100 + j): bit(idx + j) for j in range(k)}:
                        bad = f"allocate_map at index {idx} returned {[(a.uid, b.uid) for a, b in got.items()]}"
                    idx += k
                    stack.append(k)
                elif r < 0.8 and stack:
                    k = stack.pop()
                    al.free_last(k)
                    hist.append(f"free_last({k})")
                    idx -= k
                elif r < 0.9:
                    hist.append("free(...)")
                    try:
                        al.free([bit(max(idx - 1, 0))])
                        bad = "free() of an arbitrary bit does not raise ValueError"
                    except ValueError:
                        pass
                probe = rng.randint(0, idx + 2)
                if al.total() != idx:
                    bad = f"total() = {al.total()}, {idx} bits are allocated"
                elif bool(al.in_use(bit(probe))) != (probe < idx):
                    bad = f"in_use({probe}) = {al.in_use(bit(probe))} with {idx} bits allocated"
                if bad:
                    break
        except Exception as e:  # noqa: BLE001
            bad = f"raises {type(e).__name__}: {str(e)[:80]}"
        ctx.traces += 1
        if bad:
            ctx.witness("allocator", f"{cls.__name__}: {bad}", {"init_count": init, "history": hist})
        ctx.case(("alloc", cls.__name__, init, tuple(hist)), True, None)


def api_probes(ctx: Ctx):
    """documented error branches and argument validation of the anchored files: each must reject, none may mis-handle"""
    from quri_parts.qsub.codegen import CodeGenerator
    from quri_parts.qsub.compile import compile, compile_sub
    from quri_parts.qsub.eval import AuxQubitCountEvaluatorHooks, GateCountEvaluatorHooks, QURIPartsEvaluatorHooks
    from quri_parts.qsub.evaluate import Evaluator
    from quri_parts.qsub.lib import std
    from quri_parts.qsub.machineinst import MachineOp, MachineSub, Primitive
    from quri_parts.qsub.namespace import NameSpace
    from quri_parts.qsub.op import Ident, Op, ParameterValidationError
    from quri_parts.qsub.primitive import AllBasicSet
    from quri_parts.qsub.qubit import Qubit
    from quri_parts.qsub.resolve import SubRepository
    from quri_parts.qsub.sub import SubBuilder

    _uniq[0] += 1
    ns = NameSpace(f"c19a{_uniq[0]}")

    def expect(key, what, f, exc, inp):
        ctx.traces += 1
        ctx.count("probe", key)
        try:
            r = f()
            got = "returns " + repr(r)[:80]
        except exc:
            return True
        except Exception as e:  # noqa: BLE001
            got = f"raises {type(e).__name__}: {str(e)[:80]}"
        en = exc.__name__ if isinstance(exc, type) else "/".join(x.__name__ for x in exc)
        ctx.witness(key, f"{what}: {got} instead of raising {en}", inp)
        return False

    q0 = Qubit(0)
    # hooks used before any sub was entered
    expect("evaluator-hooks-uninitialised", "QURIPartsEvaluatorHooks.primitive before enter_sub",
           lambda: QURIPartsEvaluatorHooks().primitive(Primitive(std.H), (q0,), (), [0]), ValueError, {"call": "primitive"})
    expect("evaluator-hooks-uninitialised", "QURIPartsEvaluatorHooks.exit_sub before enter_sub",
           lambda: QURIPartsEvaluatorHooks().exit_sub(MachineSub((q0,), (), (), (), ()), True, [0]), ValueError, {"call": "exit_sub"})
    # an instruction that is neither a Primitive nor a SubCall
    odd = MachineSub((q0,), (), (), (), ((Primitive(std.H), (q0,), ()), (MachineOp(std.X), (q0,), ())))
    for name, mk in (("QURIParts", QURIPartsEvaluatorHooks), ("GateCount", GateCountEvaluatorHooks), ("AuxQubitCount", AuxQubitCountEvaluatorHooks)):
        expect("unsupported-machineop-not-rejected", f"Evaluator({name}) on an instruction that is neither Primitive nor SubCall",
               lambda mk=mk: Evaluator(mk()).run(odd), ValueError, {"instructions": "Primitive(H); MachineOp(X)"})
    # a primitive op the quri-parts evaluator has no gate for (a wrapper op handed over as a primitive)
    for name, op in (("Controlled(H)", std.Controlled(std.H)), ("Inverse(T)", std.Inverse(std.T)), ("MultiControlled(X,2,3)", std.MultiControlled(std.X, 2, 3))):
        b = SubBuilder(op.qubit_count)
        b.add_op(std.H, (b.qubits[0],))
        b.add_op(op, b.qubits)
        sub = b.build()
        expect("unsupported-primitive-not-rejected", f"QURIPartsEvaluatorHooks on the primitive {name}",
               lambda sub=sub, op=op: Evaluator(QURIPartsEvaluatorHooks()).run(compile_sub(sub, list(AllBasicSet) + [op], SubRepository())),
               ValueError, {"primitive": name})
    # wrapper parameter validation
    nonu = Op(Ident(ns, "Meas"), 1, 0, unitary=False)
    for name, f in (("Inverse(non-unitary op)", lambda: std.Inverse(nonu)), ("Controlled(non-unitary op)", lambda: std.Controlled(nonu)),
                    ("MultiControlled(non-unitary op, 1, 0)", lambda: std.MultiControlled(nonu, 1, 0)),
                    ("MultiControlled(X, 0, 0)", lambda: std.MultiControlled(std.X, 0, 0)),
                    ("MultiControlled(X, -1, 0)", lambda: std.MultiControlled(std.X, -1, 0)),
                    ("MultiControlled(X, 2, 4)", lambda: std.MultiControlled(std.X, 2, 4)),
                    ("MultiControlled(X, 1, 2)", lambda: std.MultiControlled(std.X, 1, 2)),
                    ("MultiControlled(X, 3, 8)", lambda: std.MultiControlled(std.X, 3, 8)),
                    ("MultiControlled(X, 2, -1)", lambda: std.MultiControlled(std.X, 2, -1))):
        expect("invalid-wrapper-params-accepted", name, f, ParameterValidationError, {"op": name})
    for bits in (1, 2, 3):
        for val in (0, (1 << bits) - 1):
            try:
                o = std.MultiControlled(std.X, bits, val)
                ok = o.qubit_count == bits + 1 and std.Controlled(std.T).qubit_count == 2 and std.Inverse(std.CNOT).qubit_count == 2
                got = f"qubit_count {o.qubit_count}"
            except Exception as e:  # noqa: BLE001
                ok, got = False, f"raises {type(e).__name__}"
            if not ok:
                ctx.witness("valid-wrapper-params-rejected", f"MultiControlled(X, {bits}, {val}): {got}", {"bits": bits, "value": val})
    # a wrapper whose target cannot be resolved cannot be compiled: ValueError from the linker, not a silently dropped op
    G = Op(Ident(ns, "G"), 1)
    N = Op(Ident(ns, "N"), 1)
    for name, mkop, reg_none in (("Inverse(G), G primitive without a sub", lambda: std.Inverse(G), False),
                                 ("Controlled(G), G primitive without a sub", lambda: std.Controlled(G), False),
                                 ("Inverse(N), N's resolver returns None", lambda: std.Inverse(N), True),
                                 ("Controlled(N), N's resolver returns None", lambda: std.Controlled(N), True)):
        def go(mkop=mkop, reg_none=reg_none):
            from quri_parts.qsub.resolve import default_repository

            if reg_none:
                default_repository().register_sub_resolver(N, lambda o, rp: None)
            op = mkop()
            b = SubBuilder(op.qubit_count)
            b.add_op(std.H, (b.qubits[0],))
            b.add_op(op, b.qubits)
            return Evaluator(GateCountEvaluatorHooks()).run(compile_sub(b.build(), list(AllBasicSet) + [G, N]))
        expect("unresolved-wrapper-not-rejected", name, go, ValueError, {"op": name})
    # compile(): an entry op without a sub
    expect("unresolved-entry-not-rejected", "compile(entry_op) for an op without a sub",
           lambda: compile(Op(Ident(ns, "NoSub"), 1), AllBasicSet, SubRepository()), Exception, {"op": "NoSub"})
    # Inverse of a self-inverse op is the op itself, also for a user op that is a primitive
    Sx = Op(Ident(ns, "SelfInv"), 2, self_inverse=True)
    try:
        b = SubBuilder(2)
        b.add_op(std.Inverse(Sx), (b.qubits[1], b.qubits[0]))
        b.add_op(std.Inverse(std.Inverse(std.T)), (b.qubits[0],))
        ms = compile_sub(b.build(), list(AllBasicSet) + [Sx])
        cnt = {k[1]: v for k, v in Evaluator(GateCountEvaluatorHooks()).run(ms).items() if v}
        from quri_parts.qsub.expand import full_expand

        flat = [(m.op.id.local_name, tuple(q.uid for q in qs)) for m, qs, _ in full_expand(ms).instructions]
        if cnt != {"SelfInv": 1, "T": 1} or flat != [("SelfInv", (1, 0)), ("T", (0,))]:
            ctx.witness("inverse-self-inverse", "Inverse(self-inverse primitive) on (q1, q0); Inverse(Inverse(T)) on q0", {"counts": cnt, "flat": flat})
    except Exception as e:  # noqa: BLE001
        ctx.witness("inverse-self-inverse", f"Inverse(self-inverse primitive) raises {type(e).__name__}: {str(e)[:80]}", {})
    ctx.traces += 1


def exhaustive_small(ctx: Ctx):
    """thorough tier: EVERY program of a small scope — leaf sub A (one instruction over {H, CNOT}), middle sub B (one call of A
    with any injective argument tuple), root (a call of B then a call of A, any injective argument tuples), each with
    1–2 arguments and 0–1 auxiliaries"""
    import itertools

    H_, CN = 0, 4
    shapes = [(1, 0), (1, 1), (2, 0), (2, 1)]
    A_OP, B_OP = NSTD, NSTD + 1
    progs = []
    for (an, ax) in shapes:
        sa = an + ax
        a_bodies = [[(H_, (q,))] for q in range(sa)] + [[(CN, t)] for t in itertools.permutations(range(sa), 2)]
        for ab in a_bodies:
            for (bn, bx) in shapes:
                sb = bn + bx
                for bt in itertools.permutations(range(sb), an):
                    for (rn, rx) in shapes:
                        sr = rn + rx
                        for rb in itertools.permutations(range(sr), bn):
                            for ra in itertools.permutations(range(sr), an):
                                subs = {A_OP: (an, ax, ab), B_OP: (bn, bx, [(A_OP, bt)])}
                                root = (rn, rx, [(B_OP, rb), (A_OP, ra)])
                                progs.append(HP(NSTD + 2, [a for _, a, _ in PRIMS] + [an, bn], set(range(NSTD)), subs, root))
    ctx.extra["exhaustive_small_programs"] = len(progs)
    for i in range(0, len(progs), 1500):
        chunk = progs[i:i + 1500]
        run_batch(ctx, chunk, ["linker" if (i + j) % 2 else "compile_sub" for j in range(len(chunk))], [[] for _ in chunk])


def _detuple(x):
    return tuple(_detuple(y) for y in x) if isinstance(x, (list, tuple)) else x


def _order_witnesses(ctx: Ctx):
    """new keys first, at most two witnesses per key (the replay file keeps the first five)"""
    seen = {}
    out = []
    for w in sorted(ctx.witnesses, key=lambda w: w["key"] in KNOWN_KEYS or w["key"] == ENTRY_NAMES_KEY):
        seen[w["key"]] = seen.get(w["key"], 0) + 1
        if seen[w["key"]] <= 2:
            out.append(w)
    ctx.extra["witness_keys"] = seen
    ctx.witnesses = out


def run(ctx: Ctx, replay=None) -> int:
    ctx.rule = ("case = (op-level program, link path, gate-count filter); real compile/link/eval/expand/counters vs the "
                "Lean model on the same program; distinct = distinct canonical programs whose root calls a user sub; "
                "plus generic-resolver structure cases and oracle validation of Inverse/Controlled/MultiControlled nestings "
                "(counted in evaluations only); link path ranges over Linker / link() / reused Linker / compile_sub / compile / default "
                "repository with varying registration and container forms; real-code-only sections judged by direct restatements: "
                "one-level expand (inlining spec, fixed point vs full_expand), unlinked calls, allocator histories, Evaluator reuse, "
                "error-branch probes, std-vocabulary programs with a parametric user op vs a reference inliner, sub-transpilers")
    ctx.trusted = TRUSTED
    ctx.assumptions = ["subs are built by SubBuilder (argument i is Qubit(i), auxiliary j is Qubit(nArgs+j))",
                       "the theorems need WF: call arity matches and a callee has at most as many arguments as the caller has names",
                       "Controlled(U) on (c, *qs) means |0><0|_c ⊗ 1 + |1><1|_c ⊗ U; MultiControlled control i is bit i of control_value "
                       "(validated each run against the real MultiControlledSub through the dense oracle)"]
    desc = gen(ctx)
    ok = ctx.prove(LEAN_TARGETS, OBLIGATION_MODULES)
    if ok:
        names = [f"QV.Props.C19.{n}" for _, n, _ in ctx.count_obligations(["QuriVerif.Props.C19"])]
        names += [f"QV.Props.C19Lib.{n}" for _, n, _ in ctx.count_obligations(["QuriVerif.Props.C19Lib"])]
        names += [f"QV.Props.C19Lift.{n}" for _, n, _ in ctx.count_obligations(["QuriVerif.Props.C19Lift"])]
        names += [f"QV.Props.C19SubLift.{n}" for _, n, _ in ctx.count_obligations(["QuriVerif.Props.C19SubLift"])]
        ctx.audit(names, ["QuriVerif.Props.C19", "QuriVerif.Props.C19Lib", "QuriVerif.Props.C19Lift", "QuriVerif.Props.C19SubLift"])
    broken = bool(ctx.failed_obligations)
    with ctx.timed("correspond"):
        if replay:
            d = json.load(open(replay))
            for w in d.get("witnesses", []) + d.get("disagreements", []):
                inp = w.get("input", {})
                if isinstance(inp, dict) and "program" in inp and "transpilers" not in inp:
                    hp = HP.from_json(inp["program"])
                    path = str(inp.get("path", "linker")).split("+")[0]
                    path = path if path in PATHS else "linker"
                    run_batch(ctx, [hp], [path], [inp.get("filter", [])])
                    if inp.get("entry") == "expand" or "+expand" in str(inp.get("path", "")):
                        expand_levels_check(ctx, 1, fixed=[(hp, path)])
                    if inp.get("entry") == "unlinked":
                        unlinked_check(ctx, 1, fixed=[(hp, bool(inp.get("linked_levels")))])
                    if inp.get("entry") == "evaluator-reuse":
                        evaluator_reuse_check(ctx, 1, fixed=[hp])
                if isinstance(inp, dict) and inp.get("entry") == "linker-history":
                    linker_history_check(ctx, 1, fixed=[inp["case_seed"]])
                if isinstance(inp, dict) and inp.get("entry") == "entry-names":
                    entry_names_check(ctx, 1, fixed=[inp["case_seed"]])
                if isinstance(inp, dict) and "custom_term" in inp:
                    t, subs = _detuple(inp["custom_term"]), {int(k): _detuple(v) for k, v in inp["custom_subs"].items()}
                    r = check_term(ctx, t, subs, repo=custom_repository(bool(inp.get("drop_specific"))),
                                   decoy=(inp.get("mode") == "both-different"), entry=inp.get("entry", "compile_sub"))
                    if r not in (None, "skip") and check_term(ctx, t, subs) in (None, "skip"):
                        ctx.witness("custom-repository-wrapper", f"{inp.get('term')}: {r}", inp)
                if isinstance(inp, dict) and "wrapper_term" in inp:
                    t, subs = _detuple(inp["wrapper_term"]), {int(k): _detuple(v) for k, v in inp["wrapper_subs"].items()}
                    r = check_term(ctx, t, subs)
                    if r not in (None, "skip"):
                        report_bad(ctx, t, subs, r)
            api_probes(ctx)  # deterministic, cheap: replayed as a whole
        else:
            correspond(ctx, ctx.n(2500, 50000))
            resolver_structure(ctx, ctx.n(200, 1500))
            register_expand_check(ctx, ctx.n(150, 2000))
            with ctx.timed("entry_points"):
                api_probes(ctx)
                expand_levels_check(ctx, ctx.n(250, 4000))
                unlinked_check(ctx, ctx.n(120, 1500))
                allocator_check(ctx, ctx.n(150, 2000))
                evaluator_reuse_check(ctx, ctx.n(80, 1000))
                linker_history_check(ctx, ctx.n(200, 3000))
                entry_names_check(ctx, ctx.n(120, 1500))
            if not ctx.quick():
                exhaustive_small(ctx)
    broken = broken or bool(ctx.disagreements)
    with ctx.timed("oracle_validation"):
        have_new = any(w["key"] not in KNOWN_KEYS and w["key"] != ENTRY_NAMES_KEY for w in ctx.witnesses)
        mult = 4 if (broken and not have_new) else 1
        broken = broken and not have_new
        t0 = time.time()
        if not replay:
            wrapper_validate(ctx, ctx.n(500, 15000) * mult)
            transpiler_validate(ctx, ctx.n(60, 1000) * mult)
            with ctx.timed("custom_repo"):
                custom_repo_wrappers(ctx, ctx.n(150, 3000) * mult)
            with ctx.timed("sub_transformers"):
                sub_transformers_check(ctx, ctx.n(80, 1500) * mult)
            with ctx.timed("rich_programs"):
                rich_programs(ctx, ctx.n(200, 3000) * mult)
            if broken:
                correspond(ctx, ctx.n(500, 4000))
        ctx.search_budget_s = round(time.time() - t0, 1)
    _order_witnesses(ctx)
    return ctx.finish()
