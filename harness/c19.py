"""C19 — Structured (qsub) compilation preserves meaning and resource counts."""
from __future__ import annotations

import json
import os
import sys
import time

sys.path.insert(0, os.path.dirname(os.path.dirname(os.path.abspath(__file__))))

from common import Ctx, InfraError, VERIF  # noqa: E402

from translate import c19gen  # noqa: E402

LEAN_TARGETS = ["QuriVerif.Props.C19", "QuriVerif.Props.C19Lib", "QuriVerif.Driver.C19"]
OBLIGATION_MODULES = ["QuriVerif.Props.C19", "QuriVerif.Props.C19Lib", "QuriVerif.Generated.C19Lib"]
ENTRY = "DriverC19.lean"

TRUSTED = [
    "Lean 4.33 kernel incl. `decide +kernel` evaluation; axioms audited ⊆ {propext, Classical.choice, Quot.sound}",
    "hand-written model Model/C19.lean (SubBuilder naming convention, Evaluator stack machine, qubit-map stack, "
    "allocator, memo tables); tied to the real code only by the correspondence harness harness/c19.py",
    "translator translate/c19gen.py (Python `ast` reader for lib/std/inverse.py, control.py, op definitions, "
    "eval/quriparts.py gate mapping) and Found/Gate.lean's restatement of the documented gate matrices",
    "exact-ring reflection proved sound (Proof/PolySound, Proof/MatSound, Props/Reflect — obligations of C01): a discharged Template.check / checkExact / Poly identity holds in ℂ for all real angles; trusted spec = MatSound.embedAct / semCirc + Gate.localMat",
    "Python set iteration order (aux_qubits of full_expand) is treated as an arbitrary order σ",
    "installed quri_parts.rust 0.27 binary provides QuantumGate/QuantumCircuit",
]

# primitive vocabulary used by the correspondence: op id -> (std attribute, arity, quri-parts gate name)
PRIMS = [("H", 1, "H"), ("X", 1, "X"), ("T", 1, "T"), ("S", 1, "S"), ("CNOT", 2, "CNOT"), ("CZ", 2, "CZ"),
         ("SWAP", 2, "SWAP"), ("Toffoli", 3, "TOFFOLI")]
NSTD = len(PRIMS)
GATE2ID = {g: i for i, (_, _, g) in enumerate(PRIMS)}


# ---------------------------------------------------------------------------
# op-level programs (what a user writes): HProgram
#   ops 0..NSTD-1 : the std ops above, ops NSTD.. : user ops
#   prims : set of op ids handed to CodeGenerator
#   subs  : {op id: HSub}  registered in the repository;  HSub = (nArgs, nAux, [(op, qs)])
#   root  : HSub
# ---------------------------------------------------------------------------
class HP:
    def __init__(self, nops, arity, prims, subs, root):
        self.nops, self.arity, self.prims, self.subs, self.root = nops, arity, sorted(prims), subs, root

    def key(self):
        return (self.nops, tuple(self.prims), tuple(sorted((k, _hs_key(v)) for k, v in self.subs.items())), _hs_key(self.root))

    def enc(self):
        def hs(s):
            return f"{s[0]} {s[1]} " + ";".join(f"{o}:{','.join(map(str, qs))}" for o, qs in s[2])
        subs = " | ".join((hs(self.subs[o]) if o in self.subs else "-") for o in range(self.nops))
        return f"{','.join(map(str, self.prims))} / {hs(self.root)} / {subs}"

    def to_json(self):
        return {"nops": self.nops, "arity": self.arity, "prims": self.prims,
                "subs": {str(k): [v[0], v[1], [[o, list(q)] for o, q in v[2]]] for k, v in self.subs.items()},
                "root": [self.root[0], self.root[1], [[o, list(q)] for o, q in self.root[2]]]}

    @staticmethod
    def from_json(d):
        f = lambda v: (v[0], v[1], [(o, tuple(q)) for o, q in v[2]])
        return HP(d["nops"], d["arity"], d["prims"], {int(k): f(v) for k, v in d["subs"].items()}, f(d["root"]))


def _hs_key(s):
    return (s[0], s[1], tuple((o, tuple(q)) for o, q in s[2]))


def gen_hp(rng, kind="acyclic", max_depth=5, user_prims=False):
    """random op-level program.  kind: acyclic | cyclic | repeat (repeated call arguments) | arity | missing"""
    nuser = rng.randint(1, 7)
    nops = NSTD + nuser
    arity = [a for _, a, _ in PRIMS] + [rng.randint(1, 3) for _ in range(nuser)]
    # levels give a topological order: an op of level L only uses ops of lower level
    level = {o: 0 for o in range(NSTD)}
    chain = rng.random() < 0.5  # a chain of distinct levels gives deep call stacks
    for j, o in enumerate(range(NSTD, nops)):
        level[o] = min(max_depth, j + 1) if chain else rng.randint(1, max_depth)
    prims = set(range(NSTD))
    subs = {}
    # some std ops are non-primitive and get a sub of their own / are primitive AND have a (never called) sub
    for o in rng.sample(range(NSTD), rng.choice([0, 0, 1, 2])):
        lower = [x for x in range(NSTD) if x != o and arity[x] <= arity[o] + 1 and x not in subs]
        if not lower:
            continue
        if rng.random() < 0.7:
            prims.discard(o)
        level[o] = 0.5
        subs[o] = _gen_hsub(rng, arity[o], rng.randint(0, 1), [x for x in lower if x in prims or x in subs], arity, kind="acyclic")
    for o in sorted(range(NSTD, nops), key=lambda x: level[x]):
        usable = [x for x in range(nops) if level[x] < level[o] and (x in prims or x in subs)]
        below = [x for x in usable if x >= NSTD and level[x] == max([level[y] for y in usable if y >= NSTD] or [0])]
        subs[o] = _gen_hsub(rng, arity[o], rng.randint(0, 2), usable + below * 3, arity, kind)
    if user_prims:  # user ops as primitives (counters / expand only)
        for o in rng.sample(range(NSTD, nops), rng.randint(1, max(1, nuser // 2))):
            prims.add(o)
            if rng.random() < 0.5:
                subs.pop(o, None)
    rootn = rng.randint(1, 3)
    usable = [x for x in range(nops) if (x in prims or x in subs)]
    top = [x for x in usable if x >= NSTD and level[x] == max([level[y] for y in usable if y >= NSTD] or [0])]
    root = _gen_hsub(rng, rootn, rng.randint(0, 2), usable + top * 2, arity, kind, length=rng.randint(1, 6), prefer_user=True)
    if kind == "cyclic":
        users = [o for o in range(NSTD, nops) if o in subs and o not in prims]
        if users:
            # a back edge: some sub calls an op of higher-or-equal level
            src = rng.choice(users)
            dst = rng.choice([o for o in users if level[o] >= level[src]])
            n, a, body = subs[src]
            if arity[dst] <= n + a:
                pos = rng.randint(0, len(body))
                body = body[:pos] + [(dst, tuple(rng.sample(range(n + a), arity[dst])))] + body[pos:]
                subs[src] = (n, a, body)
    if kind == "missing":
        # an op that is neither primitive nor has a sub
        victims = [o for o in range(NSTD, nops)]
        v = rng.choice(victims)
        subs.pop(v, None)
        prims.discard(v)
    return HP(nops, arity, prims, subs, root)


def _gen_hsub(rng, nargs, naux, usable, arity, kind, length=None, prefer_user=False):
    size = nargs + naux
    body = []
    length = rng.randint(0, 5) if length is None else length
    for _ in range(length):
        cands = [o for o in usable if arity[o] <= size or kind in ("repeat", "arity")]
        if not cands:
            break
        if prefer_user and rng.random() < 0.6:
            u = [o for o in cands if o >= NSTD]
            cands = u or cands
        o = rng.choice(cands)
        k = arity[o]
        if kind == "repeat" and rng.random() < 0.5:
            qs = tuple(rng.randrange(size) for _ in range(k))
        elif kind == "arity" and o >= NSTD and rng.random() < 0.4:
            k2 = max(1, min(size, k + rng.choice([-1, 1])))
            qs = tuple(rng.sample(range(size), k2))
        elif k <= size:
            qs = tuple(rng.sample(range(size), k))
        else:
            qs = tuple(rng.randrange(size) for _ in range(k))
        body.append((o, qs))
    return (nargs, naux, body)


# ---------------------------------------------------------------------------
# the real pipeline
# ---------------------------------------------------------------------------
class Real:
    """real ops / subs for one HProgram"""

    def __init__(self, hp: HP):
        from quri_parts.qsub.lib import std
        from quri_parts.qsub.namespace import NameSpace
        from quri_parts.qsub.op import Ident, Op

        ns = NameSpace("c19")
        self.hp = hp
        self.ops = [getattr(std, n) for n, _, _ in PRIMS] + [
            Op(Ident(ns, f"F{o}"), hp.arity[o]) for o in range(NSTD, hp.nops)]
        self.id_of = {op.base_id: i for i, op in enumerate(self.ops)}

    def sub(self, hs):
        from quri_parts.qsub.sub import SubBuilder

        n, a, body = hs
        b = SubBuilder(n)
        aux = b.add_aux_qubits(a)
        names = list(b.qubits) + list(aux)
        for o, qs in body:
            b.add_op(self.ops[o], tuple(names[q] for q in qs))
        return b.build()

    def link(self, path: str):
        """returns the linked MachineSub; raises whatever the real code raises"""
        from quri_parts.qsub.codegen import CodeGenerator
        from quri_parts.qsub.compile import compile, compile_sub
        from quri_parts.qsub.link import Linker
        from quri_parts.qsub.resolve import SubRepository

        hp = self.hp
        prims = [self.ops[o] for o in hp.prims]
        root = self.sub(hp.root)
        if path == "linker":
            cg = CodeGenerator(prims)
            table = {self.ops[o]: cg.lower(self.sub(hs)) for o, hs in hp.subs.items()}
            return Linker(table).link(cg.lower(root))
        repo = SubRepository()
        for o, hs in hp.subs.items():
            repo.register_sub(self.ops[o], self.sub(hs))
        if path == "compile_sub":
            return compile_sub(root, prims, repo)
        raise InfraError("unknown path " + path)


def exc_name(e):
    n = type(e).__name__
    return {"MachineSubRecursionError": "recursion", "KeyError": "key"}.get(n, n)


class PeakAlloc:
    peak = 0


def observe(real: Real, msub, filt):
    """every observable of the real code on one linked MachineSub"""
    import quri_parts.qsub.eval.quriparts as QPE
    from quri_parts.qsub.allocate import QubitAllocator
    from quri_parts.qsub.eval import AuxQubitCountEvaluatorHooks, GateCountEvaluatorHooks, QURIPartsEvaluatorHooks
    from quri_parts.qsub.evaluate import Evaluator
    from quri_parts.qsub.expand import full_expand

    obs = {}
    peak = {"v": 0}
    alias = []
    # a real evaluator that fails to stop on a cyclic program must fail fast (model call depth is < 40)
    import inspect
    old_limit = sys.getrecursionlimit()
    sys.setrecursionlimit(len(inspect.stack()) + 400)
    try:
        return _observe(real, msub, filt, obs, peak, alias)
    finally:
        sys.setrecursionlimit(old_limit)


def _observe(real, msub, filt, obs, peak, alias):
    import quri_parts.qsub.eval.quriparts as QPE
    from quri_parts.qsub.allocate import QubitAllocator
    from quri_parts.qsub.eval import AuxQubitCountEvaluatorHooks, GateCountEvaluatorHooks, QURIPartsEvaluatorHooks
    from quri_parts.qsub.evaluate import Evaluator
    from quri_parts.qsub.expand import full_expand

    class Alloc(QubitAllocator):
        def allocate(self, n):
            r = super().allocate(n)
            peak["v"] = max(peak["v"], self.total())
            return r

    class Hooks(QURIPartsEvaluatorHooks):
        # in-process observation only: which absolute qubits are live in the callers when a sub is entered
        def enter_sub(self, sub, qubits, regs, call_stack):
            live = set(v.uid for v in (self._qubit_map or {}).values())
            r = super().enter_sub(sub, qubits, regs, call_stack)
            new = [v.uid for v in self._qubit_map_stack[-1].values()]
            if len(call_stack) > 1 and set(new) & live:
                alias.append((sorted(live), new))
            return r

    def gates_of(circ):
        out = []
        for g in circ.gates:
            if g.name not in GATE2ID:
                raise InfraError("unexpected gate " + g.name)
            out.append((GATE2ID[g.name], tuple(g.control_indices) + tuple(g.target_indices)))
        return out

    saved = QPE.QubitAllocator
    QPE.QubitAllocator = Alloc
    qp_ok = all(o < NSTD for o in real.hp.prims)  # QURIPartsEvaluatorHooks only knows the std gate set
    obs["qp"] = qp_ok
    try:
        try:
            if not qp_ok:
                raise InfraError("skip")
            c = Evaluator(Hooks()).run(msub)
            obs["eval"] = ("ok", gates_of(c))
            obs["peak"] = peak["v"]
            obs["qubit_count"] = c.qubit_count
        except InfraError as e:
            if str(e) != "skip":
                raise
            obs["eval"] = None
        except Exception as e:  # noqa: BLE001
            obs["eval"] = ("err", exc_name(e))
        obs["alias"] = alias
    finally:
        QPE.QubitAllocator = saved
    try:
        ex = full_expand(msub)
        insts = []
        for mop, qs, rs in ex.instructions:
            insts.append((real.id_of[mop.op.base_id], tuple(q.uid for q in qs)))
        obs["expand"] = ("ok", insts)
        obs["expand_aux"] = tuple(q.uid for q in ex.aux_qubits)
        obs["expand_args"] = tuple(q.uid for q in ex.qubits)
        try:
            if not qp_ok:
                raise InfraError("skip")
            c2 = Evaluator(QURIPartsEvaluatorHooks()).run(ex)
            obs["evalflat"] = ("ok", gates_of(c2))
        except InfraError as e:
            if str(e) != "skip":
                raise
            obs["evalflat"] = None
        except Exception as e:  # noqa: BLE001
            obs["evalflat"] = ("err", exc_name(e))
    except InfraError:
        raise
    except Exception as e:  # noqa: BLE001
        obs["expand"] = ("err", exc_name(e))
    try:
        h = GateCountEvaluatorHooks([real.ops[o] for o in filt])
        r = Evaluator(h).run(msub)
        obs["counts"] = ("ok", {real.id_of[k]: v for k, v in r.items()})
    except Exception as e:  # noqa: BLE001
        obs["counts"] = ("err", exc_name(e))
    try:
        obs["aux"] = ("ok", Evaluator(AuxQubitCountEvaluatorHooks()).run(msub))
    except Exception as e:  # noqa: BLE001
        obs["aux"] = ("err", exc_name(e))
    return obs


def py_canon(nargs, gates):
    """independent implementation of the canonical renaming by first use"""
    seen = {}
    out = []
    for o, qs in gates:
        r = []
        for q in qs:
            if q >= nargs and q not in seen:
                seen[q] = nargs + len(seen)
            r.append(q if q < nargs else seen[q])
        out.append((o, tuple(r)))
    return out


def enc_gates(gs):
    return ";".join(f"{o}:{','.join(map(str, qs))}" for o, qs in gs)


def dec_gates(s):
    s = s.strip()
    if not s:
        return []
    out = []
    for part in s.split(";"):
        o, qs = part.split(":")
        out.append((int(o), tuple(int(x) for x in qs.split(",")) if qs else ()))
    return out


def dec_res(s):
    s = s.strip()
    if s.startswith("ok"):
        return ("ok", dec_gates(s[2:]))
    return ("err", s[3:].strip())


# ---------------------------------------------------------------------------
# one batch of correspondence cases
# ---------------------------------------------------------------------------
def property_checks(ctx: Ctx, hp: HP, obs, tag):
    """the property itself, on the real code only (no model involved): a failure is a witness"""
    n = hp.root[0]
    inp = {"program": hp.to_json(), "path": tag}
    if obs.get("alias"):
        ctx.witness("aux-alias", "an auxiliary qubit allocated to a sub coincides with a qubit live in a caller", inp,
                    {"live,new": obs["alias"][:2]})
    ev, ex = obs.get("eval"), obs.get("expand")
    if ev and ex and ev[0] == "ok" and ex[0] == "ok":
        fl = obs.get("evalflat")
        if fl and fl[0] == "ok":
            if py_canon(n, ev[1]) != py_canon(n, fl[1]):
                ctx.witness("eval-vs-expand", "hierarchical evaluation differs from evaluation of the fully expanded form "
                            "(after canonical renaming of auxiliaries)", inp,
                            {"hier": enc_gates(ev[1]), "flat": enc_gates(fl[1])})
        elif fl:
            ctx.witness("eval-vs-expand", "evaluating the expanded form raises " + fl[1], inp)
        cnt = obs.get("counts")
        if cnt and cnt[0] == "ok":
            want = {}
            for o, _ in ev[1]:
                if not obs["filt"] or o in obs["filt"]:
                    want[o] = want.get(o, 0) + 1
            if want != cnt[1]:
                ctx.witness("gate-count", "GateCountEvaluatorHooks differs from the number of gates of the generated circuit", inp,
                            {"reported": cnt[1], "actual": want})
        elif cnt:
            ctx.witness("gate-count", "gate counter raises " + cnt[1] + " on a program that evaluates", inp)
        ax = obs.get("aux")
        if ax and ax[0] == "ok":
            if ax[1] != obs["peak"] - n or ax[1] != len(obs["expand_aux"]):
                ctx.witness("aux-count", "AuxQubitCountEvaluatorHooks differs from the peak auxiliary usage", inp,
                            {"reported": ax[1], "allocator_peak_minus_args": obs["peak"] - n, "expanded_aux": len(obs["expand_aux"])})
        elif ax:
            ctx.witness("aux-count", "aux counter raises " + ax[1] + " on a program that evaluates", inp)
    elif ev and ex and (ev[0] == "ok") != (ex[0] == "ok"):
        ctx.witness("eval-vs-expand", f"one of evaluation / expansion raises and the other does not: {ev[0]}/{ex}", inp)


def run_batch(ctx: Ctx, hps, paths, filts):
    """compile with the model, run model and real code, diff everything"""
    creq = [f"c19compile {1 if paths[i] == 'compile_sub' else 0} / " + hp.enc() for i, hp in enumerate(hps)]
    cres = ctx.driver(creq, entry=ENTRY)
    areq, idx = [], []
    for i, (hp, r) in enumerate(zip(hps, cres)):
        if r == "bad-request":
            raise InfraError("driver rejected " + creq[i][:300])
        if r.startswith("ok "):
            idx.append(i)
            areq.append(f"c19all {hp.nops} / {','.join(map(str, filts[i]))} / {r[3:]}")
    ares = dict(zip(idx, ctx.driver(areq, entry=ENTRY)))
    flat_req, flat_meta = [], []
    for i, hp in enumerate(hps):
        real = Real(hp)
        tag = paths[i]
        inp = {"program": hp.to_json(), "path": tag, "filter": filts[i]}
        ctx.traces += 1
        try:
            msub = real.link(tag)
            linked = "ok"
        except Exception as e:  # noqa: BLE001
            linked = exc_name(e)
        mc = cres[i]
        ctx.count("link", linked if linked != "ok" else "ok")
        if linked != "ok":
            want = "err unlinked" if linked == "ValueError" else "err ?" + linked
            if mc != want:
                ctx.disagree("compile/link", inp, "raises " + linked, mc)
            ctx.case(("link-fail",) + hp.key(), True, None)
            continue
        if not mc.startswith("ok "):
            ctx.disagree("compile/link", inp, "links", mc)
            continue
        obs = observe(real, msub, filts[i])
        obs["filt"] = filts[i]
        f = [x.strip() for x in ares[i].split(" # ")]
        if len(f) != 8:
            raise InfraError("driver response: " + ares[i][:300])
        m_eval, m_exp, m_canon, m_aux, m_peak, m_wf, m_acyc, m_counts = f
        nontrivial = any(o >= NSTD for o, _ in hp.root[2])
        ctx.case(hp.key() + (tag, tuple(filts[i])), nontrivial,
                 {"program": mc[3:][:300], "model_eval": m_eval[:160], "aux": m_aux, "wf": m_wf, "acyclic": m_acyc})
        ctx.count("wf", m_wf)
        ctx.count("acyclic", m_acyc)
        ctx.count("depth", str(_depth(hp)))
        ctx.count("outcome", m_eval.split(" ")[0] + ("" if m_eval.startswith("ok") else ":" + m_eval[4:]))
        n = hp.root[0]
        # --- model vs real
        me = dec_res(m_eval)
        if obs["eval"] is not None and obs["eval"] != me:
            ctx.disagree("eval", inp, _short(obs["eval"]), m_eval[:400])
        mx = dec_res(m_exp)
        if obs["expand"] != mx:
            ctx.disagree("expand", inp, _short(obs["expand"]), m_exp[:400])
        if obs["eval"] is not None and obs["eval"][0] == "ok":
            if m_canon != enc_gates(py_canon(n, obs["eval"][1])):
                ctx.disagree("canon", inp, enc_gates(py_canon(n, obs["eval"][1]))[:300], m_canon[:300])
            if str(obs["peak"]) != m_peak:
                ctx.disagree("allocator-peak", inp, obs["peak"], m_peak)
        if obs["expand"][0] == "ok":
            if obs["expand_args"] != tuple(range(n)):
                ctx.disagree("expand-args", inp, obs["expand_args"], tuple(range(n)))
            if sorted(obs["expand_aux"]) != list(range(n, int(m_peak))):
                ctx.disagree("expand-aux-set", inp, sorted(obs["expand_aux"]), f"{n}..{m_peak}")
            if obs["evalflat"] is not None:
              flat_req.append(f"c19flat {n} / {','.join(map(str, obs['expand_aux']))} / {enc_gates(obs['expand'][1])}")
              flat_meta.append((inp, obs, n))
        ma = m_aux.split(" ")
        ra = obs["aux"]
        if (ra[0] == "ok" and m_aux != f"ok {ra[1]}") or (ra[0] == "err" and m_aux != "err " + ra[1]):
            ctx.disagree("aux-count", inp, ra, m_aux)
        rc = obs["counts"]
        mcs = m_counts.split(",")
        if rc[0] == "ok":
            want = [str(rc[1].get(t, 0)) for t in range(hp.nops)]
            if want != mcs:
                ctx.disagree("gate-count", inp, rc[1], m_counts)
        else:
            if any(x != rc[1] for x in mcs):
                ctx.disagree("gate-count", inp, rc, m_counts)
        # theorem hypotheses vs outcome (sanity of the model-level statements on this very input)
        if m_wf == "true" and m_acyc == "true" and not (m_eval.startswith("ok") and m_exp == m_eval):
            ctx.disagree("theorem-instance", inp, "WF ∧ Acyclic", "eval/expand: " + m_eval[:100] + " / " + m_exp[:100])
        if m_wf == "true" and m_acyc == "false" and m_eval != "err recursion":
            ctx.disagree("theorem-instance", inp, "WF ∧ ¬Acyclic", m_eval[:100])
        # --- the property on the real code
        if m_wf == "true":
            property_checks(ctx, hp, obs, tag)
            if m_acyc == "false":
                for what in ("eval", "expand", "counts", "aux"):
                    r = obs.get(what)
                    if r is not None and r != ("err", "recursion"):
                        ctx.witness("cycle-not-rejected", f"a cyclic call graph is not rejected with MachineSubRecursionError by {what}: "
                                    + (r[1] if r[0] == "err" else "returns a result"), {"program": hp.to_json(), "path": tag})
        else:
            # malformed input (repeated / too many call arguments, wrong arity): outside the property; the model still has
            # to agree with the code, and we record whether the two real evaluation routes diverge there
            ev, fl = obs.get("eval"), obs.get("evalflat")
            if ev and fl and (ev[0] != fl[0] or (ev[0] == "ok" and py_canon(n, ev[1]) != py_canon(n, fl[1]))):
                ctx.count("malformed", "eval-and-expand-diverge")
            else:
                ctx.count("malformed", "agree")
    if flat_req:
        for (inp, obs, n), r in zip(flat_meta, ctx.driver(flat_req, entry=ENTRY)):
            a, b = [x.strip() for x in r.split(" # ")]
            if dec_res(a) != obs["evalflat"]:
                ctx.disagree("evalflat", inp, _short(obs["evalflat"]), a[:300])
            elif obs["evalflat"][0] == "ok" and b != enc_gates(py_canon(n, obs["evalflat"][1])):
                ctx.disagree("canon-flat", inp, enc_gates(py_canon(n, obs["evalflat"][1]))[:300], b[:300])


def _short(r):
    return (r[0], enc_gates(r[1])[:400]) if r[0] == "ok" else r


def _depth(hp: HP):
    memo = {}

    def d(o, stack):
        if o in hp.prims or o not in hp.subs or o in stack:
            return 0
        if o not in memo:
            memo[o] = 1 + max([d(x, stack | {o}) for x, _ in hp.subs[o][2]] + [0])
        return memo[o]

    return max([d(x, frozenset()) for x, _ in hp.root[2]] + [0])


def correspond(ctx: Ctx, n_cases: int):
    rng = ctx.rng
    hps, paths, filts = [], [], []
    # corpus first
    cdir = os.path.join(VERIF, "corpus", "C19")
    for fn in sorted(os.listdir(cdir)) if os.path.isdir(cdir) else []:
        if fn.endswith(".json"):
            d = json.load(open(os.path.join(cdir, fn)))
            hps.append(HP.from_json(d["program"]))
            paths.append(d.get("path", "linker"))
            filts.append(d.get("filter", []))
    kinds = ["acyclic"] * 10 + ["cyclic"] * 3 + ["repeat"] * 2 + ["arity", "missing"]
    for _ in range(n_cases):
        k = rng.choice(kinds)
        up = rng.random() < 0.15
        hp = gen_hp(rng, k, user_prims=up)
        ctx.count("kind", k + ("+userprims" if up else ""))
        hps.append(hp)
        paths.append(rng.choice(["linker", "compile_sub"]))
        r = rng.random()
        if r < 0.4:
            filts.append([])
        else:
            filts.append(sorted(rng.sample(range(hp.nops), rng.randint(1, 3))))
    run_batch(ctx, hps, paths, filts)



# ---------------------------------------------------------------------------
# translator (library tables) and the wrapper validation against the dense oracle
# ---------------------------------------------------------------------------
def gen(ctx: Ctx):
    with ctx.timed("translate"):
        try:
            txt, n, desc = c19gen.emit()
        except Exception as e:  # noqa: BLE001 – the translator cannot read the tree any more
            ctx.failed_obligations.append({"obligation": "translator.c19gen", "error": f"{type(e).__name__}: {e}"[:300]})
            return None
        ctx.write_generated("C19Lib", txt)
        ctx.generated_entries += n
        try:
            nc, ni = c19gen.count_candidates()
            if nc != len(desc["control"]) or ni != len(desc["inverse"]):
                ctx.failed_obligations.append({"obligation": "translator.entry_count",
                                               "error": f"control rows {len(desc['control'])}/{nc}, inverse rows {len(desc['inverse'])}/{ni}"})
        except Exception as e:  # noqa: BLE001
            ctx.failed_obligations.append({"obligation": "translator.entry_count", "error": str(e)[:200]})
        return desc


UNSAFE_UNDER_CTL = {"H": "controlled-H-order", "SqrtX": "controlled-sqrt-phase", "SqrtXdag": "controlled-sqrt-phase",
                    "SqrtY": "controlled-sqrt-phase", "SqrtYdag": "controlled-sqrt-phase"}
PRIM1 = ["H", "X", "Y", "Z", "S", "Sdag", "T", "Tdag", "SqrtX", "SqrtXdag", "SqrtY", "SqrtYdag", "RX", "RY", "RZ", "Phase"]
PRIM23 = ["CNOT", "CZ", "SWAP", "Toffoli"]
_uniq = [0]


class RealTerms:
    def __init__(self, subs):
        from quri_parts.qsub.namespace import NameSpace

        self.subs = subs
        self.cache = {}
        _uniq[0] += 1
        self.ns = NameSpace(f"c19w{_uniq[0]}")

    def op(self, t):
        import math

        from oracle import qsub_dense as QD
        from quri_parts.qsub.lib import std
        from quri_parts.qsub.op import Ident, Op
        from quri_parts.qsub.resolve import default_repository
        from quri_parts.qsub.sub import SubBuilder

        k = t[0]
        if k == "prim":
            o = getattr(std, t[1])
            return o(t[2] * math.pi / 8) if t[1] in QD.PARAM else o
        if k == "user":
            if t[1] not in self.cache:
                nargs, naux, ph, ops = self.subs[t[1]]
                b = SubBuilder(nargs)
                names = list(b.qubits) + list(b.add_aux_qubits(naux))
                for term, qs in ops:
                    b.add_op(self.op(term), tuple(names[q] for q in qs))
                if ph:
                    b.add_phase(ph * math.pi / 4)
                o = Op(Ident(self.ns, f"W{t[1]}"), nargs)
                default_repository().register_sub(o, b.build())
                self.cache[t[1]] = o
            return self.cache[t[1]]
        if k == "inv":
            return std.Inverse(self.op(t[1]))
        if k == "ctl":
            return std.Controlled(self.op(t[1]))
        return std.MultiControlled(self.op(t[1]), t[2], t[3])


def real_unitary(term, subs):
    """compile + evaluate with the real code; returns (matrix on the term's qubits, leakage) or raises"""
    import numpy as np

    from oracle import dense
    from oracle import qsub_dense as QD
    from quri_parts.qsub.compile import compile_sub
    from quri_parts.qsub.eval import QURIPartsEvaluatorHooks
    from quri_parts.qsub.evaluate import Evaluator
    from quri_parts.qsub.primitive import AllBasicSet
    from quri_parts.qsub.sub import SubBuilder

    rt = RealTerms(subs)
    a = QD.arity(term, subs)
    b = SubBuilder(a)
    b.add_op(rt.op(term), b.qubits)
    ms = compile_sub(b.build(), AllBasicSet)
    circ = Evaluator(QURIPartsEvaluatorHooks()).run(ms)
    n = max(circ.qubit_count, a)
    if n > 9:
        return None, None
    u = dense.circuit_unitary(n, circ.gates)
    d = 1 << a
    leak = float(np.max(np.abs(u[d:, :d]))) if n > a else 0.0
    return u[:d, :d], leak


def gen_term(rng, subs, depth, under_ctl, max_arity):
    from oracle import qsub_dense as QD

    def prim(ar_max):
        pool = list(PRIM1)
        if ar_max >= 2:
            pool += ["CNOT", "CZ", "SWAP"] * 2
        if ar_max >= 3:
            pool += ["Toffoli"] * 2
        name = rng.choice(pool)
        return ("prim", name, rng.randint(-9, 9) if name in QD.PARAM else None)

    r = rng.random()
    if depth <= 0 or r < 0.25:
        return prim(max_arity)
    if r < 0.45:
        return ("inv", gen_term(rng, subs, depth - 1, under_ctl, max_arity))
    if r < 0.65 and max_arity >= 2:
        return ("ctl", gen_term(rng, subs, depth - 1, True, max_arity - 1))
    if r < 0.75 and max_arity >= 2:
        bits = rng.randint(1, min(3, max_arity - 1))
        return ("mctl", gen_term(rng, subs, depth - 1, True, max_arity - bits), bits, rng.randrange(1 << bits))
    # a user sub
    nargs = rng.randint(1, max_arity)
    uid = len(subs)
    subs[uid] = None
    ops = []
    naux = 0
    if nargs >= 3 and rng.random() < 0.35:
        naux = 1
        a, b, c = rng.sample(range(nargs), 3)
        mid = [(("prim", rng.choice(["CNOT", "CZ"]), None), (nargs, c))]
        if rng.random() < 0.5:
            mid.append((gen_term(rng, subs, 0, under_ctl, 1), (c,)))
        ops = [(("prim", "Toffoli", None), (a, b, nargs))] + mid + [(("prim", "Toffoli", None), (a, b, nargs))]
    for _ in range(rng.randint(1, 3)):
        t = gen_term(rng, subs, depth - 1, under_ctl, nargs)
        ar = QD.arity(t, subs)
        pos = rng.randint(0, len(ops)) if naux == 0 else rng.choice([0, len(ops)])
        ops.insert(pos, (t, tuple(rng.sample(range(nargs), ar))))
    subs[uid] = (nargs, naux, rng.choice([0, 0, 0, 1, 2, 4, 6, 3, 7]), ops)
    return ("user", uid)


def check_term(ctx, term, subs, tol=1e-7):
    """None if the real code implements the oracle's unitary (up to a global phase), else a description"""
    from oracle import dense
    from oracle import qsub_dense as QD

    try:
        want = QD.unitary(term, subs)
    except QD.NotClean:
        return "skip"
    try:
        got, leak = real_unitary(term, subs)
    except Exception as e:  # noqa: BLE001
        return f"raises {type(e).__name__}: {str(e)[:120]}"
    if got is None:
        return "skip"
    if leak > tol:
        return f"auxiliary qubits are not returned to |0> (leakage {leak:.3g})"
    d = dense.phase_dist(got, want)
    return None if d <= tol else f"unitary differs from the oracle by {d:.4g} (up to a global phase)"


def minimal_bad(ctx, term, subs):
    """descend to a smallest sub-term the real code gets wrong"""
    from oracle import qsub_dense as QD

    for ch in QD.children(term, subs):
        r = check_term(ctx, ch, subs)
        if r not in (None, "skip"):
            return minimal_bad(ctx, ch, subs)
    return term


def term_key(term, subs):
    if term[0] in ("ctl", "mctl"):
        inner = term[1]
        while inner[0] == "inv":
            inner = inner[1]
        if inner[0] == "prim" and inner[1] in UNSAFE_UNDER_CTL:
            return UNSAFE_UNDER_CTL[inner[1]]
    if term[0] == "ctl" and term[1][0] == "inv" and term[1][1][0] == "user" and subs[term[1][1][1]][2] != 0:
        return "inverse-drops-phase"
    if term[0] == "ctl" and term[1][0] == "prim":
        return "controlled:" + term[1][1]
    if term[0] == "inv" and term[1][0] == "prim":
        return "inverse:" + term[1][1]
    return "wrapper:" + term[0] + "(" + term[1][0] + ")" if len(term) > 1 and isinstance(term[1], tuple) else "wrapper:" + term[0]



KNOWN_KEYS = ["controlled-H-order", "controlled-sqrt-phase", "inverse-drops-phase"]


class patched:
    """ATTRIBUTION ONLY: temporarily registers corrected resolvers (in front of the library's own) for the rows that are
    known to be wrong, to decide whether a failing nesting fails *only* because of them.  Never active while a
    verdict about the unchanged code is computed."""

    def __init__(self, keys):
        self.keys = set(keys)
        self.undo = []

    def __enter__(self):
        import dataclasses
        import math

        from quri_parts.qsub.lib import std
        from quri_parts.qsub.lib.std import control as C
        from quri_parts.qsub.lib.std import inverse as I
        from quri_parts.qsub.resolve import default_repository
        from quri_parts.qsub.sub import SubBuilder

        repo = default_repository()
        lc = repo._mapping[std.Controlled.base_id]
        li = repo._mapping[std.Inverse.base_id]

        def add(lst, entry, pos=None):
            if pos is None:
                lst.append(entry)
            else:
                lst.insert(pos, entry)
            self.undo.append((lst, entry))

        if "controlled-H-order" in self.keys:
            def h_res(op, repository):
                b = SubBuilder(op.qubit_count, op.reg_count)
                q0, q1 = b.qubits
                b.add_op(std.RY(-math.pi / 4), (q1,))
                b.add_op(std.CZ, (q0, q1))
                b.add_op(std.RY(math.pi / 4), (q1,))
                return b.build()
            add(lc, (h_res, C.control_target_condition(std.H)))
        if "controlled-sqrt-phase" in self.keys:
            def mk(fn, ang, corr):
                def res(op, repository):
                    b = SubBuilder(op.qubit_count, op.reg_count)
                    q0, q1 = b.qubits
                    fn(b, q0, q1, ang)
                    b.add_op(corr, (q0,))
                    return b.build()
                return res
            add(lc, (mk(C._crx, math.pi / 2, std.T), C.control_target_condition(std.SqrtX)))
            add(lc, (mk(C._crx, -math.pi / 2, std.Tdag), C.control_target_condition(std.SqrtXdag)))
            add(lc, (mk(C._cry, math.pi / 2, std.T), C.control_target_condition(std.SqrtY)))
            add(lc, (mk(C._cry, -math.pi / 2, std.Tdag), C.control_target_condition(std.SqrtYdag)))
        if "inverse-drops-phase" in self.keys:
            def inv_res(op, repository):
                sub = I.inverse_sub_resolver(op, repository)
                target_op = op.id.params[0]
                if sub is None or target_op.self_inverse:
                    return sub
                r = repository.find_resolver(target_op)
                tsub = r(target_op, repository) if r else None
                if tsub is None:
                    return sub
                return dataclasses.replace(sub, phase=(-tsub.phase) % (2 * math.pi))
            add(li, (inv_res, None), pos=1)
        return self

    def __exit__(self, *a):
        for lst, entry in reversed(self.undo):
            for i in range(len(lst) - 1, -1, -1):
                if lst[i] is entry:
                    del lst[i]
                    break
        self.undo = []
        return False


def attribute(ctx, term, subs):
    """key of the known finding that alone explains the mismatch of `term`, or None (a new defect)"""
    with patched(KNOWN_KEYS):
        r = check_term(ctx, term, subs)
    if r not in (None, "skip"):
        return None
    needed = []
    for k in KNOWN_KEYS:
        with patched([x for x in KNOWN_KEYS if x != k]):
            if check_term(ctx, term, subs) not in (None, "skip"):
                needed.append(k)
    return needed[0] if needed else KNOWN_KEYS[0]


def report_bad(ctx, t, subs, r):
    from oracle import qsub_dense as QD

    m = minimal_bad(ctx, t, subs)
    key = attribute(ctx, m, subs)
    if key is None:
        key = term_key(m, subs)
        if key in KNOWN_KEYS:  # the known row is wrong AND something else is: keep them apart
            key = "wrapper:" + key + "+other"
    ctx.witness(key, f"{QD.show(m, subs)}: {check_term(ctx, m, subs)}",
                {"term": QD.show(t, subs), "minimal": QD.show(m, subs), "wrapper_term": m, "wrapper_subs": {str(k): v for k, v in subs.items()}})
    return key


def wrapper_validate(ctx: Ctx, n_random: int):
    from oracle import qsub_dense as QD

    rng = ctx.rng
    n_eval = 0
    # 1. every std op alone under Inverse / Controlled / Controlled∘Controlled / Controlled∘Inverse / MultiControlled
    for name in PRIM1 + PRIM23:
        ks = [None] if name not in QD.PARAM else [rng.randint(-9, 9), 3]
        for k in ks:
            base = ("prim", name, k)
            forms = [("inv", base), ("ctl", base), ("ctl", ("inv", base)), ("inv", ("ctl", base)), ("ctl", ("ctl", base)),
                     ("mctl", base, 2, rng.randrange(4))]
            for t in forms:
                if QD.arity(t, {}) > 5:
                    continue
                r = check_term(ctx, t, {})
                n_eval += 1
                ctx.count("wrapper", "table:" + ("ok" if r is None else "skip" if r == "skip" else "MISMATCH"))
                if r not in (None, "skip"):
                    ctx.count("wrapper_keys", report_bad(ctx, t, {}, r))
    # 2. tracked global phase of a sub under Controlled, and under Controlled(Inverse(.))
    for ph in (1, 2, 4, 6, 3):
        subs = {0: (1, 0, ph, [(("prim", "X", None), (0,)), (("prim", "T", None), (0,))])}
        for t in (("ctl", ("user", 0)), ("ctl", ("inv", ("user", 0))), ("ctl", ("ctl", ("user", 0)))):
            r = check_term(ctx, t, subs)
            n_eval += 1
            ctx.count("wrapper", "phase:" + ("ok" if r is None else "MISMATCH"))
            if r not in (None, "skip"):
                ctx.count("wrapper_keys", report_bad(ctx, t, subs, r))
    # 3. random nestings; a mismatch is attributed to a known finding only if correcting exactly the known rows
    #    (class `patched`) makes this very nesting agree with the oracle
    for _ in range(n_random):
        if sum(v for k, v in ctx.dist.get("wrapper_keys", {}).items() if k not in KNOWN_KEYS) >= 40:
            ctx.notes.append("wrapper validation stopped early: 40 mismatches that the known findings do not explain")
            break
        subs = {}
        t = gen_term(rng, subs, rng.randint(1, 4), False, rng.randint(1, 4))
        r = check_term(ctx, t, subs)
        n_eval += 1
        ctx.count("wrapper", "random:" + ("ok" if r is None else "skip" if r == "skip" else "MISMATCH"))
        ctx.count("wrapper_top", t[0])
        if r not in (None, "skip"):
            ctx.count("wrapper_keys", report_bad(ctx, t, subs, r))
    ctx.evaluations += n_eval
    ctx.extra["oracle_wrapper_evaluations"] = n_eval


def _has_ctl_inv_phase(t, subs, under_ctl, under_inv):
    """a sub with a non-zero tracked phase below both a Controlled and an Inverse (known finding inverse-drops-phase)"""
    k = t[0]
    if k == "prim":
        return False
    if k == "user":
        nargs, naux, ph, ops = subs[t[1]]
        if ph and under_ctl and under_inv:
            return True
        return any(_has_ctl_inv_phase(x, subs, under_ctl, under_inv) for x, _ in ops)
    if k == "inv":
        return _has_ctl_inv_phase(t[1], subs, under_ctl, True)
    return _has_ctl_inv_phase(t[1], subs, True, under_inv)


def resolver_structure(ctx: Ctx, n_cases: int):
    """the generic Inverse / Controlled resolvers as program transformations: real resolved sub vs `invSub` / `ctlSub`"""
    import math

    from quri_parts.qsub.lib import std
    from quri_parts.qsub.namespace import NameSpace
    from quri_parts.qsub.op import Ident, Op
    from quri_parts.qsub.resolve import SubRepository, default_repository, resolve_sub
    from quri_parts.qsub.sub import SubBuilder

    rng = ctx.rng
    names = ["H", "X", "T", "S", "CNOT", "CZ", "SWAP", "Toffoli"]
    reqs, meta = [], []
    for ci in range(n_cases):
        _uniq[0] += 1
        ns = NameSpace(f"c19r{_uniq[0]}")
        ops = [getattr(std, n) for n in names] + [Op(Ident(ns, f"G{j}"), rng.randint(1, 3), self_inverse=(rng.random() < 0.3))
                                                   for j in range(3)]
        ar = [o.qubit_count for o in ops]
        nargs, naux = rng.randint(1, 3), rng.randint(0, 2)
        body = []
        for _ in range(rng.randint(0, 6)):
            cands = [i for i in range(len(ops)) if ar[i] <= nargs + naux]
            o = rng.choice(cands)
            body.append((o, tuple(rng.sample(range(nargs + naux), ar[o]))))
        ph = rng.choice([0, 0, 1, 2, 4, 6, 5])
        b = SubBuilder(nargs)
        nm = list(b.qubits) + list(b.add_aux_qubits(naux))
        for o, qs in body:
            b.add_op(ops[o], tuple(nm[q] for q in qs))
        if ph:
            b.add_phase(ph * math.pi / 4)
        F = Op(Ident(ns, "F"), nargs)
        repo = default_repository()
        repo.register_sub(F, b.build())
        prog = f"{nargs} {naux} " + ";".join(f"p{o}:{','.join(map(str, qs))}" for o, qs in body)
        selfinv = [i for i, o in enumerate(ops) if o.self_inverse]
        pairs = ",".join(f"{i}-{i + 100}" for i in range(len(ops)) if i not in selfinv)
        reqs.append(f"c19inv {pairs} / {prog}")
        reqs.append(f"c19ctl 100 / {prog}")
        meta.append((ops, F, repo, ph, prog, resolve_sub))
    resp = ctx.driver(reqs, entry=ENTRY)
    lad = {4: "Z", 2: "S", 6: "Sdag"}
    for i, (ops, F, repo, ph, prog, resolve_sub) in enumerate(meta):
        idx = {o: j for j, o in enumerate(ops)}

        def enc(sub, wrapper):
            out = []
            for o, qs, rs in sub.operations:
                if o.base_id == wrapper.base_id:
                    out.append(f"p{idx[o.id.params[0]] + 100}:{','.join(str(q.uid) for q in qs)}")
                elif o in idx:
                    out.append(f"p{idx[o]}:{','.join(str(q.uid) for q in qs)}")
                else:
                    out.append(f"?{o.id}:{','.join(str(q.uid) for q in qs)}")
            return f"{len(sub.qubits)} {len(sub.aux_qubits)} " + ";".join(out)

        ctx.traces += 2
        try:
            si = resolve_sub(std.Inverse(F), repo)
            real_i = enc(si, std.Inverse)
            if si.phase != 0 and ph != 0:
                ctx.count("resolver", "inverse-keeps-phase")
        except Exception as e:  # noqa: BLE001
            real_i = "raises " + type(e).__name__
        if real_i.strip() != resp[2 * i].strip():
            ctx.disagree("inverse_sub_resolver", {"sub": prog}, real_i, resp[2 * i])
        try:
            sc = resolve_sub(std.Controlled(F), repo)
            real_c = enc(sc, std.Controlled)
        except Exception as e:  # noqa: BLE001
            real_c = "raises " + type(e).__name__
        want = resp[2 * i + 1].strip()
        if ph:
            extra = f"p{['H', 'X', 'T', 'S'].index(lad[ph]) if lad.get(ph) in ['H', 'X', 'T', 'S'] else -1}:0" if False else None
            # the phase correction op is compared by name below
            tail = real_c.rsplit(";", 1)[-1] if ";" in real_c else real_c.split(" ", 2)[-1]
            head = real_c[: len(real_c) - len(tail)].rstrip(";")
            exp_name = lad.get(ph, "Phase")
            last = sc.operations[-1] if not real_c.startswith("raises") else None
            okp = last is not None and last[0].id.local_name == exp_name and [q.uid for q in last[1]] == [0]
            if not okp:
                ctx.disagree("controlled_sub_resolver.phase", {"sub": prog, "phase_pi_4": ph}, str(last), exp_name + " on control")
            real_c = head
        if real_c.strip() != want:
            ctx.disagree("controlled_sub_resolver", {"sub": prog}, real_c, want)
        ctx.case(("resolver", prog, ph), True, None)


def transpiler_validate(ctx: Ctx, n_cases: int):
    """trans/qp_trans.py: compiling with a SeparateQURIPartsTranspiler leaves the circuit's action unchanged"""
    import numpy as np

    import quri_parts.circuit.transpile as qt
    from oracle import dense
    from quri_parts.qsub.compile import compile_sub
    from quri_parts.qsub.eval import QURIPartsEvaluatorHooks
    from quri_parts.qsub.evaluate import Evaluator
    from quri_parts.qsub.resolve import SubRepository
    from quri_parts.qsub.trans.qp_trans import SeparateQURIPartsTranspiler

    rng = ctx.rng
    pool = [qt.CZ2CNOTHTranspiler, qt.SWAP2CNOTTranspiler, qt.H2RZSqrtXTranspiler, qt.TOFFOLI2HTTdagCNOTTranspiler,
            qt.CNOT2CZHTranspiler, qt.T2RZTranspiler, qt.S2RZTranspiler]
    done = 0
    tries = 0
    while done < n_cases and tries < n_cases * 12:
        tries += 1
        hp = gen_hp(rng, "acyclic")
        if any(o >= NSTD for o in hp.prims) or any(o < NSTD for o in hp.subs) or len(hp.prims) != NSTD:
            continue  # std ops keep their meaning: all primitive, none with a user-defined sub
        real = Real(hp)
        repo = SubRepository()
        for o, hs in hp.subs.items():
            repo.register_sub(real.ops[o], real.sub(hs))
        from quri_parts.qsub.lib import std as _std
        allp = [getattr(_std, n) for n in ["CNOT", "CZ", "H", "Identity", "S", "Sdag", "SqrtX", "SqrtXdag", "SqrtY", "SqrtYdag",
                                            "SWAP", "T", "Tdag", "Toffoli", "X", "Y", "Z", "RX", "RY", "RZ"]]
        trs = [t() for t in rng.sample(pool, rng.randint(1, 3))]
        try:
            c0 = Evaluator(QURIPartsEvaluatorHooks()).run(compile_sub(real.sub(hp.root), allp, repo))
        except Exception:  # noqa: BLE001
            continue
        inp = {"program": hp.to_json(), "transpilers": [type(t).__name__ for t in trs]}
        try:
            c1 = Evaluator(QURIPartsEvaluatorHooks()).run(
                compile_sub(real.sub(hp.root), allp, repo, [SeparateQURIPartsTranspiler(trs)]))
        except Exception as e:  # noqa: BLE001
            ctx.witness("qp-trans", f"compiling with SeparateQURIPartsTranspiler raises {type(e).__name__}: {str(e)[:100]}", inp)
            continue
        n = max(c0.qubit_count, c1.qubit_count)
        if n > 8 or len(c0.gates) == 0:
            continue
        d = dense.phase_dist(dense.circuit_unitary(n, c1.gates), dense.circuit_unitary(n, c0.gates))
        done += 1
        ctx.evaluations += 1
        ctx.count("qp_trans", "ok" if d <= 1e-7 else "MISMATCH")
        if d > 1e-7:
            ctx.witness("qp-trans", f"transpiled compilation differs from the plain one by {d:.3g} (up to phase)", inp)




def register_expand_check(ctx: Ctx, n_cases: int):
    """registers go through `_expand` exactly like qubits (RegisterAllocator / map_registers): the same model function is run
    on the register view and on the qubit view of programs whose ops carry both"""
    from quri_parts.qsub.codegen import CodeGenerator
    from quri_parts.qsub.expand import full_expand
    from quri_parts.qsub.link import Linker
    from quri_parts.qsub.namespace import NameSpace
    from quri_parts.qsub.op import Ident, Op
    from quri_parts.qsub.sub import SubBuilder

    rng = ctx.rng
    reqs, meta = [], []
    for _ in range(n_cases):
        _uniq[0] += 1
        ns = NameSpace(f"c19g{_uniq[0]}")
        sig = [(1, 1), (0, 2), (1, 0), (2, 1)]  # leaf ops: (qubits, registers)
        nleaf = len(sig)
        nuser = rng.randint(1, 4)
        for _j in range(nuser):
            sig.append((rng.randint(1, 2), rng.randint(0, 2)))
        ops = [Op(Ident(ns, f"P{i}"), q, r, unitary=False) for i, (q, r) in enumerate(sig)]
        hs = {}
        nroot = (rng.randint(1, 2), rng.randint(0, 2))

        def body(qa, ra, usable):
            qx, rx = rng.randint(0, 1), rng.randint(0, 2)
            out = []
            for _k in range(rng.randint(1, 4)):
                c = [o for o in usable if sig[o][0] <= qa + qx and sig[o][1] <= ra + rx]
                if not c:
                    break
                o = rng.choice(c)
                out.append((o, tuple(rng.sample(range(qa + qx), sig[o][0])), tuple(rng.sample(range(ra + rx), sig[o][1]))))
            return (qa, qx, ra, rx, out)

        for o in range(nleaf, nleaf + nuser):
            hs[o] = body(sig[o][0], sig[o][1], list(range(o)))
        root = body(nroot[0], nroot[1], list(range(len(sig))))

        def real_sub(h):
            qa, qx, ra, rx, out = h
            b = SubBuilder(qa, ra)
            qn = list(b.qubits) + list(b.add_aux_qubits(qx))
            rn = list(b.registers) + list(b.add_aux_registers(rx))
            for o, qs, rs in out:
                b.add_op(ops[o], tuple(qn[q] for q in qs), tuple(rn[r] for r in rs))
            return b.build()

        cg = CodeGenerator(ops[:nleaf])
        try:
            ms = Linker({ops[o]: cg.lower(real_sub(h)) for o, h in hs.items()}).link(cg.lower(real_sub(root)))
            ex = full_expand(ms)
            idx = {op.base_id: i for i, op in enumerate(ops)}
            real_q = ("ok", [(idx[m.op.base_id], tuple(q.uid for q in qs)) for m, qs, rs in ex.instructions])
            real_r = ("ok", [(idx[m.op.base_id], tuple(r.uid for r in rs)) for m, qs, rs in ex.instructions])
            real_ar = sorted(r.uid for r in ex.aux_registers)
        except Exception as e:  # noqa: BLE001
            real_q = real_r = ("err", exc_name(e))
            real_ar = None

        def view(h, which):
            qa, qx, ra, rx, out = h
            a, x = (qa, qx) if which == "q" else (ra, rx)
            return f"{a} {x} " + ";".join(f"{o}:{','.join(map(str, (qs if which == 'q' else rs)))}" for o, qs, rs in out)

        for which in ("q", "r"):
            subs = " | ".join(view(hs[o], which) if o in hs else "-" for o in range(len(sig)))
            reqs.append(f"c19compile 0 / {','.join(map(str, range(nleaf)))} / {view(root, which)} / {subs}")
        meta.append((real_q, real_r, real_ar, root))
    comp = ctx.driver(reqs, entry=ENTRY)
    areq = [f"c19all {8} / / {r[3:]}" for r in comp if r.startswith("ok ")]
    if len(areq) != len(comp):
        raise InfraError("register view: model compile failed: " + str([r for r in comp if not r.startswith('ok ')][:2]))
    ares = ctx.driver(areq, entry=ENTRY)
    for i, (real_q, real_r, real_ar, root) in enumerate(meta):
        for j, (which, real) in enumerate((("q", real_q), ("r", real_r))):
            f = [x.strip() for x in ares[2 * i + j].split(" # ")]
            ctx.traces += 1
            if dec_res(f[1]) != real:
                ctx.disagree("expand-" + ("qubits" if which == "q" else "registers"), {"request": reqs[2 * i + j]}, _short(real), f[1][:300])
            if which == "r" and real[0] == "ok" and real_ar != list(range(root[2], int(f[4]))):
                ctx.disagree("expand-aux-registers", {"request": reqs[2 * i + j]}, real_ar, f"{root[2]}..{f[4]}")
        ctx.case(("regs", reqs[2 * i + 1]), True, None)


def exhaustive_small(ctx: Ctx):
    """thorough tier: EVERY program of a small scope — leaf sub A (one instruction over {H, CNOT}), middle sub B (one call of A
    with any injective argument tuple), root (a call of B then a call of A, any injective argument tuples), each with
    1–2 arguments and 0–1 auxiliaries"""
    import itertools

    H_, CN = 0, 4
    shapes = [(1, 0), (1, 1), (2, 0), (2, 1)]
    A_OP, B_OP = NSTD, NSTD + 1
    progs = []
    for (an, ax) in shapes:
        sa = an + ax
        a_bodies = [[(H_, (q,))] for q in range(sa)] + [[(CN, t)] for t in itertools.permutations(range(sa), 2)]
        for ab in a_bodies:
            for (bn, bx) in shapes:
                sb = bn + bx
                for bt in itertools.permutations(range(sb), an):
                    for (rn, rx) in shapes:
                        sr = rn + rx
                        for rb in itertools.permutations(range(sr), bn):
                            for ra in itertools.permutations(range(sr), an):
                                subs = {A_OP: (an, ax, ab), B_OP: (bn, bx, [(A_OP, bt)])}
                                root = (rn, rx, [(B_OP, rb), (A_OP, ra)])
                                progs.append(HP(NSTD + 2, [a for _, a, _ in PRIMS] + [an, bn], set(range(NSTD)), subs, root))
    ctx.extra["exhaustive_small_programs"] = len(progs)
    for i in range(0, len(progs), 1500):
        chunk = progs[i:i + 1500]
        run_batch(ctx, chunk, ["linker" if (i + j) % 2 else "compile_sub" for j in range(len(chunk))], [[] for _ in chunk])


def _detuple(x):
    return tuple(_detuple(y) for y in x) if isinstance(x, (list, tuple)) else x


def _order_witnesses(ctx: Ctx):
    """new keys first, at most two witnesses per key (the replay file keeps the first five)"""
    seen = {}
    out = []
    for w in sorted(ctx.witnesses, key=lambda w: w["key"] in KNOWN_KEYS):
        seen[w["key"]] = seen.get(w["key"], 0) + 1
        if seen[w["key"]] <= 2:
            out.append(w)
    ctx.extra["witness_keys"] = seen
    ctx.witnesses = out


def run(ctx: Ctx, replay=None) -> int:
    ctx.rule = ("case = (op-level program, link path, gate-count filter); real compile/link/eval/expand/counters vs the "
                "Lean model on the same program; distinct = distinct canonical programs whose root calls a user sub; "
                "plus generic-resolver structure cases and oracle validation of Inverse/Controlled/MultiControlled nestings "
                "(counted in evaluations only)")
    ctx.trusted = TRUSTED
    ctx.assumptions = ["subs are built by SubBuilder (argument i is Qubit(i), auxiliary j is Qubit(nArgs+j))",
                       "the theorems need WF: call arity matches and a callee has at most as many arguments as the caller has names",
                       "Controlled(U) on (c, *qs) means |0><0|_c ⊗ 1 + |1><1|_c ⊗ U; MultiControlled control i is bit i of control_value "
                       "(validated each run against the real MultiControlledSub through the dense oracle)"]
    desc = gen(ctx)
    ok = ctx.prove(LEAN_TARGETS, OBLIGATION_MODULES)
    if ok:
        names = [f"QV.Props.C19.{n}" for _, n, _ in ctx.count_obligations(["QuriVerif.Props.C19"])]
        names += [f"QV.Props.C19Lib.{n}" for _, n, _ in ctx.count_obligations(["QuriVerif.Props.C19Lib"])]
        ctx.audit(names, ["QuriVerif.Props.C19", "QuriVerif.Props.C19Lib"])
    broken = bool(ctx.failed_obligations)
    with ctx.timed("correspond"):
        if replay:
            d = json.load(open(replay))
            for w in d.get("witnesses", []) + d.get("disagreements", []):
                inp = w.get("input", {})
                if isinstance(inp, dict) and "program" in inp and "transpilers" not in inp:
                    run_batch(ctx, [HP.from_json(inp["program"])], [inp.get("path", "linker")], [inp.get("filter", [])])
                if isinstance(inp, dict) and "wrapper_term" in inp:
                    t, subs = _detuple(inp["wrapper_term"]), {int(k): _detuple(v) for k, v in inp["wrapper_subs"].items()}
                    r = check_term(ctx, t, subs)
                    if r not in (None, "skip"):
                        report_bad(ctx, t, subs, r)
        else:
            correspond(ctx, ctx.n(2500, 50000))
            resolver_structure(ctx, ctx.n(200, 1500))
            register_expand_check(ctx, ctx.n(150, 2000))
            if not ctx.quick():
                exhaustive_small(ctx)
    broken = broken or bool(ctx.disagreements)
    with ctx.timed("oracle_validation"):
        have_new = any(w["key"] not in KNOWN_KEYS for w in ctx.witnesses)
        mult = 4 if (broken and not have_new) else 1
        broken = broken and not have_new
        t0 = time.time()
        if not replay:
            wrapper_validate(ctx, ctx.n(500, 15000) * mult)
            transpiler_validate(ctx, ctx.n(60, 1000) * mult)
            if broken:
                correspond(ctx, ctx.n(500, 4000))
        ctx.search_budget_s = round(time.time() - t0, 1)
    _order_witnesses(ctx)
    return ctx.finish()
