"""C02 — Gate-set conversion delivers only the requested gates."""
from __future__ import annotations

import itertools
import os
import sys

sys.path.insert(0, os.path.dirname(os.path.dirname(os.path.abspath(__file__))))

import c01  # noqa: E402
import qp  # noqa: E402
from common import Ctx  # noqa: E402
from translate import c01gen  # noqa: E402

LEAN_TARGETS = ["QuriVerif.Props.C02"]

PROMISED = {
    "RZSetTranspiler": {"X", "SqrtX", "CNOT", "RZ"},
    "RotationSetTranspiler": {"RX", "RY", "RZ", "CNOT"},
    "CliffordRZSetTranspiler": {"H", "X", "Y", "Z", "SqrtX", "SqrtXdag", "SqrtY", "SqrtYdag", "S", "Sdag", "RZ", "CZ", "CNOT"},
    "STARSetTranspiler": {"H", "S", "RZ", "CNOT"},
}


# single-qubit Clifford gate names (restated here, not read from the code under test)
C1Q = ["Identity", "X", "Y", "Z", "H", "S", "Sdag", "SqrtX", "SqrtXdag", "SqrtY", "SqrtYdag"]
PARAM_NAMES = {"ParametricRX": "RX", "ParametricRY": "RY", "ParametricRZ": "RZ", "ParametricPauliRotation": "PauliRotation"}
FORMS = ["list", "tuple", "set", "frozenset", "generator", "dict-keys", "dup-reversed", "numpy", "shuffled"]


def in_form(rng, names, form=None):
    """(form name, factory) – the same collection of gate names in an argument form the in-tree callers never use.
    The factory returns a fresh object per call (generators are one-shot)."""
    names = list(names)
    form = form or rng.choice(FORMS)
    if form == "shuffled":
        names = rng.sample(names, len(names))
    if form == "dup-reversed":
        names = list(reversed(names)) + names[:2]
    if form in ("list", "shuffled", "dup-reversed"):
        return form, (lambda: list(names))
    if form == "tuple":
        return form, (lambda: tuple(names))
    if form == "set":
        return form, (lambda: set(names))
    if form == "frozenset":
        return form, (lambda: frozenset(names))
    if form == "generator":
        return form, (lambda: (k for k in names))
    if form == "dict-keys":
        return form, (lambda: dict.fromkeys(names).keys())
    if form == "numpy":
        import numpy as np

        return form, (lambda: np.array(names, dtype=str))
    raise KeyError(form)


def shared(factory):
    """one transpiler object re-used by several cases (state carried between calls would show)"""
    box = []

    def make():
        if not box:
            box.append(factory())
        return box[0]

    return make


def gen(ctx: Ctx):
    r = c01.gen(ctx)
    with ctx.timed("translate"):
        txt, n, pr = c01gen.gen_presets_lean()
        ctx.write_generated("C02Presets", txt)
        ctx.generated_entries += n
    return r


def target_sets(ctx: Ctx):
    rng = ctx.rng
    base = ["H", "X", "Y", "Z", "S", "Sdag", "SqrtX", "T", "RX", "RY", "RZ"]
    if ctx.quick():
        sets = []
        for _ in range(50):
            s = [k for k in base + ["SqrtXdag", "SqrtY", "SqrtYdag", "Tdag", "Identity", "U3", "SWAP", "TOFFOLI"] if rng.random() < 0.35]
            s.append(rng.choice(["CNOT", "CZ"]))
            if rng.random() < 0.2:
                s.append("CZ")
            sets.append(s)
        return sets
    sets = []
    for r in range(len(base) + 1):
        for comb in itertools.combinations(base, r):
            for ent in ("CNOT", "CZ"):
                sets.append(list(comb) + [ent])
    return sets


def probe_circuits(n=3):
    """a fixed basis of single-gate circuits over the vocabulary (grid angles)"""
    out = []
    for k in qp.ONE_Q:
        out.append([qp.tg(k, (), (1,))])
    for k in ("RX", "RY", "RZ", "U1"):
        for a in (5, 32, 64):
            out.append([qp.tg(k, (), (0,), (a,))])
    out.append([qp.tg("U2", (), (2,), (7, 32))])
    out.append([qp.tg("U3", (), (2,), (7, 32, -9))])
    out += [[qp.tg("CNOT", (0,), (2,))], [qp.tg("CZ", (2,), (1,))], [qp.tg("SWAP", (), (0, 1))], [qp.tg("TOFFOLI", (0, 2), (1,))]]
    out += [[qp.tg("Pauli", (), (0, 2), (), (1, 3))], [qp.tg("PauliRotation", (), (2, 0, 1), (11,), (2, 1, 3))]]
    return out


def correspond(ctx: Ctx, presets):
    import quri_parts.circuit.transpile as T

    rng = ctx.rng
    sets = target_sets(ctx)
    # (1) pipeline structure for every target set
    resp = ctx.driver(["c01pipeline " + ",".join(s) for s in sets])
    for s, r in zip(sets, resp):
        try:
            real = c01.describe(T.GateSetConversionTranspiler(s)._decomposer)
        except Exception as e:  # noqa: BLE001
            real = ["raises:" + type(e).__name__]
        ctx.case(("pipeline", tuple(sorted(set(s)))), sample={"target_set": s, "pipeline": r[:200]})
        ctx.traces += 1
        if c01.canon_tokens(real) != c01.canon_tokens(r.split(";") if r else []):
            ctx.disagree("gateSetPipeline", s, real, r)
    # (2) run: model predicts raise vs output, gate for gate
    cases = []
    probes = probe_circuits()
    pick = sets if ctx.quick() else rng.sample(sets, 600)
    for s in pick:
        for gs in (rng.sample(probes, 4) if ctx.quick() else rng.sample(probes, 6)):
            cases.append(("gateSetConv", 3, gs, ["gateSetConv:1:" + ",".join(s)], (lambda s=s: T.GateSetConversionTranspiler(s))))
        gs = qp.random_grid_circuit(rng, 3, rng.randint(2, 8), c01.ALL_KINDS)
        cases.append(("gateSetConv", 3, gs, ["gateSetConv:1:" + ",".join(s)], (lambda s=s: T.GateSetConversionTranspiler(s))))
        cases.append(("gateSetConv-novalidate", 3, gs, ["gateSetConv:0:" + ",".join(s)],
                      (lambda s=s: T.GateSetConversionTranspiler(s, validation=False))))
    for name, toks in presets.items():
        for gs in probes:
            cases.append((f"preset:{name}", 3, gs, toks, (lambda nm=name: getattr(T, nm)())))
        for _ in range(ctx.n(6, 80)):
            gs = qp.random_grid_circuit(rng, 3, rng.randint(2, 9), c01.ALL_KINDS)
            cases.append((f"preset:{name}", 3, gs, toks, (lambda nm=name: getattr(T, nm)())))
    cases += form_cases(ctx, T, presets, probes)
    c01.run_cases(ctx, cases)


def rot_pipelines(ctx: Ctx, T):
    """RotationConversionTranspiler._construct_decomposer for every rotation subset × favourable-Clifford choice"""
    rng = ctx.rng
    combos = []
    for r in range(4):
        for rots in itertools.combinations(["RX", "RY", "RZ"], r):
            for fav in ([], ["H"], ["SqrtX"], ["H", "SqrtX"], [k for k in C1Q if rng.random() < 0.4]):
                combos.append((list(rots), list(fav)))
    resp = ctx.driver([f"c01rotpipeline {','.join(r)}|{','.join(f)}" for r, f in combos])
    for (rots, fav), m in zip(combos, resp):
        fr, mk_r = in_form(rng, rots)
        ff, mk_f = in_form(rng, fav)
        try:
            real = c01.describe(T.RotationConversionTranspiler(mk_r(), mk_f())._decomposer)
            real = [t for t in real if t != "decomp:IdentityTranspiler"]
        except Exception as e:  # noqa: BLE001
            real = ["raises:" + type(e).__name__]
        ctx.case(("rotpipeline", tuple(rots), tuple(sorted(fav))), sample=None)
        ctx.count("arg-form", fr)
        ctx.traces += 1
        if c01.canon_tokens(real) != c01.canon_tokens(m.split(";") if m else []):
            ctx.disagree("rotConvPipeline", {"target_rotation": rots, "favorable_clifford": fav, "forms": [fr, ff]}, real, m)
    return combos


def form_cases(ctx: Ctx, T, presets, probes):
    """the same model/code correspondences through argument forms, explicit optional arguments, the conversion
    transpilers called directly, and transpiler objects re-used over several circuits"""
    rng = ctx.rng
    cases = []
    N = ctx.n(24, 200)
    vocab = ["H", "X", "Y", "Z", "S", "Sdag", "SqrtX", "SqrtXdag", "SqrtY", "SqrtYdag", "T", "Tdag", "RX", "RY", "RZ",
             "CNOT", "CZ", "SWAP", "Identity", "U1", "U2", "U3", "TOFFOLI", "Pauli", "PauliRotation"]
    # (a) GateSetConversionTranspiler: target collection form × how the optional arguments are passed × object re-use
    for i in range(N):
        s = [k for k in vocab if rng.random() < 0.3]
        if rng.random() < 0.85 and not ({"CNOT", "CZ"} & set(s)):
            s.append(rng.choice(["CNOT", "CZ"]))
        if rng.random() < 0.85 and not ({"RX", "RY", "RZ"} & set(s)):
            s.append(rng.choice(["RX", "RY", "RZ"]))
        form, mk = in_form(rng, s, FORMS[i % len(FORMS)])
        style = i % 5
        # grid angles are multiples of π/64, so every epsilon below is far from any threshold decision
        if style == 0:
            f, tok = (lambda mk=mk: T.GateSetConversionTranspiler(mk())), "1"
        elif style == 1:
            f, tok = (lambda mk=mk: T.GateSetConversionTranspiler(mk(), 1.0e-6)), "1"
        elif style == 2:
            f, tok = (lambda mk=mk: T.GateSetConversionTranspiler(mk(), 1.0e-9, False)), "0"
        elif style == 3:
            f, tok = (lambda mk=mk: T.GateSetConversionTranspiler(validation=True, epsilon=1.0e-12, target_gateset=mk())), "1"
        else:
            f, tok = (lambda mk=mk: T.GateSetConversionTranspiler(mk(), validation=0)), "0"
        make = shared(f) if rng.random() < 0.7 else f
        ctx.count("arg-form", form)
        n = rng.randint(1, 4)
        hist = []
        for j in range(4):
            if j == 2:  # the gates of the first call again, after another call on the same object (same outcome expected)
                gs = hist[0] + (hist[1] if rng.random() < 0.5 else [])
            elif j == 3:
                gs = list(hist[rng.randrange(2)])
            else:
                gs = rng.choice(probes) if (n == 3 and rng.random() < 0.3) else qp.random_grid_circuit(rng, n, rng.randint(0, 8), c01.ALL_KINDS)
            hist.append(gs)
            cases.append((f"gateSetConv-form:{form}:{style}", n, gs, [f"gateSetConv:{tok}:" + ",".join(s)], make))
    # (b) RotationConversionTranspiler called directly
    for rots, fav in rot_pipelines(ctx, T):
        form, mk_r = in_form(rng, rots)
        _, mk_f = in_form(rng, fav)
        style = rng.randrange(3)
        if style == 0:
            f = (lambda a=mk_r, b=mk_f: T.RotationConversionTranspiler(a(), b()))
        elif style == 1:
            f = (lambda a=mk_r, b=mk_f: T.RotationConversionTranspiler(favorable_clifford=b(), target_rotation=a()))
        elif fav:
            continue
        else:
            f = (lambda a=mk_r: T.RotationConversionTranspiler(a()))
        make = shared(f)
        for _ in range(2):
            n = rng.randint(1, 3)
            gs = qp.random_grid_circuit(rng, n, rng.randint(0, 7), ["RX", "RY", "RZ", "RX", "RY", "RZ", "H", "SqrtX", "S", "CNOT"])
            cases.append((f"rotConv-form:{form}", n, gs, [f"rotConv:{','.join(rots)}:{','.join(fav)}"], make))
    # (c) CliffordConversionTranspiler called directly (repeated kinds take the per-call cache path)
    for i in range(N * 3 // 2):
        ts = [] if i == 0 else list(C1Q) if i == 1 else [k for k in C1Q if rng.random() < rng.choice([0.15, 0.35, 0.6])]
        form, mk = in_form(rng, ts, FORMS[i % len(FORMS)])
        make = shared(lambda mk=mk: T.CliffordConversionTranspiler(mk()))
        for _ in range(3):
            n = rng.randint(1, 3)
            pool = rng.sample(C1Q, rng.randint(1, 4)) * 3 + ["T", "CNOT", "RZ", "Tdag"]
            gs = qp.random_grid_circuit(rng, n, rng.randint(0, 10), pool)
            cases.append((f"clifConv-form:{form}", n, gs, ["clifConv:" + ",".join(ts)], make))
    # (d) presets: one object over several circuits; CliffordRZSetTranspiler with its optional epsilon
    for name, toks in presets.items():
        variants = [(name, shared(lambda nm=name: getattr(T, nm)()))]
        if name == "CliffordRZSetTranspiler":
            variants += [(name + "(1e-6)", shared(lambda: T.CliffordRZSetTranspiler(1.0e-6))),
                         (name + "(epsilon=1e-12)", shared(lambda: T.CliffordRZSetTranspiler(epsilon=1.0e-12)))]
        for label, make in variants:
            for _ in range(ctx.n(4, 30)):
                n = rng.randint(1, 5)
                gs = qp.random_grid_circuit(rng, n, rng.randint(0, 9), c01.ALL_KINDS)
                cases.append((f"preset-reuse:{label}", n, gs, toks, make))
    return cases


def ctor_errors(ctx: Ctx):
    """the constructor error branches of gateset.py: a target collection with a name outside the supported vocabulary is
    rejected with ValueError (CliffordConversionTranspiler: single-qubit Clifford names; RotationConversionTranspiler:
    RX/RY/RZ and single-qubit Clifford names), a supported one is accepted.  Restated, not modelled in Lean."""
    import quri_parts.circuit.transpile as T

    rng = ctx.rng
    foreign_c = ["T", "Tdag", "RX", "RZ", "CNOT", "CZ", "SWAP", "U1", "U3", "TOFFOLI", "Pauli", "PauliRotation", "UnitaryMatrix",
                 "Measurement", "ParametricRZ", "h", "", "SX"]
    foreign_r = ["U1", "U2", "U3", "H", "S", "T", "CNOT", "PauliRotation", "ParametricRX", "ParametricRZ", "rx", "", "R"]

    def outcome(f):
        try:
            f()
            return "accepted"
        except Exception as e:  # noqa: BLE001
            return type(e).__name__

    for i in range(ctx.n(60, 600)):
        ts = [k for k in C1Q if rng.random() < 0.4]
        bad = rng.sample(foreign_c, rng.choice([0, 1, 1, 2]))
        names = ts + bad
        rng.shuffle(names)
        form, mk = in_form(rng, names)
        want = "ValueError" if bad else "accepted"
        got = outcome(lambda: T.CliffordConversionTranspiler(mk()))
        ctx.case(("ctor-clif", tuple(sorted(names)), form), sample=None)
        ctx.count("ctor", f"clif:{want}")
        ctx.traces += 1
        if got != want:
            ctx.disagree("ctor:CliffordConversionTranspiler", {"target_gateset": names, "form": form}, got, want)
        rots = [k for k in ("RX", "RY", "RZ") if rng.random() < 0.6]
        fav = [k for k in C1Q if rng.random() < 0.3]
        bad_r = rng.sample(foreign_r, rng.choice([0, 0, 1, 2]))
        bad_f = rng.sample(foreign_c, rng.choice([0, 0, 1]))
        a, b = rots + bad_r, fav + bad_f
        rng.shuffle(a)
        rng.shuffle(b)
        fa, mk_a = in_form(rng, a)
        fb, mk_b = in_form(rng, b)
        want = "ValueError" if (bad_r or bad_f) else "accepted"
        got = outcome(lambda: T.RotationConversionTranspiler(mk_a(), mk_b()))
        ctx.case(("ctor-rot", tuple(sorted(a)), tuple(sorted(b)), fa, fb), sample=None)
        ctx.count("ctor", f"rot:{want}")
        ctx.traces += 1
        if got != want:
            ctx.disagree("ctor:RotationConversionTranspiler", {"target_rotation": a, "favorable_clifford": b, "forms": [fa, fb]}, got, want)


def describe_circ2(c):
    """c01.describe_circ plus the classical register (cbit_count, classical_indices of Measurement gates)"""
    d = c01.describe_circ(c)
    try:
        d["cbit_count"] = c.cbit_count
        for e, g in zip(d["gates"], c.gates):
            if tuple(getattr(g, "classical_indices", ())):
                e["classical_indices"] = list(g.classical_indices)
    except Exception:  # noqa: BLE001
        pass
    return d


def with_measurements(rng, circ, cb=None, k=None):
    """the same gate list in a circuit that owns classical bits, with k Measurement gates (mid-circuit or final) inserted:
    the non-unitary gate kind of the vocabulary, which no preset promises"""
    from quri_parts.circuit import QuantumCircuit, gates

    n = circ.qubit_count
    cb = cb or rng.randint(1, 3)
    gs = list(circ.gates)
    for _ in range(rng.randint(1, 3) if k is None else k):
        m = rng.randint(1, min(n, cb, 2))
        meas = gates.Measurement(rng.sample(range(n), m), rng.sample(range(cb), m))
        pos = len(gs) if rng.random() < 0.4 else rng.randint(0, len(gs))
        gs.insert(pos, meas)
    return QuantumCircuit(n, cb, gates=gs)


def measured_probes(rng):
    """fixed small circuits with a classical register: Measurement final / mid-circuit / alone / on two qubits / unused cbits"""
    from quri_parts.circuit import QuantumCircuit, gates

    M = gates.Measurement
    return [
        QuantumCircuit(2, 1, gates=[gates.H(0), gates.CNOT(0, 1), gates.RX(1, 0.3), M([0], [0]), gates.T(1)]),
        QuantumCircuit(2, 2, gates=[gates.H(0), gates.CNOT(0, 1), M([0, 1], [1, 0])]),
        QuantumCircuit(1, 1, gates=[M([0], [0])]),
        QuantumCircuit(3, 3, gates=[M([2], [2]), gates.RZ(2, 0.7), gates.Identity(1), gates.RZ(2, 0.2), M([2], [0])]),
        QuantumCircuit(3, 1, gates=[gates.TOFFOLI(0, 1, 2), gates.SWAP(0, 2), M([1], [0]), gates.U3(0, 0.1, 0.2, 0.3)]),
        QuantumCircuit(2, 2, gates=[gates.H(1), gates.RY(0, 1.1), gates.S(1)]),  # classical bits owned but unused
        QuantumCircuit(2, 1, gates=[M([1], [0]), M([0], [0])]).freeze(),
    ]


def position_probes(rng):
    """(target list, circuit) pairs for position-dependent validation: a gate the target list cannot express, placed before /
    after / on both sides of / far behind every kind of gate that passes through the pipeline untouched (UnitaryMatrix on 3 and
    4 qubits – the documented exception –, Measurement, a gate that IS in the list)"""
    from oracle import dense
    from quri_parts.circuit import QuantumCircuit, gates

    def um(qs):
        return gates.UnitaryMatrix(qs, dense.random_unitary(rng, 2 ** len(qs)).tolist())

    deficient = [  # (target list, gates it cannot express)
        (["RZ", "CNOT"], [gates.RX(0, 0.3), gates.H(1), gates.RY(2, 1.1), gates.SqrtX(0)]),
        (["RX", "CZ"], [gates.RZ(1, 0.4), gates.T(0)]),
        (["H", "S", "CNOT"], [gates.RZ(0, 0.3), gates.T(2), gates.U3(1, 0.1, 0.2, 0.3)]),
        (["H", "X", "Y", "Z", "S", "Sdag", "CZ"], [gates.RY(1, 0.77), gates.PauliRotation([0, 2], [1, 3], 0.5)]),
        (["RX", "RY", "RZ"], [gates.CNOT(0, 1), gates.SWAP(1, 2), gates.TOFFOLI(0, 1, 2)]),
        (["RX", "RY", "RZ", "H"], [gates.CZ(2, 0)]),
        (["CNOT"], [gates.X(1), gates.Z(2)]),
        (["X", "SqrtX", "CNOT"], [gates.RZ(2, 0.2)]),
    ]
    out = []
    for tl, offenders in deficient:
        for through, cb in ((um([0, 1, 2]), 0), (um([2, 0, 3]), 0), (um([0, 1, 2, 3]), 0), (gates.Measurement([1], [0]), 1), (None, 0)):
            off = rng.choice(offenders)
            ok = gates.CNOT(0, 1) if "CNOT" in tl else gates.CZ(0, 1) if "CZ" in tl else gates.RZ(0, 0.25)
            if through is None:
                through = ok
            for shape in ("after", "before", "both", "far-after", "only-through", "two-through"):
                gs = {"after": [ok, through, off], "before": [off, ok, through], "both": [off, through, off],
                      "far-after": [through, ok, ok, ok, off], "only-through": [ok, through, ok],
                      "two-through": [through, ok, through, off]}[shape]
                out.append((tl, shape, QuantumCircuit(4, cb, gates=gs)))
    return out


def _violations(out, n, target, rot_only=False):
    """which clauses of the property the returned circuit falsifies: {clause: description}"""
    og = list(out.gates)
    if rot_only:  # RotationConversionTranspiler promises only the rotation kinds
        bad = [g for g in og if g.name in ("RX", "RY", "RZ") and g.name not in target]
    else:
        bad = [g for g in og if g.name not in target and not (g.name == "UnitaryMatrix" and len(g.target_indices) >= 3)]
    idx = [q for g in og for q in tuple(g.target_indices) + tuple(g.control_indices)]
    v = {}
    if bad:
        v["foreign-gate"] = f"returned {sorted({g.name for g in bad})} outside the promised set"
    if out.qubit_count != n:
        v["qubit-count"] = f"changed qubit_count {n}->{out.qubit_count}"
    if idx and (max(idx) >= n or min(idx) < 0):
        v["out-of-register"] = f"produced a gate on qubit {max(idx) if max(idx) >= n else min(idx)} of {n}"
    return v


def _shrink(circ, still_bad):
    """drop gates one at a time while the violation persists (fresh transpiler per trial)"""
    from quri_parts.circuit import QuantumCircuit

    try:
        gs = list(circ.gates)
        cb = getattr(circ, "cbit_count", 0)
        i = 0
        while i < len(gs) and len(gs) > 1:
            trial = QuantumCircuit(circ.qubit_count, cb, gates=gs[:i] + gs[i + 1:])
            try:
                keep = still_bad(trial)
            except Exception:  # noqa: BLE001 – raising is not a violation
                keep = False
            if keep:
                gs = gs[:i] + gs[i + 1:]
            else:
                i += 1
        return QuantumCircuit(circ.qubit_count, cb, gates=gs)
    except Exception:  # noqa: BLE001
        return circ


def epsilon_probes(ctx: Ctx):
    """always-run family: every entry point that takes an `epsilon`, constructed with non-default values (and the default),
    on circuits whose rotation angles sit at ±(kπ/4 ± δ) with δ just inside / just outside each epsilon (and a few absolute
    offsets that other tolerances – numpy's isclose defaults, 1e-9 – would pick); judged by the promised gate set only"""
    import math

    import quri_parts.circuit.transpile as T
    from quri_parts.circuit import QuantumCircuit, gates

    star, rzset, rot = ["H", "S", "RZ", "CNOT"], ["X", "SqrtX", "RZ", "CNOT"], ["RX", "RY", "RZ", "CZ"]
    n_eval = 0
    for eps in (1.0e-4, 1.0e-6, 1.0e-10, 1.0e-2, 1.0e-9):
        trs = [
            (f"CliffordRZSetTranspiler({eps})", (lambda e=eps: T.CliffordRZSetTranspiler(e)), PROMISED["CliffordRZSetTranspiler"]),
            (f"CliffordRZSetTranspiler(epsilon={eps})", (lambda e=eps: T.CliffordRZSetTranspiler(epsilon=e)), PROMISED["CliffordRZSetTranspiler"]),
            (f"GateSetConversion({star};list;eps={eps})", (lambda e=eps: T.GateSetConversionTranspiler(star, epsilon=e)), set(star)),
            (f"GateSetConversion({rzset};list;eps={eps})", (lambda e=eps: T.GateSetConversionTranspiler(rzset, e)), set(rzset)),
            (f"GateSetConversion({rot};list;eps={eps})", (lambda e=eps: T.GateSetConversionTranspiler(rot, epsilon=e)), set(rot)),
        ]
        deltas = [0.0, 0.5 * eps, 0.99 * eps, 1.01 * eps, 3.0 * eps, 2.0e-5, 5.0e-9, 0.3 * eps + 1.0e-12]
        circs = []
        for k in range(0, 9):
            for sg in (1.0, -1.0):
                for d in deltas:
                    for dsg in (1.0, -1.0):
                        th = sg * (k * math.pi / 4 + dsg * d)
                        carrier = (k + int(sg > 0) + 2 * int(dsg > 0) + deltas.index(d)) % 8  # every carrier with every (k, δ) over the family
                        q = carrier % 2
                        gl = {
                            0: [gates.RZ(q, th)],
                            1: [gates.U1(q, th)],
                            2: [gates.RZ(q, th - 0.4), gates.RZ(q, 0.4)],  # reaches the angle only after rotation fusion
                            3: [gates.T(q), gates.RZ(q, th - math.pi / 4)],
                            4: [gates.RX(q, th)],
                            5: [gates.RY(q, th), gates.CNOT(0, 1)],
                            6: [gates.PauliRotation([q], [3], th), gates.H(1 - q)],
                            7: [gates.U3(q, 0.0, th, 0.0)] if k % 2 else [gates.U2(q, th, 0.0)],
                        }[carrier]
                        circs.append(QuantumCircuit(2, gates=gl))
        for label, make, target in trs:
            try:
                tr = make()  # one object for the whole family (also a call history)
            except Exception as e:  # noqa: BLE001
                ctx.count("epsilon-probes", "ctor-raised:" + type(e).__name__)
                continue
            for circ in circs:
                n_eval += 1
                try:
                    v = _violations(tr(circ), 2, target)
                except Exception as e:  # noqa: BLE001 – raising is allowed
                    ctx.count("epsilon-probes", "raised:" + type(e).__name__)
                    continue
                ctx.count("epsilon-probes", "ok")
                key = label.split("(")[0]
                for kind, what in v.items():
                    shown = circ
                    if sum(1 for w in ctx.witnesses if w["key"] == f"{kind}:{key}") < 3:
                        shown = _shrink(circ, lambda c, kind=kind: kind in _violations(make()(c), 2, target))
                    ctx.witness(f"{kind}:{key}", f"{label} {what}", describe_circ2(shown), {"target": sorted(target), "epsilon": eps})
    ctx.evaluations += n_eval
    ctx.extra["epsilon_probes"] = {"evaluations": n_eval}


def validate(ctx: Ctx, budget_s: float):
    """the property itself on the real code: names ⊆ target set (UnitaryMatrix on ≥ 3 qubits excepted) or raise;
    qubit count unchanged; no index outside the register"""
    import time

    import quri_parts.circuit.transpile as T
    from oracle import dense
    from quri_parts.circuit import QuantumCircuit, gates

    rng = ctx.rng
    t0 = time.time()
    full = qp.ONE_Q + ["RX", "RY", "RZ", "U1", "U2", "U3", "CNOT", "CZ", "SWAP", "TOFFOLI", "Pauli", "PauliRotation", "UM1", "UM2"]
    vocab = ["H", "X", "Y", "Z", "S", "Sdag", "SqrtX", "SqrtXdag", "SqrtY", "SqrtYdag", "T", "Tdag", "RX", "RY", "RZ",
             "CNOT", "CZ", "SWAP", "Identity", "U1", "U2", "U3", "TOFFOLI", "Pauli", "PauliRotation"]
    n_eval = 0
    pool = []  # transpiler objects that have already been called (re-used later: state carried between calls would show)

    def remember(entry):
        if len(pool) < 60:
            pool.append(entry)
        else:
            pool[rng.randrange(len(pool))] = entry

    # deterministic part: every preset (and a few explicit target lists, with and without Measurement in the list) on
    # circuits that own classical bits and contain Measurement gates
    det = []
    for mc in measured_probes(rng):
        for name in PROMISED:
            det.append(((lambda nm=name: getattr(T, nm)()), PROMISED[name], name, False, mc))
        det.append(((lambda: T.CliffordRZSetTranspiler(1.0e-6)), PROMISED["CliffordRZSetTranspiler"], "CliffordRZSetTranspiler(1e-6)", False, mc))
        for tl in (["H", "RZ", "CNOT"], ["H", "RZ", "CNOT", "Measurement"], ["RX", "RY", "RZ", "CZ", "Measurement"], ["Measurement"]):
            det.append(((lambda tl=tl: T.GateSetConversionTranspiler(tl)), set(tl), f"GateSetConversion({tl};list;3)", False, mc))
        det.append(((lambda: T.RotationConversionTranspiler(["RZ"], ["H"])), {"RZ"}, "RotationConversion(['RZ'],['H'];list)", True, mc))
    # … and position-dependent validation: an inexpressible gate before / after every kind of pass-through gate
    for tl, shape, pc in position_probes(rng):
        extra = ["UnitaryMatrix"] if rng.random() < 0.15 else []
        det.append(((lambda tl=tl + extra: T.GateSetConversionTranspiler(tl)), set(tl + extra), f"GateSetConversion({tl + extra};list;3;{shape})", False, pc))
    for name in PROMISED:  # the presets on the same circuits (the big UnitaryMatrix may be returned, nothing else foreign)
        for tl, shape, pc in rng.sample(position_probes(rng), 12):
            det.append(((lambda nm=name: getattr(T, nm)()), PROMISED[name], f"{name}(;{shape})", False, pc))
    while det or time.time() - t0 < budget_s:
        fixed = det.pop() if det else None
        n = rng.choice([1, 2, 3, 3, 4, 4, 5, 6])
        circ = c01.random_real_circuit(rng, n, rng.choice([0, 1, 2, 4, 6, 8, 12]), full)
        if rng.random() < 0.3 and n >= 2:  # the last qubit is used (an off-by-one in a register bound would show)
            circ.add_gate(rng.choice([gates.H(n - 1), gates.CZ(n - 1, 0), gates.SWAP(0, n - 1), gates.PauliRotation([n - 1, 0], [2, 1], 0.3),
                                      gates.U3(n - 1, 0.1, 0.2, 0.3), gates.RY(n - 1, 1.0)]))
        if rng.random() < 0.2 and n >= 3:  # the documented exception, at ANY position (first / middle / last), possibly twice
            gl = list(circ.gates)
            for _ in range(rng.choice([1, 1, 2])):
                m = 4 if (n >= 4 and rng.random() < 0.2) else 3
                big = gates.UnitaryMatrix(rng.sample(range(n), m), dense.random_unitary(rng, 2 ** m).tolist())
                gl.insert(rng.choice([0, len(gl), rng.randint(0, len(gl))]), big)
            circ = QuantumCircuit(n, gates=gl)
        measured = rng.random() < 0.15
        if measured:  # classical register + the non-unitary gate kind
            circ = with_measurements(rng, circ)
        elif rng.random() < 0.1:  # classical bits owned but unused
            circ = with_measurements(rng, circ, k=0)
        if rng.random() < 0.3:
            circ = circ.freeze()
        r = rng.random()
        rot_only = False
        entry = None
        if fixed is not None:
            make, target, label, rot_only, circ = fixed
        elif pool and r < 0.25:
            entry = rng.choice(pool)
            make, target, label, rot_only = entry["make"], entry["target"], entry["label"], entry["rot_only"]
            if rng.random() < 0.5:  # the very input of an earlier call (which may have raised then) on the same object
                circ = rng.choice(entry["calls"])
            entry["calls"].append(circ)
        elif r < 0.5:
            name = rng.choice(list(PROMISED))
            make, target, label = (lambda nm=name: getattr(T, nm)()), PROMISED[name], name
            if name == "CliffordRZSetTranspiler" and rng.random() < 0.5:
                eps = rng.choice([1e-12, 1e-6, 1e-3, 0.0])
                make = (lambda e=eps: T.CliffordRZSetTranspiler(e)) if rng.random() < 0.5 else (lambda e=eps: T.CliffordRZSetTranspiler(epsilon=e))
                label = f"{name}({eps})"
        elif r < 0.6:
            rots = [k for k in ("RX", "RY", "RZ") if rng.random() < 0.6]
            fav = [k for k in C1Q if rng.random() < 0.3]
            fr, mk_r = in_form(rng, rots)
            _, mk_f = in_form(rng, fav)
            make = (lambda a=mk_r, b=mk_f: T.RotationConversionTranspiler(a(), b()))
            target, label, rot_only = set(rots), f"RotationConversion({rots},{fav};{fr})", True
        else:
            s = [k for k in vocab if rng.random() < 0.3]
            if rng.random() < 0.25:  # deficient lists: cannot express some gate, so the final validation has to fire
                s = rng.choice([
                    [rng.choice(["RX", "RY", "RZ"]), rng.choice(["CNOT", "CZ"])],
                    [k for k in C1Q if rng.random() < 0.5] + [rng.choice(["CNOT", "CZ"])],
                    [k for k in ("RX", "RY", "RZ", "H", "S", "T") if rng.random() < 0.6],
                    [rng.choice(vocab)], [], ["X", "SqrtX", "CNOT"], ["H", "T", "Tdag", "CNOT"],
                ])
            else:
                if rng.random() < 0.8 and not ({"CNOT", "CZ"} & set(s)):
                    s.append(rng.choice(["CNOT", "CZ"]))
                if rng.random() < 0.8 and not ({"RX", "RY", "RZ"} & set(s)):
                    s.append(rng.choice(["RX", "RY", "RZ"]))
            if rng.random() < 0.05:
                s.append("UnitaryMatrix")
            if measured and rng.random() < 0.5:
                s.append("Measurement")
            eps = rng.choice([1e-9, 1e-9, 1e-6, 1e-12])
            form, mk = in_form(rng, s)
            style = rng.randrange(4)
            if style == 0:
                make = (lambda mk=mk, e=eps: T.GateSetConversionTranspiler(mk(), epsilon=e))
            elif style == 1:
                make = (lambda mk=mk, e=eps: T.GateSetConversionTranspiler(mk(), e, True))
            elif style == 2:
                make = (lambda mk=mk, e=eps: T.GateSetConversionTranspiler(validation=1, target_gateset=mk(), epsilon=e))
            else:
                make = (lambda mk=mk: T.GateSetConversionTranspiler(mk()))
            target, label = set(s), f"GateSetConversion({s};{form};{style})"
            ctx.count("validate-form", form)
        n_eval += 1
        tr = None
        try:
            tr = make()
            out = tr(circ)
        except Exception as e:  # allowed
            ctx.count("validate", "raised:" + type(e).__name__)
            if getattr(circ, "cbit_count", 0):
                ctx.count("validate", "raised-with-cbits")
            if tr is not None and entry is None and rng.random() < 0.5:
                remember({"make": (lambda tr=tr: tr), "target": target, "label": label + "[re-used]", "rot_only": rot_only, "calls": [circ]})
            continue
        if entry is None and rng.random() < 0.3:
            remember({"make": (lambda tr=tr: tr), "target": target, "label": label + "[re-used]", "rot_only": rot_only, "calls": [circ]})
        try:
            v = _violations(out, circ.qubit_count, target, rot_only)
        except Exception as e:  # noqa: BLE001
            ctx.disagree("validate:" + label.split("(")[0], describe_circ2(circ), f"result cannot be inspected: {type(e).__name__}: {e}", "a circuit")
            continue
        ctx.count("validate", "ok")
        if any(g.name == "Measurement" for g in circ.gates):
            ctx.count("validate", "ok-with-measurement")
        key = label.split("(")[0].split("[")[0]
        for kind, what in v.items():
            shown, detail = circ, {"target": sorted(target)}
            if entry is not None:
                detail["earlier_calls_on_the_same_object"] = [describe_circ2(c) for c in entry["calls"][:-1][-4:]]
            elif sum(1 for w in ctx.witnesses if w["key"] == f"{kind}:{key}") < 3:
                shown = _shrink(circ, lambda c, kind=kind: kind in _violations(make()(c), c.qubit_count, target, rot_only))
            ctx.witness(f"{kind}:{key}", f"{label} {what}", describe_circ2(shown), detail)
    ctx.evaluations += n_eval
    ctx.extra["oracle_validation"] = {"evaluations": n_eval}
    ctx.search_budget_s = budget_s


def parametric_error_branches(ctx: Ctx):
    """the two error branches of ParametricRX2RZHTranspiler / ParametricRY2RZHTranspiler ("Unsupported parametric gate",
    "Parametric gate with no Parameter"): reachable only through an object that merely satisfies
    ParametricQuantumCircuitProtocol; such a gate is rejected with ValueError rather than dropped or passed on"""
    try:
        import quri_parts.circuit.transpile as T
        from quri_parts.circuit import ParametricQuantumCircuit, ParametricQuantumGate

        base = ParametricQuantumCircuit(3)
        base.add_ParametricRX_gate(0)
        base.add_H_gate(1)
        base.add_ParametricRY_gate(2)
        base.add_ParametricPauliRotation_gate((2, 0), (1, 3))
        gp = list(base.gates_and_params)
        par = base.param_mapping.in_params[0]
    except Exception as e:  # noqa: BLE001
        ctx.disagree("parametric-error-branch", "setup", f"{type(e).__name__}: {e}", "a parametric circuit can be built")
        return

    class Prim:
        def __init__(self, pairs):
            self.gates_and_params = pairs
            self.gates = [g for g, _ in pairs]

    class Duck:
        qubit_count, cbit_count, param_mapping = 3, 0, base.param_mapping

        def __init__(self, pairs):
            self._pairs = pairs

        def primitive_circuit(self):
            return Prim(self._pairs)

    rng = ctx.rng
    for cls in ("ParametricRX2RZHTranspiler", "ParametricRY2RZHTranspiler"):
        for kind in ("supported", "unsupported-name", "no-parameter"):
            for _ in range(ctx.n(3, 20)):
                pairs = list(gp)
                pos = rng.randint(0, len(pairs))
                if kind == "unsupported-name":
                    nm = rng.choice(["ParametricU1", "ParametricRZZ", "ParametricH", "ParametricU3", "ParametricCRX"])
                    try:
                        pairs.insert(pos, (ParametricQuantumGate(name=nm, target_indices=(rng.randrange(3),)), par))
                    except Exception:  # noqa: BLE001 – the gate class (not under test) refuses the name
                        ctx.count("param-error-branch", "gate-not-constructible")
                        continue
                elif kind == "no-parameter":
                    i = rng.choice([0, 2, 3])
                    pairs[i] = (pairs[i][0], None)
                want = "accepted" if kind == "supported" else "ValueError"
                try:
                    getattr(T, cls)()(Duck(pairs))
                    got = "accepted"
                except Exception as e:  # noqa: BLE001
                    got = type(e).__name__
                ctx.case(("param-error-branch", cls, kind, tuple(g.name for g, _ in pairs), pos), sample=None)
                ctx.traces += 1
                if got != want:
                    ctx.disagree("parametric-error-branch:" + cls, {"kind": kind, "gates": [g.name for g, _ in pairs],
                                                                   "params": [q is not None for _, q in pairs]}, got, want)


# ---------------------------------------------------------------------------
# parametric entry points (ParametricRX2RZHTranspiler, ParametricRY2RZHTranspiler and the parametric STAR pipeline
# that the STAR / Clifford+T device definitions build from them); no Lean model of parametric circuits: independent oracle
# ---------------------------------------------------------------------------
FIXED_FOR_PARAM = qp.ONE_Q + ["RX", "RY", "RZ", "RX", "RY", "U1", "U2", "U3", "CNOT", "CZ", "SWAP", "TOFFOLI", "Pauli", "PauliRotation"]


def random_param_recipe(rng, fixed_kinds=None):
    """a JSON-able construction recipe of a parametric circuit (unbound or linear-mapped, mutable or frozen)"""
    n = rng.choice([1, 2, 2, 3, 3, 4, 5])
    linear = rng.random() < 0.6
    npar = rng.randint(1, 4)
    steps = []
    length = rng.choice([0, 1, 2, 4, 6, 9])
    cbits = rng.choice([0, 0, 0, 1, 2])
    fixed_kinds = fixed_kinds or FIXED_FOR_PARAM
    p_par = rng.choice([0.0, 0.3, 0.5, 0.8, 1.0])
    for _ in range(length):
        if rng.random() < p_par:
            k = rng.choice(["ParametricRX", "ParametricRY", "ParametricRX", "ParametricRY", "ParametricRZ", "ParametricPauliRotation"])
            if linear:
                r = rng.random()
                if r < 0.35:
                    fn = f"p{rng.randrange(npar)}"
                else:
                    fn = {f"p{j}": rng.choice([-2.0, -1.0, 0.5, 1.0, 2.0, 3.0]) for j in rng.sample(range(npar), rng.randint(1, npar))}
                    if rng.random() < 0.3:
                        fn["const"] = round(rng.uniform(-3, 3), 3)
            else:
                fn = None
            if k == "ParametricPauliRotation":
                m = rng.randint(1, min(n, 3))
                steps.append([k, rng.sample(range(n), m), [rng.randint(1, 3) for _ in range(m)], fn])
            else:
                steps.append([k, [rng.choice([0, n - 1, rng.randrange(n)])], [], fn])
        elif cbits and rng.random() < 0.2:  # the non-unitary gate kind (needs the classical register)
            steps.append(["fixed", "Measurement", [], [rng.randrange(n)], [], [], [rng.randrange(cbits)]])
        else:
            g = None
            while g is None:
                g = qp.random_gate(rng, n, rng.choice([k for k in fixed_kinds if n >= {"TOFFOLI": 3, "CNOT": 2, "CZ": 2, "SWAP": 2}.get(k, 1)]))
            name, c, t, prm, ids = g
            steps.append(["fixed", name, list(c), list(t), [c01.nongrid_angle(rng) for _ in prm], list(ids)])
    return {"type": "linear" if linear else "unbound", "n": n, "cbits": cbits, "npar": npar,
            "frozen": rng.random() < 0.35, "steps": steps}


def build_param(recipe):
    from quri_parts.circuit import CONST, LinearMappedParametricQuantumCircuit, ParametricQuantumCircuit, QuantumGate

    n = recipe["n"]
    if recipe["type"] == "linear":
        c = LinearMappedParametricQuantumCircuit(n, recipe["cbits"])
        ps = c.add_parameters(*[f"p{i}" for i in range(recipe["npar"])])
        byname = {f"p{i}": p for i, p in enumerate(ps)}
        byname["const"] = CONST
    else:
        c = ParametricQuantumCircuit(n, recipe["cbits"])
    for st in recipe["steps"]:
        if st[0] == "fixed":
            _, name, ctl, tgt, prm, ids = st[:6]
            c.add_gate(QuantumGate(name=name, target_indices=tuple(tgt), control_indices=tuple(ctl), params=tuple(prm), pauli_ids=tuple(ids),
                                   classical_indices=tuple(st[6]) if len(st) > 6 else ()))
            continue
        k, tgt, ids, fn = st
        args = []
        if fn is not None:
            args = [byname[fn] if isinstance(fn, str) else {byname[a]: v for a, v in fn.items()}]
        if k == "ParametricPauliRotation":
            c.add_ParametricPauliRotation_gate(tuple(tgt), tuple(ids), *args)
        else:
            getattr(c, f"add_{k}_gate")(tgt[0], *args)
    return c.freeze() if recipe["frozen"] else c


def _stream(circ, bound):
    """gate stream of a parametric circuit: fixed gates with their values, parametric gates with the bound angle"""
    out = []
    for g, b in zip(circ.gates, bound.gates):
        par = g.name in PARAM_NAMES
        out.append({"kind": g.name, "targets": tuple(g.target_indices), "controls": tuple(g.control_indices),
                    "ids": tuple(g.pauli_ids), "params": tuple(float(x) for x in b.params), "par": par})
    return out


def _fixed(kind, q, params=()):
    return {"kind": kind, "targets": (q,), "controls": (), "ids": (), "params": tuple(params), "par": False}


def _expand(which, stream):
    """restated behaviour of ParametricRX2RZHTranspiler / ParametricRY2RZHTranspiler on a gate stream
    (the repo's tests pin exactly these sequences)"""
    import math

    out = []
    for e in stream:
        if e["par"] and e["kind"] == "Parametric" + which:
            q = e["targets"][0]
            prz = dict(e, kind="ParametricRZ")
            if which == "RX":
                out += [_fixed("H", q), prz, _fixed("H", q)]
            else:
                out += [_fixed("RZ", q, (-math.pi / 2,)), _fixed("H", q), prz, _fixed("H", q), _fixed("RZ", q, (math.pi / 2,))]
        else:
            out.append(e)
    return out


def _diff_stream(expected, out, out_bound):
    """None or the first difference between the restated stream and the real result (unbound names + bound values)"""
    og, ob = list(out.gates), list(out_bound.gates)
    if len(og) != len(expected) or len(ob) != len(expected):
        return f"length {len(og)} (bound {len(ob)}) vs expected {len(expected)}"
    for i, (e, g, b) in enumerate(zip(expected, og, ob)):
        if (g.name, tuple(g.target_indices), tuple(g.control_indices), tuple(g.pauli_ids)) != (e["kind"], e["targets"], e["controls"], e["ids"]):
            return f"gate {i}: {g} vs expected {e}"
        bname = PARAM_NAMES.get(e["kind"], e["kind"])
        if b.name != bname or tuple(b.target_indices) != e["targets"] or len(b.params) != len(e["params"]):
            return f"bound gate {i}: {b} vs expected {bname}{e['params']}"
        if any(abs(float(x) - y) > 1e-9 for x, y in zip(b.params, e["params"])):
            return f"bound gate {i}: angle {tuple(b.params)} vs expected {e['params']}"
    return None


def _param_violations(out, circ, n, spec, star):
    """clauses of the property falsified by the result of a parametric entry point: {clause: description}"""
    in_names = {g.name for g in circ.gates}
    og = list(out.gates)
    names = [g.name for g in og]
    idx = [q for g in og for q in tuple(g.target_indices) + tuple(g.control_indices)]
    big_um = {i for i, g in enumerate(og) if g.name == "UnitaryMatrix" and len(g.target_indices) >= 3}
    if isinstance(spec, list):
        allowed = set(in_names)
        for w in spec:
            if "Parametric" + w in in_names:
                allowed |= {"H", "ParametricRZ"} | ({"RZ"} if w == "RY" else set())
        for w in spec:
            allowed.discard("Parametric" + w)
    elif spec is None:
        allowed = star
    else:
        allowed = PROMISED[spec] | (in_names & set(PARAM_NAMES))
    bad = sorted({nm for i, nm in enumerate(names) if nm not in allowed and i not in big_um})
    v = {}
    if bad:
        v["foreign-gate"] = f"returned {bad} outside the promised set {sorted(allowed)}"
    if out.qubit_count != n:
        v["qubit-count"] = f"changed qubit_count {n}->{out.qubit_count}"
    if idx and (max(idx) >= n or min(idx) < 0):
        v["out-of-register"] = f"produced a gate on qubit {max(idx) if max(idx) >= n else min(idx)} of {n}"
    return v


def _shrink_recipe(recipe, still_bad):
    try:
        steps = list(recipe["steps"])
        i = 0
        while i < len(steps) and len(steps) > 1:
            trial = dict(recipe, steps=steps[:i] + steps[i + 1:])
            try:
                keep = still_bad(trial)
            except Exception:  # noqa: BLE001
                keep = False
            if keep:
                steps = trial["steps"]
            else:
                i += 1
        return dict(recipe, steps=steps)
    except Exception:  # noqa: BLE001
        return recipe


def parametric(ctx: Ctx, budget_s: float):
    """parametric circuits through the parametric gate-set conversion entry points.  Promises judged on the REAL code:
      ParametricRX2RZHTranspiler: no ParametricRX remains, the only new kinds are H and ParametricRZ;
      ParametricRY2RZHTranspiler: no ParametricRY remains, the only new kinds are RZ, H and ParametricRZ;
      both in either order: neither remains;
      the parametric STAR pipeline (PauliRotation decomposition, the two above, ParametricTranspiler(STARSetTranspiler())):
        every gate is in {H, S, RZ, CNOT} ∪ {ParametricRZ};
      ParametricTranspiler(preset): fixed gates in the preset's set, parametric kinds ⊆ those of the input;
    always: qubit count unchanged, every index inside the register; or the call raises.
    In addition the exact gate sequence (and, after binding random values, every angle) is compared with a restatement."""
    import time

    import quri_parts.circuit.transpile as T

    rng = ctx.rng
    t0 = time.time()
    star = PROMISED["STARSetTranspiler"] | {"ParametricRZ"}

    def mk_star():
        return T.ParametricSequentialTranspiler([T.ParametricPauliRotationDecomposeTranspiler(), T.ParametricRX2RZHTranspiler(),
                                                 T.ParametricRY2RZHTranspiler(), T.ParametricTranspiler(T.STARSetTranspiler())])

    configs = [
        ("ParametricRX2RZHTranspiler", lambda: T.ParametricRX2RZHTranspiler(), ["RX"]),
        ("ParametricRY2RZHTranspiler", lambda: T.ParametricRY2RZHTranspiler(), ["RY"]),
        ("ParametricSequential[RX2RZH,RY2RZH]", lambda: T.ParametricSequentialTranspiler([T.ParametricRX2RZHTranspiler(), T.ParametricRY2RZHTranspiler()]), ["RX", "RY"]),
        ("ParametricSequential[RY2RZH,RX2RZH]", lambda: T.ParametricSequentialTranspiler([T.ParametricRY2RZHTranspiler(), T.ParametricRX2RZHTranspiler()]), ["RY", "RX"]),
        ("ParametricSTAR", mk_star, None),
    ] + [(f"ParametricTranspiler({nm})", (lambda nm=nm: T.ParametricTranspiler(getattr(T, nm)())), nm) for nm in PROMISED]
    pool = {}
    n_eval = 0
    it = 0
    while time.time() - t0 < budget_s or it < len(configs) * 4:
        label, make, spec = configs[it % len(configs)] if it < len(configs) * 4 else rng.choice(configs)
        it += 1
        recipe = random_param_recipe(rng)
        inp = {"transpiler": label, "circuit": recipe}
        try:
            circ = build_param(recipe)
            list(circ.gates)
        except Exception as e:  # noqa: BLE001 – the circuit classes are not under test here
            ctx.count("parametric", "unbuildable:" + type(e).__name__)
            continue
        n_eval += 1
        ctx.count("parametric", label.split("(")[0])
        ctx.count("parametric-form", recipe["type"] + ("-frozen" if recipe["frozen"] else ""))
        try:
            if label not in pool or rng.random() < 0.5:  # half of the calls re-use an object that has already been called
                pool[label] = make()
            out = pool[label](circ)
        except Exception as e:  # noqa: BLE001 – raising is allowed by the property
            ctx.count("parametric", "raised:" + type(e).__name__)
            if isinstance(spec, list):  # the two rotation converters are total on supported parametric circuits
                ctx.disagree("parametric-restatement:" + label, inp, "raises " + type(e).__name__, "no error branch is reachable")
            continue
        try:
            v = _param_violations(out, circ, recipe["n"], spec, star)
        except Exception as e:  # noqa: BLE001
            ctx.disagree("parametric-restatement:" + label, inp, f"result cannot be inspected: {type(e).__name__}: {e}", "a parametric circuit")
            continue
        short = label.split("(")[0].split("[")[0] + (":" + spec if isinstance(spec, str) else "")
        for kind, what in v.items():
            shown, note = recipe, "only observed on a transpiler object that had been called before"

            def still_bad(rc, kind=kind):
                return kind in _param_violations(make()(build_param(rc)), build_param(rc), rc["n"], spec, star)

            try:
                fresh = still_bad(recipe)
            except Exception:  # noqa: BLE001
                fresh = False
            if fresh:
                note = "a fresh transpiler object reproduces it"
                if sum(1 for w in ctx.witnesses if w["key"] == f"{kind}:{short}") < 3:
                    shown = _shrink_recipe(recipe, still_bad)
            ctx.witness(f"{kind}:{short}", f"{label} {what}", {"transpiler": label, "circuit": shown},
                        {"note": "circuit = construction recipe (harness/c02.py build_param); " + note})
        if isinstance(spec, list):
            ctx.traces += 1
            vals = None
            try:
                vals = [round(rng.uniform(-3, 3), 3) for _ in range(circ.parameter_count)]
                expected = _stream(circ, circ.bind_parameters(vals))
                for w in spec:
                    expected = _expand(w, expected)
                why = _diff_stream(expected, out, out.bind_parameters(vals))
            except Exception as e:  # noqa: BLE001
                why = f"cannot bind / inspect: {type(e).__name__}: {e}"
            if why:
                ctx.disagree("parametric-restatement:" + label, dict(inp, values=vals), why, "restated expansion")
        ctx.case(("parametric", label, repr(recipe)), sample=None)
    ctx.extra["oracle_parametric"] = {"evaluations": n_eval}


def run(ctx: Ctx, replay=None) -> int:
    ctx.rule = ("cases = (target set → pipeline structure) and (pipeline or preset, grid circuit) real vs Lean model; "
                "distinct = distinct keys; the same through argument forms (set / generator / numpy / duplicates …), explicit optional "
                "arguments, RotationConversion / CliffordConversion called directly and re-used transpiler objects; constructor and "
                "parametric error branches vs a restatement; plus direct validation of the property on the real code (names ⊆ promised "
                "or raise; qubit count; register) for plain circuits and for the parametric entry points")
    ctx.trusted = c01.TRUSTED[:5] + [
        "kind-level abstract interpretation (Model/C02.lean) proved sound for the pass model (Proof/C02.lean: run_kinds)",
        "UnitaryMatrix decomposition output kinds are not in the model (numerical code): checked per instance on the real code",
    ]
    ctx.assumptions = ["promised sets: RZ {X,SqrtX,CNOT,RZ}; rotation {RX,RY,RZ,CNOT}; Clifford+RZ as in the docstring; STAR {H,S,RZ,CNOT}",
                       "parametric promises (no docstring; read off the class names and the device definitions that use them): "
                       "ParametricRX2RZH removes ParametricRX adding only H/ParametricRZ; ParametricRY2RZH removes ParametricRY adding only "
                       "RZ/H/ParametricRZ; parametric STAR pipeline ⊆ {H,S,RZ,CNOT,ParametricRZ}; ParametricTranspiler(preset): fixed gates in "
                       "the preset's set, parametric gates kept",
                       "RotationConversionTranspiler promises only that no RX/RY/RZ outside target_rotation is returned (its docstring)"]
    tp, desc, tab, presets = gen(ctx)
    ok = ctx.prove(["QuriVerif.Props.C02", "QuriVerif.Driver.All"],
                   ["QuriVerif.Props.C02", "QuriVerif.Generated.C02Presets", "QuriVerif.Generated.C01Templates",
                    "QuriVerif.Generated.C01Ladders", "QuriVerif.Generated.C01Tables"])
    if ok:
        names = [f"QV.Props.C02.{n}" for _, n, _ in ctx.count_obligations(["QuriVerif.Props.C02"])]
        ctx.audit(names + ["QV.C02.run_kinds"], ["QuriVerif.Props.C02"])
        with ctx.timed("correspond"):
            correspond(ctx, presets)
    with ctx.timed("ctor_errors"):
        ctor_errors(ctx)
        parametric_error_branches(ctx)
    with ctx.timed("oracle_parametric"):
        parametric(ctx, (6 if ctx.quick() else 90) * (1 if ok and not ctx.disagreements else 3))
    with ctx.timed("epsilon_probes"):
        epsilon_probes(ctx)
    with ctx.timed("oracle_validation"):
        validate(ctx, (15 if ctx.quick() else 180) * (1 if ok and not ctx.disagreements else 3))
    return ctx.finish()
