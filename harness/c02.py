"""C02 — Gate-set conversion delivers only the requested gates."""
from __future__ import annotations

import itertools
import os
import sys

sys.path.insert(0, os.path.dirname(os.path.dirname(os.path.abspath(__file__))))

import c01  # noqa: E402
import qp  # noqa: E402
from common import Ctx  # noqa: E402
from translate import c01gen  # noqa: E402

LEAN_TARGETS = ["QuriVerif.Props.C02"]

PROMISED = {
    "RZSetTranspiler": {"X", "SqrtX", "CNOT", "RZ"},
    "RotationSetTranspiler": {"RX", "RY", "RZ", "CNOT"},
    "CliffordRZSetTranspiler": {"H", "X", "Y", "Z", "SqrtX", "SqrtXdag", "SqrtY", "SqrtYdag", "S", "Sdag", "RZ", "CZ", "CNOT"},
    "STARSetTranspiler": {"H", "S", "RZ", "CNOT"},
}


def gen(ctx: Ctx):
    r = c01.gen(ctx)
    with ctx.timed("translate"):
        txt, n, pr = c01gen.gen_presets_lean()
        ctx.write_generated("C02Presets", txt)
        ctx.generated_entries += n
    return r


def target_sets(ctx: Ctx):
    rng = ctx.rng
    base = ["H", "X", "Y", "Z", "S", "Sdag", "SqrtX", "T", "RX", "RY", "RZ"]
    if ctx.quick():
        sets = []
        for _ in range(50):
            s = [k for k in base + ["SqrtXdag", "SqrtY", "SqrtYdag", "Tdag", "Identity", "U3", "SWAP", "TOFFOLI"] if rng.random() < 0.35]
            s.append(rng.choice(["CNOT", "CZ"]))
            if rng.random() < 0.2:
                s.append("CZ")
            sets.append(s)
        return sets
    sets = []
    for r in range(len(base) + 1):
        for comb in itertools.combinations(base, r):
            for ent in ("CNOT", "CZ"):
                sets.append(list(comb) + [ent])
    return sets


def probe_circuits(n=3):
    """a fixed basis of single-gate circuits over the vocabulary (grid angles)"""
    out = []
    for k in qp.ONE_Q:
        out.append([qp.tg(k, (), (1,))])
    for k in ("RX", "RY", "RZ", "U1"):
        for a in (5, 32, 64):
            out.append([qp.tg(k, (), (0,), (a,))])
    out.append([qp.tg("U2", (), (2,), (7, 32))])
    out.append([qp.tg("U3", (), (2,), (7, 32, -9))])
    out += [[qp.tg("CNOT", (0,), (2,))], [qp.tg("CZ", (2,), (1,))], [qp.tg("SWAP", (), (0, 1))], [qp.tg("TOFFOLI", (0, 2), (1,))]]
    out += [[qp.tg("Pauli", (), (0, 2), (), (1, 3))], [qp.tg("PauliRotation", (), (2, 0, 1), (11,), (2, 1, 3))]]
    return out


def correspond(ctx: Ctx, presets):
    import quri_parts.circuit.transpile as T

    rng = ctx.rng
    sets = target_sets(ctx)
    # (1) pipeline structure for every target set
    resp = ctx.driver(["c01pipeline " + ",".join(s) for s in sets])
    for s, r in zip(sets, resp):
        try:
            real = c01.describe(T.GateSetConversionTranspiler(s)._decomposer)
        except Exception as e:  # noqa: BLE001
            real = ["raises:" + type(e).__name__]
        ctx.case(("pipeline", tuple(sorted(set(s)))), sample={"target_set": s, "pipeline": r[:200]})
        ctx.traces += 1
        if c01.canon_tokens(real) != c01.canon_tokens(r.split(";") if r else []):
            ctx.disagree("gateSetPipeline", s, real, r)
    # (2) run: model predicts raise vs output, gate for gate
    cases = []
    probes = probe_circuits()
    pick = sets if ctx.quick() else rng.sample(sets, 600)
    for s in pick:
        for gs in (rng.sample(probes, 4) if ctx.quick() else rng.sample(probes, 6)):
            cases.append(("gateSetConv", 3, gs, ["gateSetConv:1:" + ",".join(s)], (lambda s=s: T.GateSetConversionTranspiler(s))))
        gs = qp.random_grid_circuit(rng, 3, rng.randint(2, 8), c01.ALL_KINDS)
        cases.append(("gateSetConv", 3, gs, ["gateSetConv:1:" + ",".join(s)], (lambda s=s: T.GateSetConversionTranspiler(s))))
        cases.append(("gateSetConv-novalidate", 3, gs, ["gateSetConv:0:" + ",".join(s)],
                      (lambda s=s: T.GateSetConversionTranspiler(s, validation=False))))
    for name, toks in presets.items():
        for gs in probes:
            cases.append((f"preset:{name}", 3, gs, toks, (lambda nm=name: getattr(T, nm)())))
        for _ in range(ctx.n(6, 80)):
            gs = qp.random_grid_circuit(rng, 3, rng.randint(2, 9), c01.ALL_KINDS)
            cases.append((f"preset:{name}", 3, gs, toks, (lambda nm=name: getattr(T, nm)())))
    c01.run_cases(ctx, cases)


def validate(ctx: Ctx, budget_s: float):
    """the property itself on the real code: names ⊆ target set (UnitaryMatrix on ≥ 3 qubits excepted) or raise;
    qubit count unchanged; no index outside the register"""
    import time

    import numpy as np

    import quri_parts.circuit.transpile as T
    from oracle import dense
    from quri_parts.circuit import gates

    rng = ctx.rng
    t0 = time.time()
    full = qp.ONE_Q + ["RX", "RY", "RZ", "U1", "U2", "U3", "CNOT", "CZ", "SWAP", "TOFFOLI", "Pauli", "PauliRotation", "UM1", "UM2"]
    vocab = ["H", "X", "Y", "Z", "S", "Sdag", "SqrtX", "SqrtXdag", "SqrtY", "SqrtYdag", "T", "Tdag", "RX", "RY", "RZ",
             "CNOT", "CZ", "SWAP", "Identity", "U1", "U2", "U3", "TOFFOLI", "Pauli", "PauliRotation"]
    n_eval = 0
    while time.time() - t0 < budget_s:
        n = rng.randint(1, 4)
        circ = c01.random_real_circuit(rng, n, rng.randint(1, 8), full)
        if rng.random() < 0.15 and n >= 3:
            q = rng.sample(range(n), 3)
            circ.add_gate(gates.UnitaryMatrix(q, dense.random_unitary(rng, 8).tolist()))
        if rng.random() < 0.4:
            name = rng.choice(list(PROMISED))
            make, target, label = (lambda nm=name: getattr(T, nm)()), PROMISED[name], name
        else:
            s = [k for k in vocab if rng.random() < 0.3]
            if rng.random() < 0.8 and not ({"CNOT", "CZ"} & set(s)):
                s.append(rng.choice(["CNOT", "CZ"]))
            if rng.random() < 0.8 and not ({"RX", "RY", "RZ"} & set(s)):
                s.append(rng.choice(["RX", "RY", "RZ"]))
            eps = rng.choice([1e-9, 1e-9, 1e-6, 1e-12])
            make, target, label = (lambda s=s, e=eps: T.GateSetConversionTranspiler(s, epsilon=e)), set(s), f"GateSetConversion({s})"
        n_eval += 1
        try:
            out = make()(circ)
        except Exception as e:  # allowed
            ctx.count("validate", "raised:" + type(e).__name__)
            continue
        bad = [g for g in out.gates if g.name not in target and not (g.name == "UnitaryMatrix" and len(g.target_indices) >= 3)]
        idx = [q for g in out.gates for q in tuple(g.target_indices) + tuple(g.control_indices)]
        ctx.count("validate", "ok")
        if bad:
            ctx.witness("foreign-gate:" + label.split("(")[0], f"{label} returned {sorted({g.name for g in bad})} outside the promised set",
                        c01.describe_circ(circ), {"target": sorted(target)})
        if out.qubit_count != circ.qubit_count:
            ctx.witness("qubit-count:" + label.split("(")[0], f"{label} changed qubit_count {circ.qubit_count}->{out.qubit_count}", c01.describe_circ(circ))
        if idx and (max(idx) >= circ.qubit_count or min(idx) < 0):
            ctx.witness("out-of-register:" + label.split("(")[0], f"{label} produced a gate on qubit {max(idx)}", c01.describe_circ(circ))
    ctx.evaluations += n_eval
    ctx.extra["oracle_validation"] = {"evaluations": n_eval}
    ctx.search_budget_s = budget_s


def run(ctx: Ctx, replay=None) -> int:
    ctx.rule = ("cases = (target set → pipeline structure) and (pipeline or preset, grid circuit) real vs Lean model; "
                "distinct = distinct keys; plus direct validation of the property on the real code (names ⊆ promised or raise)")
    ctx.trusted = c01.TRUSTED[:5] + [
        "kind-level abstract interpretation (Model/C02.lean) proved sound for the pass model (Proof/C02.lean: run_kinds)",
        "UnitaryMatrix decomposition output kinds are not in the model (numerical code): checked per instance on the real code",
    ]
    ctx.assumptions = ["promised sets: RZ {X,SqrtX,CNOT,RZ}; rotation {RX,RY,RZ,CNOT}; Clifford+RZ as in the docstring; STAR {H,S,RZ,CNOT}"]
    tp, desc, tab, presets = gen(ctx)
    ok = ctx.prove(["QuriVerif.Props.C02", "QuriVerif.Driver.All"],
                   ["QuriVerif.Props.C02", "QuriVerif.Generated.C02Presets", "QuriVerif.Generated.C01Templates",
                    "QuriVerif.Generated.C01Ladders", "QuriVerif.Generated.C01Tables"])
    if ok:
        names = [f"QV.Props.C02.{n}" for _, n, _ in ctx.count_obligations(["QuriVerif.Props.C02"])]
        ctx.audit(names + ["QV.C02.run_kinds"], ["QuriVerif.Props.C02"])
        with ctx.timed("correspond"):
            correspond(ctx, presets)
    with ctx.timed("oracle_validation"):
        budget = (15 if ctx.quick() else 180) * (1 if ok and not ctx.disagreements else 3)
        validate(ctx, budget)
    return ctx.finish()
