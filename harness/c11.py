"""C11 — Concurrent execution is equivalent to sequential execution.

Tie between the Lean model (Model/C11.lean) and the working tree, all parts re-run on every check:

 K1 chunking      real `execute_concurrently` with a recording executor vs `chunksI` / `executeConcurrently`
                  of the model (Lean driver) vs an independent divmod oracle; exhaustive small scope.
 K2 entry points  every concurrent estimator / sampler entry point of the anchored files, with inline
                  (forward / reversed / shuffled), deterministic line-granular scheduled, real thread-pool and
                  real process-pool executors; observed outcome vs `executeWith` of the model applied to
                  the sequential results; sequential results vs the integer oracle.
 K3 homomorphism  each real worker function satisfies fn(c, a ++ b) = fn(c, a) ++ fn(c, b)  (hypothesis `hom`)
 K4 footprints    the backend mutators/readers and the conversion caches are wrapped; the recorded per-task
                  statement traces are translated to the model's `Instr` language and the hypothesis of
                  `schedule_independence` (`disciplined`) is evaluated on them by the Lean driver.
 K5 schedules     deterministic scheduler: one thread per task, a `sys.settrace` line hook hands a single run
                  token around according to a PRNG schedule (replayable from (seed, p)).
 K2b plain refs   every batch result (sequential and concurrent path) against one call per input of the plain,
                  non-concurrent public entry point of the same family (create_qulacs_vector_estimator, ..._sampler,
                  ideal samplers, general(op, state), general(op, pstate, params), overlap estimator) and the oracle.
 K6 general smp.  the five create_qulacs_*general*_sampler factories of sampler.py (three take executor/concurrency):
                  mixed batches (circuit / state / parametric circuit / parametric state; list, tuple, star form)
                  vs one call per input vs the oracle.
 K7 histories     ONE estimator/sampler object, one executor (inline / scheduler / one real thread pool) and the same
                  input objects over the calls A, B, A, B; between the calls the caller scribbles on the public copies
                  of the compiled circuits (`.qulacs_circuit`); every call must equal a fresh sequential call.

Argument forms drawn by the generators: operators as Operator / bare label / bare identity / zero operator / zero
coefficient; states as circuit state, state vector, compiled circuit, parametric state vector; noise models empty /
BitFlip(0) / BitFlip(1) (deterministic: an X after every gate on each of its qubits); containers list / tuple /
one-shot iterator (where the signature says Iterable) / numpy arrays for parameters, int zeros; the same input twice
in a batch (equal or identical object); concurrency given / left out; 2**31 shots; malformed inputs inside a chunk.
"""
from __future__ import annotations

import json
import math
import os
import pickle
import random
import re
import sys
import threading
import time

sys.path.insert(0, os.path.dirname(os.path.dirname(os.path.abspath(__file__))))

from common import REPO, VERIF, Ctx, InfraError, read_repo  # noqa: E402
from oracle import c11ref  # noqa: E402
from translate import c11gen  # noqa: E402

LEAN_TARGETS = ["QuriVerif.Props.C11", "QuriVerif.Driver.C11"]
LEAN_TARGETS_THOROUGH = ["QuriVerif.Props.C11Deep"]
DRIVER = "DriverC11.lean"
PI = math.pi
PKG = os.path.join(REPO, "packages") + os.sep

K_NONPOS = "nonpositive-concurrency-drops-inputs"
K_ONESHOT = "general-estimator.one-shot-params-drop-first"

TRUSTED = [
    "Lean 4.33 kernel; axioms audited ⊆ {propext, Classical.choice, Quot.sound}",
    "the task-system model: statements are atomic (CPython executes one bytecode line of one thread at a time under "
    "the GIL; C-level races inside Qulacs / NumPy / stim while the GIL is released are NOT modelled)",
    "Executor.map contract (results in input order, exceptions re-raised on retrieval) for concurrent.futures executors",
    "harness instrumentation: wrappers of the Qulacs mutators/readers and of the two `_operator_cache` dicts define "
    "the footprints that are checked; a mutator that is not in the wrapper table is invisible to the audit",
    "the deterministic scheduler (sys.settrace line hook + semaphores) explores statement-granular interleavings of the "
    "quri-parts Python frames only; its effectiveness is self-tested on a racy toy worker every run",
    "installed Qulacs 0.6 / stim / quri_parts.rust 0.27 binaries",
]


# ---------------------------------------------------------------------------
# builders: plain-data descriptions -> real objects
# ---------------------------------------------------------------------------
def build_circuit(q, gates, compiled=False):
    from quri_parts.circuit import QuantumCircuit

    c = QuantumCircuit(q)
    for g in gates:
        k = g[0]
        if k in ("X", "Y", "Z", "S", "T"):
            getattr(c, f"add_{k}_gate")(g[1])
        elif k == "CNOT":
            c.add_CNOT_gate(g[1], g[2])
        elif k == "SWAP":
            c.add_SWAP_gate(g[1], g[2])
        elif k == "TOFFOLI":
            c.add_TOFFOLI_gate(g[1], g[2], g[3])
        else:
            raise InfraError(f"unknown gate {g}")
    if compiled:
        from quri_parts.qulacs.circuit.compiled_circuit import compile_circuit

        return compile_circuit(c)
    return c


def build_state(d):
    import numpy as np

    from quri_parts.core.state import GeneralCircuitQuantumState, QuantumStateVector

    circ = build_circuit(d["q"], d["gates"], d.get("compiled", False))
    if d.get("init") is None:
        return GeneralCircuitQuantumState(d["q"], circ)
    v = np.zeros(2 ** d["q"], dtype=complex)
    v[d["init"]] = 1.0
    return QuantumStateVector(d["q"], v, circ)


def _flip_after(bits, g):
    """BitFlipNoise(1.0) of a NoiseModel: after every gate an X on every qubit the gate acts on (deterministic)"""
    if g[0] == "PPR":
        qs = [q for q, _ in g[1]]
    elif g[0] in ("PRX", "PRY", "PRZ"):
        qs = [g[1]]
    else:
        qs = list(g[1:])
    for q in qs:
        bits ^= 1 << q
    return bits


def state_bits(d):
    gs = [tuple(g) for g in d["gates"]]
    b = d.get("init") or 0
    if d.get("noise") != "bitflip1":
        return c11ref.run_classical(b, gs)
    for g in gs:
        b = _flip_after(c11ref.run_classical(b, [g]), g)
    return b


_PN = {1: "X", 2: "Y", 3: "Z"}


def build_label(paulis):
    from quri_parts.core.operator import PAULI_IDENTITY, pauli_label

    if not paulis:
        return PAULI_IDENTITY
    return pauli_label(" ".join(f"{_PN[p]}{q}" for q, p in paulis))


def build_operator(d):
    from quri_parts.core.operator import Operator

    if "label" in d:
        return build_label(d["label"])
    return Operator({build_label(p): float(c) for c, p in d["terms"]})


def op_terms(d):
    if "label" in d:
        return [(1, [tuple(x) for x in d["label"]])]
    return [(c, [tuple(x) for x in p]) for c, p in d["terms"]]


def build_pstate(d):
    """parametric state; d['kind'] in unbound|linear, d['compiled'] in False|True|'forced'"""
    from quri_parts.circuit import LinearMappedParametricQuantumCircuit, ParametricQuantumCircuit
    from quri_parts.core.state import ParametricCircuitQuantumState

    q = d["q"]
    if d["kind"] == "unbound":
        pc = ParametricQuantumCircuit(q)
        ps = None
    else:
        pc = LinearMappedParametricQuantumCircuit(q)
        ps = pc.add_parameters(*[f"p{i}" for i in range(d["nparams"])])
    for g in d["gates"]:
        k = g[0]
        if k in ("PRX", "PRY", "PRZ"):
            m = getattr(pc, f"add_Parametric{k[1:]}_gate")
            if ps is None:
                m(g[1])
            else:
                m(g[1], {ps[int(i)]: float(c) for i, c in g[2].items()})
        elif k == "PPR":
            ts = [t for t, _ in g[1]]
            ids = [p for _, p in g[1]]
            if ps is None:
                pc.add_ParametricPauliRotation_gate(ts, ids)
            else:
                pc.add_ParametricPauliRotation_gate(ts, ids, {ps[int(i)]: float(c) for i, c in g[2].items()})
        elif k in ("X", "Y", "Z", "S", "T"):
            getattr(pc, f"add_{k}_gate")(g[1])
        elif k == "CNOT":
            pc.add_CNOT_gate(g[1], g[2])
        elif k == "SWAP":
            pc.add_SWAP_gate(g[1], g[2])
        else:
            raise InfraError(f"unknown parametric gate {g}")
    comp = d.get("compiled", False)

    def mk(circ):
        if d.get("init") is None:
            return ParametricCircuitQuantumState(q, circ)
        import numpy as np

        from quri_parts.core.state import ParametricQuantumStateVector

        v = np.zeros(2**q, dtype=complex)
        v[d["init"]] = 1.0
        return ParametricQuantumStateVector(q, circ, v)

    if comp:
        from quri_parts.qulacs.circuit.compiled_circuit import compile_parametric_circuit

        cpc = compile_parametric_circuit(pc)
        st = mk(cpc)
        if comp == "forced":
            # ParametricCircuitQuantumState freezes an unbound compiled circuit back into a plain immutable one;
            # the branch of `_sequential_parametric_estimate` for `_QulacsUnboundParametricCircuit` is reached
            # only when the state hands the compiled object through.
            st._circuit = cpc
        return st
    return mk(pc)


def pstate_bits(d, params_pi):
    gs = []
    for g in d["gates"]:
        if g[0] in ("PRX", "PRY", "PRZ"):
            gs.append((g[0], g[1], {int(i): int(c) for i, c in g[2].items()}))
        elif g[0] == "PPR":
            gs.append(("PPR", [tuple(x) for x in g[1]], {int(i): int(c) for i, c in g[2].items()}))
        else:
            gs.append(tuple(g))
    b = d.get("init") or 0
    if d.get("noise") != "bitflip1":
        return c11ref.run_parametric(b, gs, params_pi)
    for g in gs:
        b = _flip_after(c11ref.run_parametric(b, [g], params_pi), g)
    return b


# ---------------------------------------------------------------------------
# generators
# ---------------------------------------------------------------------------
def gen_gates(rng, q, length, clifford_only=False):
    out = []
    for _ in range(length):
        r = rng.random()
        if r < 0.45 or q == 1:
            out.append((rng.choice(["X", "X", "Y", "Z", "S"] + ([] if clifford_only else ["T"])), rng.randrange(q)))
        elif r < 0.75:
            a, b = rng.sample(range(q), 2)
            out.append(("CNOT", a, b))
        elif r < 0.9 or q < 3 or clifford_only:
            a, b = rng.sample(range(q), 2)
            out.append(("SWAP", a, b))
        else:
            a, b, c = rng.sample(range(q), 3)
            out.append(("TOFFOLI", a, b, c))
    return out


def gen_state(rng, q, want_bits=None, compiled_ok=True, vector_ok=True, clifford_only=False, force=None, noise=None):
    """a state description whose final basis state is `want_bits` when given (under the noise model `noise`)"""
    gates = gen_gates(rng, q, rng.randint(0, 5), clifford_only)
    init = rng.randrange(2**q) if (vector_ok and (rng.random() < 0.25 or force == "vector")) else None
    d = {"q": q, "gates": gates, "init": init,
         "compiled": bool(compiled_ok and (rng.random() < 0.35 or force == "compiled"))}
    if noise == "bitflip1":
        d["noise"] = noise
    if want_bits is not None:
        cur = state_bits(d)
        # under bitflip1 an X gate is undone by its own noise; a Z gate is what flips the bit
        fix = [("Z" if noise == "bitflip1" else "X", i) for i in range(q) if ((cur ^ want_bits) >> i) & 1]
        rng.shuffle(fix)
        d["gates"] = gates + fix
    return d


def gen_label(rng, q, z_only=False):
    k = rng.randint(1, min(q, 3))
    qs = rng.sample(range(q), k)
    return sorted((x, 3 if (z_only or rng.random() < 0.75) else rng.choice([1, 2])) for x in qs)


def gen_operator(rng, q, tag):
    """operator whose expectation on any basis state identifies `tag` (identity coefficient 64*tag); a few
    degenerate forms: bare label, bare identity label, the zero operator, a zero-coefficient term"""
    r = rng.random()
    if r < 0.08:
        return {"label": gen_label(rng, q)}
    if r < 0.11:
        return {"label": []}
    if r < 0.17:
        return {"terms": []}
    if r < 0.20:
        return {"terms": [(0, gen_label(rng, q))]}
    terms, seen = [], set()
    for _ in range(rng.randint(0, 4)):
        lab = gen_label(rng, q)
        if tuple(lab) in seen:
            continue
        seen.add(tuple(lab))
        terms.append((rng.randint(-4, 4) or 1, lab))
    terms.append((64 * (tag + 1), []))
    rng.shuffle(terms)
    return {"terms": terms}


def bit_reader(q):
    """operator whose expectation on a basis state identifies the state"""
    return {"terms": [(2**i, [(i, 3)]) for i in range(q)]}


def distinct_bits(rng, q, n):
    pool = list(range(2**q))
    rng.shuffle(pool)
    return [pool[i % len(pool)] for i in range(n)]


def gen_pstate(rng, q, kind=None, compiled=None, vector=None, noise=None):
    d = _gen_pstate(rng, q, kind, compiled)
    if vector is None:
        vector = rng.random() < 0.3
    if vector:
        d["init"] = rng.randrange(2**q)
    if noise == "bitflip1":
        d["noise"] = noise
    return d


def _gen_pstate(rng, q, kind=None, compiled=None):
    kind = kind or rng.choice(["unbound", "linear"])
    gates, npar = [], 0
    if kind == "unbound":
        for _ in range(rng.randint(1, 5)):
            r = rng.random()
            if r < 0.6:
                gates.append((rng.choice(["PRX", "PRY", "PRX", "PRZ"]), rng.randrange(q), {str(npar): 1}))
                npar += 1
            elif r < 0.75 and q >= 2:
                k = rng.randint(1, min(q, 3))
                gates.append(("PPR", [(t, rng.randint(1, 3)) for t in rng.sample(range(q), k)], {str(npar): 1}))
                npar += 1
            else:
                gates += gen_gates(rng, q, 1, clifford_only=True)
        if npar == 0:
            gates.append(("PRX", 0, {"0": 1}))
            npar = 1
    else:
        npar = rng.randint(1, 3)
        for _ in range(rng.randint(1, 5)):
            r = rng.random()
            ang = {str(i): rng.randint(-2, 3) for i in rng.sample(range(npar), rng.randint(1, npar))}
            ang = {k: v for k, v in ang.items() if v != 0} or {"0": 1}
            if r < 0.6:
                gates.append((rng.choice(["PRX", "PRY", "PRZ", "PRX"]), rng.randrange(q), ang))
            elif r < 0.75 and q >= 2:
                k = rng.randint(1, min(q, 3))
                gates.append(("PPR", [(t, rng.randint(1, 3)) for t in rng.sample(range(q), k)], ang))
            else:
                gates += gen_gates(rng, q, 1, clifford_only=True)
    if compiled is None:
        compiled = rng.choice([False, False, True, "forced"]) if kind == "unbound" else rng.choice([False, True])
    return {"q": q, "kind": kind, "gates": gates, "nparams": npar, "compiled": compiled}


def hetero_qs(rng, q, n, lo=1, hi=4):
    """qubit count per input: all `q`, or (40 %) a heterogeneous batch — different widths in one batch, in any order
    (larger before smaller and the reverse); -> (list of widths, smallest width)"""
    if n < 2 or rng.random() >= 0.4:
        return [q] * n, q
    qs = [rng.randint(lo, hi) for _ in range(n)]
    if len(set(qs)) == 1:
        qs[rng.randrange(n)] = qs[0] % hi + 1 if qs[0] % hi + 1 >= lo else lo
    if rng.random() < 0.5:  # a wide input first, a narrow one right after it
        qs.sort(reverse=True)
        k = rng.randrange(n)
        qs = qs[k:] + qs[:k]
        if qs[0] <= qs[1]:
            qs[0], qs[1] = max(qs), min(qs)
    return qs, min(qs)


def gen_params(rng, npar, n):
    return [[rng.randint(-3, 4) for _ in range(npar)] for _ in range(n)]


# ---------------------------------------------------------------------------
# canonical forms
# ---------------------------------------------------------------------------
def canon_value(v):
    z = complex(v)
    re, im = round(z.real), round(z.imag)
    tol = 1e-6 * max(1.0, abs(z))  # relative for the 2**31-shot ideal counts (probability * shots in floating point)
    if abs(z.real - re) > tol or abs(z.imag - im) > tol:
        return ("non-integer", repr(z))
    return (re, im)


def canon_estimates(rs):
    return [canon_value(e.value) for e in rs]


def canon_counts(rs):
    out = []
    for c in rs:
        # ideal samplers list every outcome; probabilities of 0 (or 1e-32 from a rotation by pi) are no counts
        out.append(tuple(sorted((int(k), canon_value(v)) for k, v in dict(c).items() if canon_value(v) != (0, 0))))
    return out


# ---------------------------------------------------------------------------
# executors
# ---------------------------------------------------------------------------
class InlineExecutor:
    """Executor.map contract, tasks run one after another in a chosen order; records what was submitted"""

    kind = "thread"

    def __init__(self, order="fwd", rng=None, hook=None):
        self.order, self.rng, self.hook = order, rng, hook
        self.submitted = []

    def map(self, fn, *iterables):
        calls = list(zip(*iterables))
        self.submitted.append((fn, calls))
        if self.order == "lazy":
            # results are produced only when the caller consumes them (a generator, still in input order)
            def lazy():
                for i, a in enumerate(calls):
                    if self.hook:
                        self.hook(i)
                    yield fn(*a)
                if self.hook:
                    self.hook(None)

            return lazy()
        idx = list(range(len(calls)))
        if self.order == "rev":
            idx.reverse()
        elif self.order == "shuffle":
            self.rng.shuffle(idx)
        res, err = [None] * len(calls), [None] * len(calls)
        for i in idx:
            if self.hook:
                self.hook(i)
            try:
                res[i] = fn(*calls[i])
            except Exception as e:  # noqa: BLE001
                err[i] = e
        if self.hook:
            self.hook(None)

        def it():
            for i in range(len(calls)):
                if err[i] is not None:
                    raise err[i]
                yield res[i]

        return it()


class SchedStuck(Exception):
    pass


class SchedExecutor:
    """One thread per task; only the thread holding the token runs.  At every `line` event of a frame whose
    code lives under one of `prefixes`, the holder passes the token to a PRNG-chosen other live task with
    probability p.  (seed, p) determine the interleaving completely.

    With `preempt=(first, k)` the schedule is instead: task `first` runs up to its k-th yield point, is preempted
    there, all other tasks run to completion one after another, then `first` finishes (one-preemption schedules;
    enumerating k is exhaustive for context bound 1)."""

    kind = "thread"

    def __init__(self, seed, p, prefixes=(PKG,), timeout=60.0, preempt=None):
        self.seed, self.p, self.prefixes, self.timeout = seed, p, tuple(prefixes), timeout
        self.preempt = preempt
        self.points = 0
        self.switches = 0
        self.first_points = 0
        self.stuck = False

    def map(self, fn, *iterables):
        calls = list(zip(*iterables))
        n = len(calls)
        if n == 0:
            return iter(())
        rng = random.Random(f"sched:{self.seed}")
        results, errors = [None] * n, [None] * n
        sems = [threading.Semaphore(0) for _ in range(n)]
        alive = list(range(n))
        done = threading.Event()
        prefixes, p, me_self = self.prefixes, self.p, self

        pre = self.preempt
        if pre is not None:
            pre = (pre[0] % n, pre[1])

        def handoff(me, finished):
            if finished:
                alive.remove(me)
                if not alive:
                    done.set()
                    return
                if pre is not None:
                    others = [a for a in alive if a != pre[0]]
                    nxt = others[0] if others else alive[0]
                else:
                    nxt = rng.choice(alive)
            else:
                me_self.points += 1
                if pre is not None:
                    if me != pre[0]:
                        return
                    me_self.first_points += 1
                    if me_self.first_points != pre[1] or len(alive) == 1:
                        return
                    nxt = [a for a in alive if a != me][0]
                else:
                    if len(alive) == 1 or rng.random() >= p:
                        return
                    nxt = rng.choice([a for a in alive if a != me])
            me_self.switches += 1
            sems[nxt].release()
            if not finished and not sems[me].acquire(timeout=me_self.timeout):
                me_self.stuck = True
                done.set()
                raise SchedStuck()

        def runner(me):
            if not sems[me].acquire(timeout=self.timeout):
                self.stuck = True
                done.set()
                return

            def loc(frame, event, arg):
                if event == "line":
                    handoff(me, False)
                return loc

            def glob(frame, event, arg):
                if event == "call" and frame.f_code.co_filename.startswith(prefixes):
                    return loc
                return None

            sys.settrace(glob)
            try:
                results[me] = fn(*calls[me])
            except SchedStuck:
                sys.settrace(None)
                return
            except BaseException as e:  # noqa: BLE001
                errors[me] = e
            sys.settrace(None)
            handoff(me, True)

        ths = [threading.Thread(target=runner, args=(i,), daemon=True) for i in range(n)]
        for t in ths:
            t.start()
        sems[pre[0] if pre is not None else rng.choice(alive)].release()
        if not done.wait(self.timeout * 2) or self.stuck:
            raise InfraError(f"deterministic scheduler stuck (seed={self.seed}, p={self.p})")
        for t in ths:
            t.join(5)

        def it():
            for i in range(n):
                if errors[i] is not None:
                    raise errors[i]
                yield results[i]

        return it()


def _quiet_child():
    try:
        fd = os.open(os.devnull, os.O_WRONLY)
        os.dup2(fd, 2)
    except OSError:
        pass


class FreshProcessPool:
    """a real ProcessPoolExecutor per map call (an unpicklable input breaks a pool for good)"""

    kind = "process"

    def __init__(self, workers=2, start=None):
        self.workers, self.start = workers, start

    def map(self, fn, *iterables):
        import multiprocessing
        from concurrent.futures import ProcessPoolExecutor, wait

        # Executor.map spelled out (submit every call, hand the results back in input order, re-raise on retrieval) so
        # that the pool is shut down only after EVERY future is settled: CPython 3.12's manager thread joins the
        # queue feeder thread while holding the shutdown lock the feeder's pickling-error handler needs — shutting
        # down while a second unpicklable chunk is still being fed deadlocks the interpreter.
        if self.start:
            pp = ProcessPoolExecutor(self.workers, mp_context=multiprocessing.get_context(self.start), initializer=_spawn_init)
        else:
            pp = ProcessPoolExecutor(self.workers, initializer=_quiet_child)
        try:
            futs = [pp.submit(fn, *args) for args in zip(*iterables)]
            _, pending = wait(futs, timeout=300)
            if pending:
                for pr in list(getattr(pp, "_processes", {}).values()):
                    pr.kill()
                raise InfraError("process pool did not settle within 300 s")
        finally:
            pp.shutdown(wait=True, cancel_futures=True)

        def it():
            for f in futs:
                yield f.result()

        return it()


class RealThreadPool:
    kind = "thread"

    def __init__(self, workers):
        self.workers = workers

    def map(self, fn, *iterables):
        from concurrent.futures import ThreadPoolExecutor

        with ThreadPoolExecutor(self.workers) as tp:
            return iter(list(tp.map(fn, *iterables)))


def make_executor(spec, rng=None):
    """spec: none | inline:fwd|rev|shuffle | sched:<seed>:<p> | preempt:<task>:<k> | threads:<k> | procs:<k>"""
    if spec == "none":
        return None
    a = spec.split(":")
    if a[0] == "inline":
        return InlineExecutor(a[1], rng or random.Random(spec))
    if a[0] == "sched":
        return SchedExecutor(int(a[1]), float(a[2]))
    if a[0] == "preempt":
        return SchedExecutor(0, 0.0, preempt=(int(a[1]), int(a[2])))
    if a[0] == "threads":
        return RealThreadPool(int(a[1]))
    if a[0] == "procs":
        return FreshProcessPool(int(a[1]))
    if a[0] == "spawn":
        return FreshProcessPool(int(a[1]), start="spawn")
    raise InfraError(f"bad executor spec {spec}")


def executor_kind(spec):
    return "none" if spec == "none" else ("process" if spec.startswith(("procs", "spawn")) else "thread")


# ---------------------------------------------------------------------------
# entry points
# ---------------------------------------------------------------------------
def _noise_model(kind):
    from quri_parts.circuit.noise import BitFlipNoise, NoiseModel

    if kind == "empty":
        return NoiseModel()
    return NoiseModel([BitFlipNoise(1.0 if kind == "bitflip1" else 0.0)])


NOISES = ["empty", "bitflip0", "bitflip1", "bitflip1"]


class EP:
    """one concurrent entry point + one call shape"""

    def __init__(self, name, gen, call, expected, per_input=None, combine=None, min_n=0, variants=1, single=None):
        self.name, self.call, self.expected = name, call, expected
        self._gen = gen
        self.variants = variants  # variant 0 = random mix; 1.. = forced input kinds (compiled, vector, ...)
        self.per_input = per_input  # sequential per-input results for combine-type entry points
        self.combine = combine
        self.min_n = min_n
        # single(b) -> {reference name: [canonical per-input result]} obtained from the plain, non-concurrent public
        # entry points (one call per input, fresh objects)
        self.single = single

    def gen(self, rng, n, variant=0):
        b = self._gen(rng, n, variant % self.variants)
        if rng.random() < 0.25:
            _repeat_inputs(b, rng)
        return b


def _repeat_inputs(b, rng):
    """the same input more than once in a batch: as equal objects, or (b['alias']) as the very same object"""
    for k in ("items", "params", "states", "ops"):
        xs = b.get(k)
        if isinstance(xs, list) and len(xs) >= 2:
            i, j = rng.sample(range(len(xs)), 2)
            if k == "items":
                xs[j] = {**xs[i], "shots": xs[j]["shots"]} if rng.random() < 0.5 else dict(xs[i])
            else:
                xs[j] = xs[i]
            if k in ("items", "params"):
                break
    if "kets" in b and len(b["kets"]) >= 2:
        i, j = rng.sample(range(len(b["kets"])), 2)
        b["kets"][j], b["bras"][j] = b["kets"][i], b["bras"][i]
    b["alias"] = rng.random() < 0.5


def _call_memo(b, memo):
    return {} if (memo is None and b.get("alias")) else memo


def _fargs(ex, c):
    """concurrency None = the caller leaves the argument out (documented default 1)"""
    return (ex,) if c is None else (ex, c)


def _memo(memo, key, thunk):
    """history runs hand a dict through `call`: the callable under test and the built input objects are then
    created once and used again by later calls"""
    if memo is None:
        return thunk()
    if key not in memo:
        memo[key] = thunk()
    return memo[key]


def _built(memo, kind, desc, builder):
    if memo is None:
        return builder(desc)
    return _memo(memo, (kind, json.dumps(desc, sort_keys=True, default=str)), lambda: builder(desc))


def _seq(xs, form):
    """the caller's container: list | tuple | iter (one-shot iterator)"""
    xs = list(xs)
    if form == "tuple":
        return tuple(xs)
    if form == "iter":
        return (x for x in xs)
    return xs


def _params(b):
    """parameter batch in the caller's argument form (b['form']): list of lists | tuple of tuples | 2-d numpy array |
    list of numpy rows | one-shot iterator; b['int0']: a zero angle is the int 0, not the float 0.0"""
    import numpy as np

    form = b.get("form", "list")
    rows = [[(k * PI if (k or not b.get("int0")) else 0) for k in p] for p in b["params"]]
    if form == "tuple":
        return tuple(tuple(r) for r in rows)
    if form == "ndarray":
        return np.array(rows, dtype=float).reshape(len(rows), len(rows[0]) if rows else 0)
    if form == "ndrows":
        return [np.array(r, dtype=float) for r in rows]
    if form == "iter":
        return (r for r in rows)
    return rows


def _est_family(fam, noise="bitflip0"):
    """-> factory(executor, concurrency) giving a ConcurrentQuantumEstimator"""
    if fam == "qulacs.vector":
        from quri_parts.qulacs.estimator import create_qulacs_vector_concurrent_estimator as f

        return lambda ex, c: f(*_fargs(ex, c))
    if fam == "qulacs.dm":
        from quri_parts.qulacs.estimator import create_qulacs_density_matrix_concurrent_estimator as f

        return lambda ex, c: f(_noise_model(noise), *_fargs(ex, c))
    if fam == "qulacs.general_vector":
        from quri_parts.qulacs.estimator import create_qulacs_general_vector_estimator as f

        return lambda ex, c: f(*_fargs(ex, c))
    if fam == "qulacs.general_dm":
        from quri_parts.qulacs.estimator import create_qulacs_general_density_matrix_estimator as f

        return lambda ex, c: f(_noise_model(noise), *_fargs(ex, c))
    if fam == "stim":
        from quri_parts.stim.estimator import create_stim_clifford_concurrent_estimator as f

        return lambda ex, c: f(*_fargs(ex, c))
    raise InfraError(fam)


def _plain_estimator(fam, noise):
    """the plain one-operator-one-state entry point of the same family"""
    import quri_parts.qulacs.estimator as E

    if fam == "qulacs.vector":
        return E.create_qulacs_vector_estimator()
    if fam == "qulacs.dm":
        return E.create_qulacs_density_matrix_estimator(_noise_model(noise))
    if fam == "qulacs.general_vector":
        return E.create_qulacs_general_vector_estimator()  # called as general(op, state)
    if fam == "qulacs.general_dm":
        return E.create_qulacs_general_density_matrix_estimator(_noise_model(noise))
    from quri_parts.stim.estimator import create_stim_clifford_estimator

    return create_stim_clifford_estimator()


def _mk_est_ep(fam, shape):
    general = fam.startswith("qulacs.general")
    stim = fam == "stim"
    noisy = fam in ("qulacs.dm", "qulacs.general_dm")

    def gen(rng, n, variant=0):
        q = rng.randint(1, 4)
        noise = rng.choice(NOISES) if noisy else None
        kw = dict(compiled_ok=not stim, vector_ok=not stim, clifford_only=stim, force=(None, "compiled", "vector")[variant],
                  noise=noise)
        b = {"q": q}
        if shape == "ops-state":
            b.update(ops=[gen_operator(rng, q, i) for i in range(n)], states=[gen_state(rng, q, None, **kw)])
        else:
            # several states: possibly of different widths; every operator acts within the narrowest one
            qs, qmin = hetero_qs(rng, q, n)
            b["q"], b["qmax"] = qmin, max(qs + [qmin])
            sts = [gen_state(rng, qi, rng.randrange(2**qi) if qi != qmin else x, **kw)
                   for qi, x in zip(qs, distinct_bits(rng, qmin, n))]
            b.update(ops=[bit_reader(qmin)] if shape == "op-states" else [gen_operator(rng, qmin, i) for i in range(n)], states=sts)
        if noisy:
            b["noise"] = noise
        b["form"] = rng.choice(["list", "list", "tuple"])
        return b

    def call(b, ex, c, memo=None):
        memo = _call_memo(b, memo)
        form = b.get("form", "list")
        ops = _seq([_built(memo, "op", o, build_operator) for o in b["ops"]], form)
        sts = _seq([_built(memo, "state", s, build_state) for s in b["states"]], form)
        est = _memo(memo, "callable", lambda: _est_family(fam, b.get("noise", "bitflip0"))(ex, c))
        if general:
            if shape == "ops-state":
                return canon_estimates(est(ops, sts[0]))
            if shape == "op-states":
                return canon_estimates(est(ops[0], sts))
        return canon_estimates(est(ops, sts))

    def pairs(b):
        ops, sts = b["ops"], b["states"]
        n = max(len(ops), len(sts)) if ops and sts else 0
        return [(ops[i if len(ops) > 1 else 0], sts[i if len(sts) > 1 else 0]) for i in range(n)]

    def expected(b):
        return [(c11ref.expectation(op_terms(o), state_bits(s)), 0) for o, s in pairs(b)]

    def single(b):
        est = _plain_estimator(fam, b.get("noise", "bitflip0"))
        return {"plain": [canon_value(est(build_operator(o), build_state(s)).value) for o, s in pairs(b)]}

    return EP(f"{fam}:{shape}", gen, call, expected, min_n=1, variants=1 if stim else 3, single=single)


def _mk_param_ep(fam):
    general = fam.startswith("qulacs.general")
    noisy = "dm" in fam

    def factory(ex, c, noise="bitflip0"):
        import quri_parts.qulacs.estimator as E

        if fam == "qulacs.vector.parametric":
            return E.create_qulacs_vector_concurrent_parametric_estimator(*_fargs(ex, c))
        if fam == "qulacs.dm.parametric":
            return E.create_qulacs_density_matrix_concurrent_parametric_estimator(_noise_model(noise), *_fargs(ex, c))
        if fam == "qulacs.general_vector.parametric":
            return E.create_qulacs_general_vector_estimator(*_fargs(ex, c))
        return E.create_qulacs_general_density_matrix_estimator(_noise_model(noise), *_fargs(ex, c))

    PV = [None, ("unbound", False), ("unbound", True), ("linear", False), ("linear", True), ("unbound", "forced")]

    def gen(rng, n, variant=0):
        q = rng.randint(1, 4)
        noise = rng.choice(NOISES) if noisy else None
        ps = gen_pstate(rng, q, noise=noise) if not variant else gen_pstate(rng, q, PV[variant][0], PV[variant][1], noise=noise)
        if fam != "qulacs.vector.parametric" and ps["compiled"] == "forced":
            ps["compiled"] = False
        b = {"q": q, "op": bit_reader(q), "pstate": ps, "params": gen_params(rng, ps["nparams"], n)}
        if noisy:
            b["noise"] = noise
        # a one-shot iterator is a documented argument form of execute_concurrently only; the general estimator loses
        # the first element of one (known finding, replayed separately)
        b["form"] = rng.choice(["list", "list", "tuple", "ndarray", "ndrows"])
        b["int0"] = rng.random() < 0.3
        return b

    def call(b, ex, c, memo=None):
        memo = _call_memo(b, memo)
        est = _memo(memo, "callable", lambda: factory(ex, c, b.get("noise", "bitflip0")))
        params = _params(b)
        op = _built(memo, "op", b["op"], build_operator)
        ps = _built(memo, "pstate", b["pstate"], build_pstate)
        if general and not len(b["params"]):
            # GeneralQuantumEstimator inspects next(iter(param)); an empty batch has no concurrent call shape
            return canon_estimates(est.concurrent_parametric_estimator(op, ps, params))
        return canon_estimates(est(op, ps, params))

    def expected(b):
        return [(c11ref.expectation(op_terms(b["op"]), pstate_bits(b["pstate"], p)), 0) for p in b["params"]]

    def single(b):
        import quri_parts.qulacs.estimator as E

        noise = b.get("noise", "bitflip0")
        if fam == "qulacs.vector.parametric":
            est = E.create_qulacs_vector_parametric_estimator()
        elif fam == "qulacs.dm.parametric":
            est = E.create_qulacs_density_matrix_parametric_estimator(_noise_model(noise))
        else:
            est = factory(None, 1, noise)  # called as general(op, pstate, one parameter set)
        rows = _params({**b, "form": "list"})
        op, ps = build_operator(b["op"]), build_pstate(b["pstate"])
        out = []
        for r in rows:
            if general and len(r) == 0:
                return {}
            out.append(canon_value(est(op, ps, r).value))
        return {"plain": out}

    return EP(fam, gen, call, expected, variants=6 if fam == "qulacs.vector.parametric" else 5, single=single)


def _mk_sampler_ep(fam):
    noisy = fam in ("sampler.dm", "sampler.stochastic", "sampler.noisesim")

    def factory(ex, c, noise):
        import quri_parts.qulacs.sampler as S
        import quri_parts.qulacs.simulator as M

        if fam == "sampler.vector":
            return S.create_qulacs_vector_concurrent_sampler(*_fargs(ex, c))
        if fam == "sampler.dm":
            return S.create_qulacs_density_matrix_concurrent_sampler(_noise_model(noise), *_fargs(ex, c))
        if fam == "sampler.stochastic":
            return S.create_qulacs_stochastic_state_vector_concurrent_sampler(_noise_model(noise), *_fargs(ex, c))
        if fam == "sampler.noisesim":
            return S.create_qulacs_noisesimulator_concurrent_sampler(_noise_model(noise), *_fargs(ex, c))
        return M.create_concurrent_vector_state_sampler(*_fargs(ex, c))

    def gen(rng, n, variant=0):
        q = rng.randint(1, 4)
        bits = distinct_bits(rng, q, n)
        big = fam in ("sampler.vector", "sampler.dm", "simulator.state_sampler")
        force = (None, "compiled", "vector")[variant]
        noise = rng.choice(NOISES) if noisy else rng.choice(["empty", "bitflip0"])
        items = []
        qs, qmin = hetero_qs(rng, q, n)  # circuits / states of different widths in one batch
        for i, (x, qi) in enumerate(zip(bits, qs)):
            shots = 3 + i if not (big and rng.random() < 0.15) else rng.choice([1500, 1500, 2**31]) + i
            x = x if qi == q else rng.randrange(2**qi)
            if fam == "simulator.state_sampler":
                items.append({"state": gen_state(rng, qi, x, force=force), "shots": shots})
            else:
                st = gen_state(rng, qi, x, vector_ok=False, compiled_ok=(fam == "sampler.vector"), force=force,
                               noise=noise if noisy else None)
                items.append({"state": st, "shots": shots})
        return {"q": q, "items": items, "noise": noise, "form": rng.choice(["list", "list", "tuple", "iter"])}

    def build_circ(st):
        return build_circuit(st["q"], st["gates"], st.get("compiled", False))

    def build_item(memo, it):
        if "bad" in it:
            # malformed input: a parametric state where a circuit / a bound state is expected
            return (build_pstate(it["bad"]), it["shots"])
        if fam == "simulator.state_sampler":
            return (_built(memo, "state", it["state"], build_state), it["shots"])
        return (_built(memo, "circuit", it["state"], build_circ), it["shots"])

    def call(b, ex, c, memo=None):
        memo = _call_memo(b, memo)
        smp = _memo(memo, "callable", lambda: factory(ex, c, b["noise"]))
        arg = _seq([build_item(memo, it) for it in b["items"]], b.get("form", "list"))
        return canon_counts(smp(arg))

    def expected(b):
        return [((state_bits(it["state"]), (it["shots"], 0)),) if "state" in it else ("malformed input accepted",)
                for it in b["items"]]

    def single(b):
        import quri_parts.qulacs.sampler as S
        import quri_parts.qulacs.simulator as M

        nm = b["noise"]
        if fam == "sampler.vector":
            refs = {"plain": S.create_qulacs_vector_sampler(), "ideal": S.create_qulacs_vector_ideal_sampler()}
        elif fam == "sampler.dm":
            refs = {"plain": S.create_qulacs_density_matrix_sampler(_noise_model(nm)),
                    "ideal": S.create_qulacs_density_matrix_ideal_sampler(_noise_model(nm))}
        elif fam == "sampler.stochastic":
            refs = {"plain": S.create_qulacs_stochastic_state_vector_sampler(_noise_model(nm))}
        elif fam == "sampler.noisesim":
            refs = {"plain": S.create_qulacs_noisesimulator_sampler(_noise_model(nm))}
        else:
            refs = {"plain": M.create_qulacs_vector_state_sampler(), "ideal": M.create_qulacs_ideal_vector_state_sampler()}
        if any("bad" in it for it in b["items"]):
            return {}
        return {k: canon_counts([f(*build_item(None, it)) for it in b["items"]]) for k, f in refs.items()}

    return EP(fam, gen, call, expected, variants={"simulator.state_sampler": 3, "sampler.vector": 2}.get(fam, 1), single=single)


def _mk_overlap_ep(parametric):
    def gen(rng, n, variant=0):
        q = rng.randint(1, 3)
        form = rng.choice(["list", "list", "tuple"])
        if parametric:
            ps1, ps2 = gen_pstate(rng, q, compiled=False), gen_pstate(rng, q, compiled=False)
            return {"q": q, "ket": ps1, "bra": ps2, "kparams": gen_params(rng, ps1["nparams"], n),
                    "bparams": gen_params(rng, ps2["nparams"], n), "weights": [2**i for i in range(n)], "form": form}
        qs, _ = hetero_qs(rng, q, n, hi=3)  # every pair has one width; the pairs of a batch may differ
        kb = [rng.randrange(2**qi) for qi in qs]
        bb = [k if rng.random() < 0.5 else rng.randrange(2**qi) for k, qi in zip(kb, qs)]
        return {"q": q, "kets": [gen_state(rng, qi, x, compiled_ok=False) for x, qi in zip(kb, qs)],
                "bras": [gen_state(rng, qi, x, compiled_ok=False) for x, qi in zip(bb, qs)], "weights": [2**i for i in range(n)], "form": form}

    def call(b, ex, c, memo=None):
        import quri_parts.qulacs.overlap_estimator as O

        memo = _call_memo(b, memo)
        form = b.get("form", "list")

        def mk():
            est = O.create_qulacs_vector_overlap_weighted_sum_estimator(*_fargs(ex, c))
            return O.create_qulacs_vector_parametric_overlap_weighted_sum_estimator(est) if parametric else est

        est = _memo(memo, "callable", mk)
        w = _seq(b["weights"], form)
        if parametric:
            r = est((_built(memo, "pstate", b["ket"], build_pstate), _seq([[k * PI for k in p] for p in b["kparams"]], form)),
                    (_built(memo, "pstate", b["bra"], build_pstate), _seq([[k * PI for k in p] for p in b["bparams"]], form)), w)
        else:
            r = est(_seq([_built(memo, "state", s, build_state) for s in b["kets"]], form),
                    _seq([_built(memo, "state", s, build_state) for s in b["bras"]], form), w)
        return [canon_value(r.value)]

    def pairs(b):
        if parametric:
            return [(pstate_bits(b["ket"], p), pstate_bits(b["bra"], r)) for p, r in zip(b["kparams"], b["bparams"])]
        return [(state_bits(k), state_bits(r)) for k, r in zip(b["kets"], b["bras"])]

    def per_input(b):
        return [(1 if k == r else 0, 0) for k, r in pairs(b)]

    def combine(b, results):
        # zip(overlap_estimates, weights): results are paired positionally with the weights
        return [(sum(w * r[0] for r, w in zip(results, b["weights"])), 0)]

    def expected(b):
        return combine(b, per_input(b))

    def single(b):
        import quri_parts.qulacs.overlap_estimator as O

        est = O.create_qulacs_vector_overlap_estimator()
        if parametric:
            k, r = build_pstate(b["ket"]), build_pstate(b["bra"])
            prs = [(k.bind_parameters([x * PI for x in p]), r.bind_parameters([x * PI for x in s]))
                   for p, s in zip(b["kparams"], b["bparams"])]
        else:
            prs = [(build_state(k), build_state(r)) for k, r in zip(b["kets"], b["bras"])]
        return {"plain": [canon_value(est(k, r).value) for k, r in prs]}

    return EP("overlap.parametric_weighted_sum" if parametric else "overlap.weighted_sum", gen, call, expected,
              per_input=per_input, combine=combine, single=single)


def all_eps():
    eps = []
    for fam in ("qulacs.vector", "qulacs.dm", "qulacs.general_vector", "qulacs.general_dm", "stim"):
        for shape in ("ops-state", "op-states", "paired"):
            if fam.startswith("qulacs.general") and shape == "paired":
                pass
            eps.append(_mk_est_ep(fam, shape))
    for fam in ("qulacs.vector.parametric", "qulacs.dm.parametric", "qulacs.general_vector.parametric",
                "qulacs.general_dm.parametric"):
        eps.append(_mk_param_ep(fam))
    for fam in ("sampler.vector", "sampler.dm", "sampler.stochastic", "sampler.noisesim", "simulator.state_sampler"):
        eps.append(_mk_sampler_ep(fam))
    eps.append(_mk_overlap_ep(False))
    eps.append(_mk_overlap_ep(True))
    return {e.name: e for e in eps}


def batch_len(ep, b):
    for k in ("params", "items", "weights"):
        if k in b:
            return len(b[k])
    return max(len(b["ops"]), len(b["states"]))


def reset_caches():
    """cold conversion caches, as in a fresh process (the module-level dicts outlive every call)"""
    import quri_parts.qulacs.operator as QO
    import quri_parts.stim.operator as SO

    QO._operator_cache.clear()
    SO._operator_cache.clear()


def run_ep(ep, b, exspec, c, rng=None, cold=False):
    """-> ('ok', canonical list) | ('err', exception class name)"""
    ex = make_executor(exspec, rng)
    if cold:
        reset_caches()
    try:
        return ("ok", ep.call(b, ex, c)), ex
    except InfraError:
        raise
    except Exception as e:  # noqa: BLE001 — the real code's behaviour is an output
        return ("err", type(e).__name__), ex


# ---------------------------------------------------------------------------
# shippability oracle (what a process pool has to pickle)
# ---------------------------------------------------------------------------
def shippability(ep, b, c):
    """(True, None) or (False, finding-key): pickle round trip of every (fn, common, chunk) the entry point submits"""
    rec = InlineExecutor("fwd")
    try:
        ep.call(b, rec, max(c, 1))
    except Exception:  # noqa: BLE001
        pass
    for fn, calls in rec.submitted:
        for args in calls:
            try:
                pickle.loads(pickle.dumps((fn,) + tuple(args)))
            except Exception as e:  # noqa: BLE001
                msg = str(e)
                m = re.search(r"local object '([^']+)'", msg)
                if m and m.group(1).endswith(".param_mapper"):
                    # an input, not the worker: the closure a compiled parametric circuit keeps as its parameter mapper
                    return False, "procpool.unpicklable-input:compiled-parametric-circuit-param-mapper"
                if m:
                    return False, f"procpool.unpicklable-worker:{m.group(1)}"
                if "_QulacsCircuit" in msg:
                    return False, "procpool.unpicklable-input:_QulacsCircuit"
                if "mappingproxy" in msg:
                    return False, "procpool.unpicklable-input:linear-mapped-parametric-circuit"
                return False, f"procpool.unpicklable:{type(e).__name__}"
    return True, None


# ---------------------------------------------------------------------------
# K1 chunking
# ---------------------------------------------------------------------------
def _tag_worker(common, xs):
    return [(common, x) for x in xs]


def _tag_worker_gen(common, xs):
    """documented worker type: returns any Iterable"""
    return ((common, x) for x in xs)


def _tag_worker_tuple(common, xs):
    return tuple((common, x) for x in xs)


_tag_worker_list = _tag_worker


def k1_defaults(ctx: Ctx):
    """executor / concurrency left out: sequential; executor only: one chunk holding everything (default concurrency 1)"""
    from quri_parts.core.utils.concurrent import execute_concurrently

    for n in (0, 1, 2, 7):
        xs = list(range(n))
        want = [("K", x) for x in xs]
        rec = InlineExecutor("fwd")
        outs = {}
        for form, thunk in (("fn, common, inputs", lambda: execute_concurrently(_tag_worker, "K", xs)),
                            ("fn, common, inputs, executor", lambda: execute_concurrently(_tag_worker, "K", xs, rec)),
                            ("keywords", lambda: execute_concurrently(fn=_tag_worker, common_input="K", individual_inputs=xs,
                                                                      executor=InlineExecutor("rev"), concurrency=3))):
            try:
                outs[form] = list(thunk())
            except Exception as e:  # noqa: BLE001
                outs[form] = "raises:" + type(e).__name__
        chunks = [list(a[1]) for a in rec.submitted[0][1]] if rec.submitted else None
        ctx.case(("chunk-defaults", n), sample={"n": n, "chunks": str(chunks)})
        ctx.traces += 1
        if any(v != want for v in outs.values()):
            ctx.witness("execute_concurrently:defaults", "execute_concurrently with its optional arguments left out / given by keyword",
                        {"n": n, "worker": "lambda k, xs: [(k, x) for x in xs]"},
                        {"results": {k: str(v)[:200] for k, v in outs.items()}, "expected": str(want)[:200]})
        elif chunks != [xs]:
            ctx.disagree("default-concurrency", {"n": n, "call": "execute_concurrently(fn, common, inputs, executor)"},
                         str(chunks)[:200], str([xs])[:200])


def k1_chunking(ctx: Ctx, extra=()):
    from quri_parts.core.utils.concurrent import execute_concurrently

    rng = ctx.rng
    N, C = ctx.n(64, 128), ctx.n(20, 40)
    grid = [(n, c) for n in range(N + 1) for c in range(-2, C + 1)]
    for _ in range(ctx.n(60, 600)):
        grid.append((rng.randint(N, 4000), rng.choice([1, 2, 3, 7, 16, 64, 127, rng.randint(1, 400)])))
    grid = list(extra) + grid
    reqs = [f"c11chunks {n} {c}" for n, c in grid]
    resp = ctx.driver(reqs, entry=DRIVER)
    for (n, c), r in zip(grid, resp):
        if r == "bad-request":
            raise InfraError(f"driver rejected c11chunks {n} {c}")
        rec = InlineExecutor(("fwd", "rev", "lazy")[(n + 2 * c) % 3])
        xs = list(range(n))
        _tag_worker = (_tag_worker_list, _tag_worker_gen, _tag_worker_tuple)[(2 * n + c) % 3]
        try:
            out = execute_concurrently(_tag_worker, "K", iter(xs), rec, c)
            real_chunks = [list(a[1]) for a in rec.submitted[0][1]]
            commons = [a[0] for a in rec.submitted[0][1]]
            real = f"k={len(real_chunks)} chunks={';'.join(','.join(map(str, ch)) for ch in real_chunks)} " \
                   f"out={','.join(str(x) for _, x in out)}"
            if any(cm != "K" for cm in commons) or any(k != "K" for k, _ in out):
                real += " common-corrupted"
        except Exception as e:  # noqa: BLE001
            real, out, real_chunks = "raises:" + type(e).__name__, None, None
        ctx.case(("chunk", n, c), nontrivial=(c >= 2 and n >= 1), sample={"n": n, "c": c, "model": r[:120]})
        ctx.traces += 1
        ctx.count("chunking", "c<=0" if c <= 0 else ("n<c" if n < c else ("c|n" if n % c == 0 else "c∤n")))
        if real != r:
            ctx.disagree("execute_concurrently-chunking", {"n": n, "c": c}, real[:400], r[:400])
        # property on the real code against the independent oracle
        try:
            # the inputs are documented as any Iterable: list / tuple / range / one-shot iterator
            seq = list(execute_concurrently(_tag_worker, "K", (xs, tuple(xs), range(n), iter(xs))[(n + c) % 4], None, c))
        except Exception as e:  # noqa: BLE001
            seq = "raises:" + type(e).__name__
        conc = list(out) if out is not None else real
        if conc != seq:
            if c <= 0 and out == [] and n > 0:
                ctx.count("finding", K_NONPOS)
                continue
            seen = ctx.extra.setdefault("witness_keys", {})
            seen["execute_concurrently:result"] = seen.get("execute_concurrently:result", 0) + 1
            if seen["execute_concurrently:result"] <= 3:
                ctx.witness("execute_concurrently:result", "execute_concurrently with an executor differs from the sequential call",
                            {"n": n, "concurrency": c, "worker": "lambda k, xs: [(k, x) for x in xs]"},
                            {"concurrent": str(conc)[:300], "sequential": str(seq)[:300]})
        elif c >= 1 and out is not None:
            want = c11ref.chunks(xs, c)
            seen = ctx.extra.setdefault("witness_keys", {})
            if real_chunks != want:
                seen["execute_concurrently:chunks"] = seen.get("execute_concurrently:chunks", 0) + 1
            if real_chunks != want and seen["execute_concurrently:chunks"] <= 3:
                ctx.witness("execute_concurrently:chunks", "chunks are not the contiguous balanced partition",
                            {"n": n, "concurrency": c}, {"real": str(real_chunks)[:300], "oracle": str(want)[:300]})


# ---------------------------------------------------------------------------
# K2 entry points
# ---------------------------------------------------------------------------
def predict(ctx, items):
    """items: [(exkind, c, shippable, n)] -> model outcome ('ok', [indices]) | ('raises',)"""
    reqs = [f"c11with {k} {c} {1 if sh else 0} {n}" for k, c, sh, n in items]
    out = []
    for r in ctx.driver(reqs, entry=DRIVER):
        if r == "raises":
            out.append(("raises",))
        elif r.startswith("ok:"):
            out.append(("ok", [int(x) for x in r[3:].split(",") if x]))
        else:
            raise InfraError(f"driver: {r}")
    return out


def classify_and_report(ctx, ep, b, exspec, c, seq, conc, ship_key, n, extra=None, cold=False, c_in=None):
    """the property on the real code: concurrent outcome == sequential outcome"""
    if conc == seq:
        return None
    inp = {"entry_point": ep.name, "batch": b, "executor": exspec, "concurrency": c if c_in is None else c_in, "cold_cache": cold}
    detail = {"sequential": str(seq)[:400], "concurrent": str(conc)[:400]}
    if extra:
        detail.update(extra)
    if c <= 0 and exspec != "none" and seq[0] == "ok" and conc[0] == "ok" and n > 0 and \
            conc[1] == (ep.combine(b, []) if ep.combine else []):
        key = K_NONPOS
        what = "with an executor and concurrency <= 0 every input is dropped (empty result, no exception)"
    elif exspec.startswith("procs") and conc[0] == "err" and ship_key:
        key = ship_key
        what = "a ProcessPoolExecutor cannot be used: the submitted worker/input does not survive pickling"
    else:
        key = f"mismatch:{ep.name}"
        what = "concurrent result differs from the sequential result"
    seen = ctx.extra.setdefault("witness_keys", {})
    seen[key] = seen.get(key, 0) + 1
    if seen[key] <= 3:  # three concrete inputs per key are kept; the rest is counted only
        ctx.witness(key, f"{ep.name}: {what}", inp, detail)
    return key


def judge_single(ctx, ep, b, exspec, c, seq, conc, kind="thread"):
    """every result of the batch equals what the plain (one input per call) entry point of the same family returns
    for that input; a batch call that raises although every per-input call returns a value is a failing input too"""
    try:
        refs = ep.single(b)
    except InfraError:
        raise
    except Exception as e:  # noqa: BLE001
        if seq[0] != "ok":
            return  # the per-input evaluation raises as well (malformed input): nothing to compare
        # e.g. a renamed plain entry point: a correspondence difference
        ctx.disagree("plain-entry-point", {"entry_point": ep.name, "batch": b}, f"raises {type(e).__name__}: {e}"[:300],
                     "one result per input")
        return
    try:
        want = ep.per_input(b) if ep.per_input else ep.expected(b)
    except Exception:  # noqa: BLE001 — no oracle value for a malformed batch
        return
    if seq[0] != "ok" or (conc[0] != "ok" and kind == "thread" and c >= 1):
        # the batch raises: a witness when every per-input call of every plain reference returns the oracle value
        n = batch_len(ep, b)
        if refs and all(v == want for v in refs.values()) and len(want) == n:
            label, res, spec = ("sequential path", seq, "none") if seq[0] != "ok" else ("concurrent path", conc, exspec)
            key = f"batch-raises:{ep.name}"
            seen = ctx.extra.setdefault("witness_keys", {})
            seen[key] = seen.get(key, 0) + 1
            if seen[key] <= 3:
                ctx.witness(key, f"{ep.name}: the {label} of the batch entry point raises {res[1]} although the plain entry point, "
                                 "called on each input alone, returns a value for every input",
                            {"entry_point": ep.name, "batch": b, "executor": spec, "concurrency": c},
                            {"batch_call": str(res), "per_input_plain_calls": str(next(iter(refs.values())))[:400]})
        if seq[0] != "ok":
            return
    for rname, vals in refs.items():
        ctx.count("plain_reference", f"{ep.name}/{rname}")
        ctx.traces += 1
        if vals != want:
            ctx.disagree("plain-entry-point-vs-oracle", {"entry_point": ep.name, "reference": rname, "batch": b},
                         str(vals)[:300], str(want)[:300])
        if ep.combine:
            continue  # the batch result is a weighted sum: judged through `combine` of the oracle values
        for label, res, spec in (("sequential path", seq, "none"), ("concurrent path", conc, exspec)):
            if res[0] != "ok" or res[1] == vals or (c <= 0 and spec != "none"):
                continue
            key = f"batch-vs-plain:{ep.name}"
            seen = ctx.extra.setdefault("witness_keys", {})
            seen[key] = seen.get(key, 0) + 1
            if seen[key] <= 3:
                bad = [i for i, (x, y) in enumerate(zip(res[1], vals)) if x != y] or ["length"]
                ctx.witness(key, f"{ep.name}: the {label} of the batch entry point returns for input {bad[0]} something else "
                                 f"than the plain ({rname}) entry point called on that input alone",
                            {"entry_point": ep.name, "batch": b, "executor": spec, "concurrency": c},
                            {"batch_result": str(res[1])[:400], "per_input_plain_calls": str(vals)[:400]})
            break


def k2_cases(ctx: Ctx, eps, plan):
    """plan: [(ep name, batch, exspec, c)]"""
    rows = []
    colds = []
    for item in plan:
        name, b, exspec, c_in = item[:4]
        colds.append(item[4] if len(item) > 4 else None)
        ep = eps[name]
        n = batch_len(ep, b)
        kind = executor_kind(exspec)
        ship, ship_key = (True, None)
        c = 1 if c_in in ("default", None) else c_in  # the documented default of every create_* function
        if kind == "process":
            ship, ship_key = shippability(ep, b, c)
        rows.append((ep, b, exspec, c, n, kind, ship, ship_key, c_in))
    preds = predict(ctx, [(r[5], r[3], r[6], r[4]) for r in rows])
    for (ep, b, exspec, c, n, kind, ship, ship_key, c_in), pred, cold in zip(rows, preds, colds):
        c_call = None if c_in in ("default", None) else c
        (seq, _) = run_ep(ep, b, "none", c_call)
        if cold is None:
            cold = ctx.rng.random() < 0.7
        (conc, ex) = run_ep(ep, b, exspec, c_call, ctx.rng, cold=cold)
        ctx.count("cache", "cold" if cold else "warm")
        ctx.count("concurrency_argument", "left out (default)" if c_call is None else "given")
        ctx.case((ep.name, json.dumps(b, sort_keys=True, default=str), exspec, c_in), nontrivial=(n >= 2 and c >= 2),
                 sample={"entry_point": ep.name, "n": n, "concurrency": c_in, "executor": exspec, "sequential": str(seq)[:160]})
        if c_call is None and isinstance(ex, InlineExecutor) and ex.submitted and len(ex.submitted[-1][1]) != 1:
            # not a violation of the property by itself (the results are judged below): the model's chunking for the
            # default concurrency 1 is one chunk
            ctx.disagree("default-concurrency", {"entry_point": ep.name, "batch": b, "executor": exspec, "concurrency": "default"},
                         f"{len(ex.submitted[-1][1])} chunks submitted", "1 chunk (concurrency defaults to 1)")
        # (1) oracle validation of the sequential path
        if seq[0] == "ok":
            want = ep.expected(b)
            if seq[1] != want:
                ctx.disagree("sequential-vs-oracle", {"entry_point": ep.name, "batch": b}, str(seq[1])[:300], str(want)[:300])
            if not ep.combine and len(seq[1]) != n:
                ctx.witness(f"result-count:{ep.name}", f"{ep.name}: {len(seq[1])} results for {n} inputs (sequential path)",
                            {"entry_point": ep.name, "batch": b, "executor": "none", "concurrency": c}, {"sequential": str(seq)[:300]})
        if conc[0] == "ok" and not ep.combine and c >= 1 and len(conc[1]) != n and seq[0] == "ok":
            ctx.witness(f"result-count:{ep.name}", f"{ep.name}: {len(conc[1])} results for {n} inputs",
                        {"entry_point": ep.name, "batch": b, "executor": exspec, "concurrency": c}, {"concurrent": str(conc)[:300]})
        if seq[0] != "ok":
            ctx.count("sequential_raises", seq[1])
        # (1b) the plain non-concurrent public entry points, one call per input, against the batch and the oracle
        if ep.single and (seq[0] == "ok" or (n >= 1 and not b.get("malformed"))):
            judge_single(ctx, ep, b, exspec, c, seq, conc, kind)
        # (2) model prediction of the concurrent outcome
        if seq[0] == "err":
            model = seq  # argument validation precedes execute_concurrently
        elif pred[0] == "raises":
            model = ("err", "*")
        else:
            per = ep.per_input(b) if ep.per_input else seq[1]
            sel = [per[i] if i < len(per) else ("missing",) for i in pred[1]]
            model = ("ok", ep.combine(b, sel) if ep.combine else sel)
        agree = (conc == model) or (model == ("err", "*") and conc[0] == "err")
        if not agree:
            ctx.disagree("entry-point-vs-model", {"entry_point": ep.name, "batch": b, "executor": exspec, "concurrency": c},
                         str(conc)[:300], str(model)[:300])
        # (3) the property itself on the real code
        classify_and_report(ctx, ep, b, exspec, c, seq, conc, ship_key, n, cold=cold, c_in=c_in)


def k2_plan(ctx: Ctx, eps):
    rng = ctx.rng
    plan = []
    names = list(eps)
    reps = ctx.n(1, 6)
    for name in names:
        ep = eps[name]
        for rep in range(reps):
            # batch sizes: 0, 1, fewer than, equal, not divisible
            for n, c in ((0, 2), (1, 3), (2, 5), (4, 2), (5, 3), (7, 4), (rng.randint(2, 9), rng.randint(1, 6))):
                if n < ep.min_n and rep and rng.random() < 0.5:
                    continue  # (the first repetition always has the empty batch: documented ValueError branches)
                b = ep.gen(rng, n)
                ex = rng.choice(["inline:fwd", "inline:rev", "inline:shuffle", "inline:lazy", f"sched:{rng.randrange(10**6)}:{rng.choice([1.0, 0.5, 0.2, 0.05])}"])
                plan.append((name, b, ex, c))
        # real pools, nonpositive concurrency, malformed
        b = ep.gen(rng, rng.randint(3, 8))
        plan.append((name, b, f"threads:{rng.choice([1, 2, 4])}", rng.randint(2, 5)))
        b = ep.gen(rng, rng.randint(2, 6))
        if "pstate" in b and b["pstate"]["compiled"] == "forced":
            b["pstate"]["compiled"] = False  # the forced hand-through object is a harness construction
        plan.append((name, b, "procs:2", rng.randint(2, 3)))
        plan.append((name, ep.gen(rng, 3), "inline:fwd", rng.choice([0, -1])))
        # the concurrency argument left out: one chunk with everything
        plan.append((name, ep.gen(rng, rng.randint(2, 6)), rng.choice(["inline:fwd", "inline:lazy", "threads:2"]), "default"))
    # sizes far above the concurrency, concurrency far above the usual
    for name in ("qulacs.vector:paired", "qulacs.dm:ops-state", "stim:op-states", "qulacs.vector.parametric", "qulacs.dm.parametric",
                 "sampler.vector", "sampler.noisesim", "simulator.state_sampler", "overlap.weighted_sum"):
        n = rng.randint(17, 45)
        plan.append((name, eps[name].gen(rng, n), rng.choice(["inline:shuffle", "threads:4", f"sched:{rng.randrange(10**6)}:0.05"]),
                     rng.choice([7, 8, 11, 16, n - 1, n, n + 1, 64])))
    # malformed: operator / state count mismatch, weight count mismatch
    for fam in ("qulacs.vector", "qulacs.dm", "stim"):
        ep = eps[f"{fam}:paired"]
        b = ep.gen(rng, 4)
        b["ops"] = b["ops"][:3]
        b["malformed"] = True
        plan.append((ep.name, b, "inline:fwd", 2))
    b = eps["overlap.weighted_sum"].gen(rng, 4)
    b["weights"] = b["weights"][:3]
    b["malformed"] = True
    plan.append(("overlap.weighted_sum", b, "inline:rev", 2))
    # malformed: one operator of the batch acts on a qubit the states do not have (the worker raises inside one chunk)
    for fam in ("qulacs.vector", "qulacs.dm", "qulacs.general_vector", "stim"):
        for shape in ("paired", "ops-state"):
            ep = eps[f"{fam}:{shape}"]
            b = ep.gen(rng, 5)
            b["ops"][rng.randrange(5)] = {"terms": [(3, [(b.get("qmax", b["q"]) + 1, 3)]), (1, [(0, 3)])]}
            plan.append((ep.name, b, rng.choice(["inline:fwd", "inline:shuffle", f"sched:{rng.randrange(10**6)}:0.5", "threads:2"]), rng.randint(2, 4)))
    # malformed: one input of the batch is not a circuit / bound state (worker raises inside one chunk; the same
    # exception must surface on the concurrent path, never a shortened result)
    for name in ("simulator.state_sampler", "sampler.vector", "sampler.dm", "sampler.noisesim"):
        b = eps[name].gen(rng, 5)
        k = rng.randrange(5)
        b["items"][k] = {"bad": gen_pstate(rng, b["q"], compiled=False), "shots": 4}
        plan.append((name, b, rng.choice(["inline:fwd", "inline:rev", f"sched:{rng.randrange(10**6)}:0.5", "threads:2"]), rng.randint(2, 4)))
    return plan


# ---------------------------------------------------------------------------
# K3 worker homomorphism
# ---------------------------------------------------------------------------
def _canon_any(rs):
    out = []
    for r in rs:
        if hasattr(r, "value"):
            out.append(canon_value(r.value))
        else:
            out.append(tuple(sorted((int(k), canon_value(v)) for k, v in dict(r).items() if v != 0)))
    return out


def k3_homomorphism(ctx: Ctx, eps):
    rng = ctx.rng
    for name, ep in eps.items():
        for _ in range(ctx.n(1, 5)):
            n = rng.randint(2, 7)
            b = ep.gen(rng, n)
            rec = InlineExecutor("fwd")
            try:
                ep.call(b, rec, 1)
            except Exception:  # noqa: BLE001
                continue
            if not rec.submitted or not rec.submitted[0][1]:
                continue
            fn, calls = rec.submitted[0]
            common, xs = calls[0]
            xs = list(xs)
            k = rng.randint(0, len(xs))
            try:
                whole = _canon_any(fn(common, xs))
                parts = _canon_any(fn(common, xs[:k])) + _canon_any(fn(common, xs[k:]))
                empty = _canon_any(fn(common, []))
            except Exception as e:  # noqa: BLE001
                whole, parts, empty = ("raises", type(e).__name__), None, []
            ctx.case(("hom", name, json.dumps(b, sort_keys=True, default=str), k), sample=None)
            ctx.traces += 1
            ctx.count("worker_hom", getattr(fn, "__qualname__", str(fn)))
            if whole != parts or empty != []:
                ctx.disagree("worker-homomorphism", {"entry_point": name, "worker": getattr(fn, "__qualname__", "?"), "batch": b, "split": k},
                             f"fn(a++b)={whole}", f"fn(a)++fn(b)={parts}, fn([])={empty}")


# ---------------------------------------------------------------------------
# K4 footprint audit
# ---------------------------------------------------------------------------
class Audit:
    """wraps the backend mutators / readers and the conversion caches; records per-task statement traces"""

    def __init__(self):
        self.task = None
        self.events = []  # (task, kind, payload...)
        self.keep = []  # keeps every object alive so that id() stays unique
        self._undo = []

    # -- recording -----------------------------------------------------------
    def ev(self, kind, *objs, **kw):
        self.keep.extend(objs)
        self.events.append((self.task, kind, tuple(id(o) for o in objs), kw))

    def _patch_method(self, cls, name, reads, writes, post=None):
        owner = None
        for k in cls.__mro__:
            if name in k.__dict__:
                owner = k
                break
        if owner is None:
            return
        if any(u[0] is owner and u[1] == name for u in self._undo):
            return
        orig = owner.__dict__[name]
        audit = self

        def wrapper(*a, **kw):
            r = orig(*a, **kw)
            audit.ev(name, *[a[i] for i in sorted(set(reads + writes)) if i < len(a)],
                     reads=[id(a[i]) for i in reads if i < len(a)], writes=[id(a[i]) for i in writes if i < len(a)],
                     content=(post(a[0]) if post else None))
            return r

        setattr(owner, name, wrapper)
        self._undo.append((owner, name, orig))

    def __enter__(self):
        import qulacs

        import quri_parts.qulacs.operator as QO
        import quri_parts.qulacs.overlap_estimator as OV
        import quri_parts.stim.operator as SO

        P = self._patch_method
        for cls in (qulacs.QuantumState, qulacs.DensityMatrix):
            P(cls, "load", [], [0])
            P(cls, "set_computational_basis", [], [0])
            P(cls, "set_zero_state", [], [0])
            P(cls, "sampling", [0], [])
            P(cls, "get_vector", [0], [])
            P(cls, "get_matrix", [0], [])
        for cls in (qulacs.QuantumCircuit, qulacs.ParametricQuantumCircuit):
            P(cls, "update_quantum_state", [0, 1], [1])
            P(cls, "copy", [0], [])
            P(cls, "add_gate", [0], [0])
        P(qulacs.ParametricQuantumCircuit, "set_parameter", [0], [0])
        P(qulacs.GeneralQuantumOperator, "add_operator", [0], [0], post=qulacs_op_content)
        P(qulacs.GeneralQuantumOperator, "get_expectation_value", [0, 1], [])
        P(qulacs.NoiseSimulator, "execute", [0], [0])
        # constructor of the operator objects that end up in the cache
        audit = self
        real_gqo = QO.GeneralQuantumOperator

        def gqo_factory(*a, **kw):
            o = real_gqo(*a, **kw)
            audit.ev("new_operator", o, reads=[], writes=[id(o)], content=qulacs_op_content(o))
            return o

        QO.GeneralQuantumOperator = gqo_factory
        self._undo.append((QO, "GeneralQuantumOperator", real_gqo))
        real_ip = OV.inner_product

        def ip(a, b):
            audit.ev("inner_product", a, b, reads=[id(a), id(b)], writes=[], content=None)
            return real_ip(a, b)

        OV.inner_product = ip
        self._undo.append((OV, "inner_product", real_ip))
        # caches
        for mod, content, expect in ((QO, qulacs_op_content, qulacs_key_content), (SO, stim_op_content, stim_key_content)):
            real = mod._operator_cache
            mod._operator_cache = RecDict(self, mod.__name__, content, expect)
            self._undo.append((mod, "_operator_cache", real))
        return self

    def __exit__(self, *a):
        for owner, name, orig in reversed(self._undo):
            setattr(owner, name, orig)
        self._undo = []


class RecDict(dict):
    def __init__(self, audit, modname, content, expect):
        super().__init__()
        self.audit, self.modname, self.content, self.expect = audit, modname, content, expect

    def __contains__(self, k):
        r = dict.__contains__(self, k)
        self.audit.ev("cache_contains", reads=[], writes=[], key=(self.modname, k), hit=r)
        return r

    def __getitem__(self, k):
        v = dict.__getitem__(self, k)
        self.audit.ev("cache_get", v, reads=[], writes=[], key=(self.modname, k), content=self.content(v), expect=self.expect(k))
        return v

    def __setitem__(self, k, v):
        self.audit.ev("cache_set", v, reads=[id(v)], writes=[], key=(self.modname, k), content=self.content(v), expect=self.expect(k),
                      recheck=(lambda v=v, f=self.content: f(v)))
        dict.__setitem__(self, k, v)


def _parse_pauli_string(s):
    toks = s.split()
    return c11ref.pauli_canon([(int(toks[i + 1]), {"I": 0, "X": 1, "Y": 2, "Z": 3}[toks[i].upper()]) for i in range(0, len(toks), 2)])


def qulacs_op_content(o):
    terms = []
    for i in range(o.get_term_count()):
        t = o.get_term(i)
        cf = complex(t.get_coef())
        terms.append((_parse_pauli_string(t.get_pauli_string()), cf.real, cf.imag))
    return ("qulacs", int(o.get_qubit_count()), tuple(sorted(terms)))


def qulacs_key_content(key):
    """what the key says the cached operator must be — computed from the key alone"""
    opkey, n = key
    terms = []
    for lab, coef in opkey:
        cf = complex(coef)
        terms.append((c11ref.pauli_canon([(q, int(p)) for q, p in lab]), cf.real, cf.imag))
    return ("qulacs", int(n), tuple(sorted(terms)))


def stim_op_content(v):
    terms = []
    for ps, coef in v:
        s = str(ps)
        sign = -1 if s.startswith("-") else 1
        body = s.lstrip("+-")
        cf = complex(coef) * sign
        terms.append((c11ref.pauli_canon([(i, "_XYZ".index(ch)) for i, ch in enumerate(body)]), cf.real, cf.imag))
    return ("stim", tuple(sorted(terms)))


def stim_key_content(key):
    opkey, _n = key
    terms = []
    for lab, coef in opkey:
        cf = complex(coef)
        terms.append((c11ref.pauli_canon([(q, int(p)) for q, p in lab]), cf.real, cf.imag))
    return ("stim", tuple(sorted(terms)))


def audit_to_model(audit: Audit):
    """recorded events -> (build table, tasks as Instr strings, python-side diagnostics)"""
    tasks = sorted({e[0] for e in audit.events if e[0] is not None})
    tix = {t: i for i, t in enumerate(tasks)}
    owner, published = {}, set()  # owner: the task that first writes or publishes the object ("main" outside tasks)
    for t, kind, objs, kw in audit.events:
        for o in kw.get("writes", []):
            owner.setdefault(o, "main" if t is None else t)
        if kind == "cache_set":
            owner.setdefault(objs[0], "main" if t is None else t)
        if kind in ("cache_set", "cache_get"):
            published.add(objs[0])

    def aliased(t, o):
        """task t holds o only through the cache: the model hands out a private copy"""
        return o in published and owner.get(o, "main") != t

    cells, contents, keys = {}, {}, {}

    def cell(t, o):
        k = ("alias", t, o) if aliased(t, o) else ("obj", o)
        return cells.setdefault(k, len(cells) + 1)

    def cid(c):
        return contents.setdefault(c, len(contents) + 1)

    def kid(k):
        return keys.setdefault(k, len(keys) + 1)

    progs = {i: [] for i in range(len(tasks))}
    build = {}
    diag = []
    pub_at = {}  # object -> event index of first publication
    written = set()
    for t, kind, objs, kw in audit.events:
        if kind == "cache_set" and kw["recheck"]() != kw["content"]:
            diag.append(f"value stored in the cache under {kw['key'][1]} was changed after it was stored: {kw['content']} -> {kw['recheck']()}")
    for idx, (t, kind, objs, kw) in enumerate(audit.events):
        prev_written = set(written)
        written.update(kw.get("writes", []))
        for o in kw.get("writes", []):
            if o in pub_at:
                diag.append(f"object published in the cache at event {pub_at[o]} is written again by task {t} ({kind})")
        if kind == "cache_set":
            pub_at.setdefault(objs[0], idx)
            if kw["content"] != kw["expect"]:
                diag.append(f"cache entry written with a value that is not the value of its key: {kw['content']} vs {kw['expect']}")
        if kind == "cache_get" and kw["content"] != kw["expect"]:
            diag.append(f"cache hit returns a value that is not the value of its key: {kw['content']} vs {kw['expect']}")
        if t is None:
            continue
        p = progs[tix[t]]
        if kind == "cache_contains":
            continue
        if kind == "cache_set":
            k = kid(kw["key"])
            build[k] = cid(kw["expect"])
            if objs[0] not in prev_written:
                # built without any wrapped mutator (e.g. a Python list): its content when stored is all there is
                p.append(f"s:{cell(t, objs[0])}:{cid(kw['content'])}")
            p.append(f"p:{k}:{cell(t, objs[0])}")
        elif kind == "cache_get":
            k = kid(kw["key"])
            build[k] = cid(kw["expect"])
            # the value handed out must be the built one: encode what was actually observed
            if not aliased(t, objs[0]):
                pass  # a task finding its own entry again keeps using its own object
            elif kw["content"] == kw["expect"]:
                p.append(f"l:{cell(t, objs[0])}:{k}")
            else:
                p.append(f"s:{cell(t, objs[0])}:{cid(kw['content'])}")
        elif kw.get("content") is not None and kw.get("writes"):
            p.append(f"s:{cell(t, kw['writes'][0])}:{cid(kw['content'])}")
        elif kw.get("writes"):
            rd = [cell(t, o) for o in kw.get("reads", [])] or [0]
            p.append(f"a:{cell(t, kw['writes'][0])}:{len(kind)}:{rd[0]}:{rd[-1]}")
        else:
            rd = [cell(t, o) for o in kw.get("reads", [])]
            if rd:
                tmp = cells.setdefault(("tmp", idx), len(cells) + 1)
                p.append(f"a:{tmp}:{len(kind)}:{rd[0]}:{rd[-1]}")
                p.append(f"e:{tmp}")
    # python-side privacy diagnostics (the Lean evaluation below is the verdict)
    wr, touch = {}, {}
    for t, kind, objs, kw in audit.events:
        if t is None:
            continue
        for o in kw.get("writes", []):
            wr.setdefault(o, set()).add((t, kind))
        for o in list(kw.get("writes", [])) + list(kw.get("reads", [])):
            if not aliased(t, o):
                touch.setdefault(o, set()).add(t)
    for o, ws in wr.items():
        owners = {t for t, _ in ws}
        others = touch.get(o, set()) - owners
        if len(owners) > 1 or others:
            diag.append(f"backend object written by task(s) {sorted(owners)} via {sorted({k for _, k in ws})} is also used by task(s) {sorted(others | owners)}")
    tbl = ",".join(f"{k}={v}" for k, v in sorted(build.items()))
    body = ";".join(",".join(progs[i]) for i in range(len(tasks)))
    return tbl, body, diag, sum(len(p) for p in progs.values())


def k4_audit(ctx: Ctx, eps):
    """returns the list of (ep, batch, c) whose traces break the discipline"""
    rng = ctx.rng
    bad, reqs, meta = [], [], []
    for name, ep in eps.items():
        for rep in range(2 * ep.variants * ctx.n(1, 3)):
            n, c = rng.randint(2, 7), rng.randint(2, 4)
            b = ep.gen(rng, n, rep // 2)
            aud = Audit()
            with aud:
                def hook(i, aud=aud):
                    aud.task = i
                ex = InlineExecutor(rng.choice(["fwd", "rev", "shuffle"]), rng, hook)
                if rep % 2 == 1:
                    # warm cache: a sequential call first (task None), so that the tasks hit
                    try:
                        ep.call(b, None, c)
                    except Exception:  # noqa: BLE001
                        pass
                try:
                    ep.call(b, ex, c)
                except Exception:  # noqa: BLE001
                    pass
            tbl, body, diag, nstmts = audit_to_model(aud)
            reqs.append(f"c11disc {tbl} | {body}")
            meta.append((name, b, c, diag, nstmts, len(aud.events)))
    resp = ctx.driver(reqs, entry=DRIVER)
    for (name, b, c, diag, nstmts, nev), r in zip(meta, resp):
        if r == "bad-request":
            raise InfraError("driver rejected a recorded trace")
        ctx.case(("audit", name, json.dumps(b, sort_keys=True, default=str), c), nontrivial=nstmts > 0,
                 sample={"audit": name, "statements": nstmts, "model": r})
        ctx.traces += 1
        ctx.count("audit_statements", None, nstmts)
        ctx.count("audit", name)
        if "disciplined=1" not in r or diag:
            ctx.disagree("footprint-discipline", {"entry_point": name, "batch": b, "concurrency": c},
                         "; ".join(diag)[:600] or "trace violates the discipline", r)
            bad.append((name, b, c))
    return bad


# ---------------------------------------------------------------------------
# K5 schedules
# ---------------------------------------------------------------------------
_toy_shared = {"v": 0}


def _toy_racy(common, xs):
    out = []
    for x in xs:
        t = _toy_shared["v"]
        t = t + x
        _toy_shared["v"] = t
        out.append(_toy_shared["v"])
    return out


def scheduler_selftest(ctx: Ctx):
    """the scheduler must (a) find the lost update of a racy toy worker, (b) replay it from (seed, p)"""
    me = os.path.abspath(__file__)
    found = None
    for seed in range(40):
        _toy_shared["v"] = 0
        ex = SchedExecutor(seed, 0.5, prefixes=(me,))
        list(ex.map(_toy_racy, ["c"] * 3, [[1, 2], [4, 8], [16, 32]]))
        if _toy_shared["v"] != 63:
            found = (seed, _toy_shared["v"], ex.points, ex.switches)
            break
    if found is None:
        raise InfraError("scheduler self-test: no interleaving of the racy toy worker lost an update in 40 schedules")
    _toy_shared["v"] = 0
    ex = SchedExecutor(found[0], 0.5, prefixes=(me,))
    list(ex.map(_toy_racy, ["c"] * 3, [[1, 2], [4, 8], [16, 32]]))
    if _toy_shared["v"] != found[1]:
        raise InfraError("scheduler self-test: schedule not reproducible from its seed")
    ctx.extra["scheduler_selftest"] = {"seed": found[0], "lost_update_total": found[1], "yield_points": found[2], "switches": found[3]}


def k5_schedules(ctx: Ctx, eps, budget_s, targets=None):
    """sampled interleavings of every thread-capable entry point; all must equal the sequential result"""
    rng = ctx.rng
    t0 = time.time()
    names = list(eps)
    runs = 0
    pool = []
    if targets:
        pool = [(n, b, c) for n, b, c in targets]
    i = 0
    while time.time() - t0 < budget_s:
        if targets:
            name, b, c = pool[i % len(pool)]
        else:
            name = names[i % len(names)]
            b, c = None, rng.randint(2, 4)
        i += 1
        ep = eps[name]
        if b is None:
            b = ep.gen(rng, rng.randint(c, 3 * c), i // len(names))
        (seq, _) = run_ep(ep, b, "none", c)
        for _ in range(3 if not targets else 12):
            spec = f"sched:{rng.randrange(10**9)}:{rng.choice([1.0, 0.7, 0.4, 0.15])}"
            cold = rng.random() < 0.7
            (conc, ex) = run_ep(ep, b, spec, c, cold=cold)
            runs += 1
            ctx.evaluations += 1
            ctx.count("sched_points", None, ex.points)
            ctx.count("sched_switches", None, ex.switches)
            ctx.count("sched_runs", name)
            if conc != seq:
                classify_and_report(ctx, ep, b, spec, c, seq, conc, None, batch_len(ep, b),
                                    {"yield_points": ex.points, "switches": ex.switches}, cold=cold)
                if targets:
                    return runs
                break
    return runs


def k5_preemptions(ctx: Ctx, eps, budget_s, exhaustive):
    """systematic one-preemption schedules of two tasks: task `first` is preempted at its k-th statement, the other
    task runs to completion, `first` resumes.  exhaustive=True enumerates every k (context bound 1) for every
    input-kind variant of every entry point."""
    rng = ctx.rng
    t0 = time.time()
    names = list(eps)
    rng.shuffle(names)
    total = 0
    for name in names:
        if time.time() - t0 > budget_s:
            ctx.notes.append(f"one-preemption exploration stopped by its time budget before {name}")
            break
        ep = eps[name]
        for variant in (range(ep.variants) if exhaustive else [rng.randrange(ep.variants)]):
            b = ep.gen(rng, rng.randint(2, 5), variant)
            (seq, _) = run_ep(ep, b, "none", 2)
            for first in (0, 1):
                (conc, ex) = run_ep(ep, b, f"preempt:{first}:1", 2, cold=True)
                npts = ex.first_points if isinstance(ex, SchedExecutor) else 0
                ks = list(range(1, npts + 1))
                if not exhaustive and len(ks) > 6:
                    ks = sorted(rng.sample(ks, 6))
                for k in ks:
                    cold = k % 3 != 0
                    spec = f"preempt:{first}:{k}"
                    (conc, ex) = run_ep(ep, b, spec, 2, cold=cold)
                    total += 1
                    ctx.evaluations += 1
                    ctx.count("preempt_runs", name)
                    if conc != seq:
                        classify_and_report(ctx, ep, b, spec, 2, seq, conc, None, batch_len(ep, b),
                                            {"preempted_task": first, "at_statement": k, "of": npts}, cold=cold)
                        break
    return total


# ---------------------------------------------------------------------------
# K6 general samplers of sampler.py (batch entry points; three of them accept executor / concurrency)
# ---------------------------------------------------------------------------
GENERAL_SAMPLERS = ["general_vector", "general_vector_ideal", "general_dm", "general_dm_ideal", "general_noisesim"]


def _general_sampler(name, noise, ex, c):
    import quri_parts.qulacs.sampler as S

    if name == "general_vector":
        return S.create_qulacs_general_vector_sampler()
    if name == "general_vector_ideal":
        return S.create_qulacs_general_vector_ideal_sampler()
    f = {"general_dm": S.create_qulacs_density_matrix_general_sampler,
         "general_dm_ideal": S.create_qulacs_ideal_density_matrix_general_sampler,
         "general_noisesim": S.create_qulacs_noisesimulator_general_sampler}[name]
    if ex is None and c is None:
        return f(_noise_model(noise))
    return f(_noise_model(noise), ex, c)


def gen_gs_batch(rng, name, n):
    q = rng.randint(1, 3)
    noise = rng.choice(NOISES) if name not in ("general_vector", "general_vector_ideal") else None
    big = name != "general_noisesim"
    items = []
    widths, _ = hetero_qs(rng, q, n, hi=3)
    for i in range(n):
        q = widths[i]
        kind = rng.choice(["circuit", "state", "pcircuit", "pstate"])
        shots = 3 + i if not (big and rng.random() < 0.12) else 1500 + i
        if kind == "circuit":
            items.append({"kind": kind, "state": gen_state(rng, q, rng.randrange(2**q), vector_ok=False, noise=noise), "shots": shots})
        elif kind == "state":
            items.append({"kind": kind, "state": gen_state(rng, q, rng.randrange(2**q), noise=noise), "shots": shots})
        else:
            ps = gen_pstate(rng, q, compiled=rng.choice([False, False, True]) if kind == "pstate" else False,
                            vector=False if kind == "pcircuit" else None, noise=noise)
            items.append({"kind": kind, "pstate": ps, "params": gen_params(rng, ps["nparams"], 1)[0], "shots": shots})
    return {"sampler": name, "q": q, "noise": noise, "items": items,
            "form": rng.choice(["list", "tuple"] + (["star"] if n >= 2 else [])),
            "args": rng.choice(["default", "executor"]) if noise is not None or name.startswith("general_dm") or name == "general_noisesim" else "default",
            "concurrency": rng.choice([-1, 0, 1, 2, 3, 5])}


def gs_item(it):
    if it["kind"] == "circuit":
        st = it["state"]
        return (build_circuit(st["q"], st["gates"], st.get("compiled", False)), it["shots"])
    if it["kind"] == "state":
        return (build_state(it["state"]), it["shots"])
    ps = build_pstate(it["pstate"])
    par = [k * PI for k in it["params"]]
    return ((ps.parametric_circuit if it["kind"] == "pcircuit" else ps), it["shots"], par)


def gs_expected(it):
    bits = state_bits(it["state"]) if "state" in it else pstate_bits(it["pstate"], it["params"])
    return ((bits, (it["shots"], 0)),)


def k6_general_samplers(ctx: Ctx, batches=None):
    rng = ctx.rng
    if batches is None:
        batches = []
        for name in GENERAL_SAMPLERS:
            for n in [1, 2, 3, 5] + [rng.randint(2, 7) for _ in range(ctx.n(4, 16))]:
                batches.append(gen_gs_batch(rng, name, n))
    for b in batches:
        name = b["sampler"]
        ex = InlineExecutor(rng.choice(["fwd", "rev"])) if b.get("args") == "executor" else None
        c = b.get("concurrency") if b.get("args") == "executor" else None

        def attempt(thunk):
            try:
                return ("ok", canon_counts(thunk()))
            except InfraError:
                raise
            except Exception as e:  # noqa: BLE001
                return ("err", type(e).__name__)

        def batch_call():
            g = _general_sampler(name, b["noise"], ex, c)
            items = [gs_item(it) for it in b["items"]]
            if b["form"] == "star":
                return g(*items)
            return g(tuple(items) if b["form"] == "tuple" else items)

        def single_calls():
            g = _general_sampler(name, b["noise"], None, None)
            return [g(*gs_item(it)) for it in b["items"]]

        got, sing = attempt(batch_call), attempt(single_calls)
        want = [gs_expected(it) for it in b["items"]]
        n = len(b["items"])
        ctx.case(("general-sampler", json.dumps(b, sort_keys=True, default=str)), nontrivial=n >= 2,
                 sample={"general_sampler": name, "n": n, "form": b["form"], "result": str(got)[:160]})
        ctx.traces += 1
        ctx.count("general_sampler", f"{name}/{b['form']}/{b.get('args')}")
        for it in b["items"]:
            ctx.count("general_sampler_item", it["kind"])
        if sing != ("ok", want):
            ctx.disagree("general-sampler-single-vs-oracle", {"general_sampler_batch": b}, str(sing)[:300], str(want)[:300])
        if got != sing:
            key = f"general-sampler:{name}"
            seen = ctx.extra.setdefault("witness_keys", {})
            seen[key] = seen.get(key, 0) + 1
            if seen[key] <= 3:
                ctx.witness(key, f"create_qulacs_*_{name}_sampler: the batch call does not return, per input and in input order, "
                                 "what the same sampler returns for that input alone",
                            {"general_sampler_batch": b}, {"batch_call": str(got)[:400], "one_call_per_input": str(sing)[:400]})
        elif got != ("ok", want):
            key = f"general-sampler-oracle:{name}"
            seen = ctx.extra.setdefault("witness_keys", {})
            seen[key] = seen.get(key, 0) + 1
            if seen[key] <= 3:
                ctx.witness(key, f"{name}: batch and one-call-per-input agree with each other but not with the documented behaviour "
                                 "(basis-state circuit, noise model = deterministic bit flip after every gate or none: every shot "
                                 "yields the one computed bit string)",
                            {"general_sampler_batch": b}, {"batch_call": str(got)[:400], "oracle": str(want)[:400]})


# ---------------------------------------------------------------------------
# K7 histories: one estimator / sampler object, one executor and the same input objects over several calls
# ---------------------------------------------------------------------------
class SharedThreadPool:
    """one real ThreadPoolExecutor for a whole history (fewer workers than chunks)"""

    kind = "thread"

    def __init__(self, workers=2):
        from concurrent.futures import ThreadPoolExecutor

        self.pool = ThreadPoolExecutor(workers)

    def map(self, fn, *iterables):
        return self.pool.map(fn, *iterables)

    def close(self):
        self.pool.shutdown(wait=True)


def _scribble_on_public_copies(memo):
    """what a caller may do between two calls: take the documented public copies of a compiled circuit
    (`.qulacs_circuit`, `.param_mapper`) and change them.  -> number of objects scribbled on"""
    k = 0
    for key, obj in list(memo.items()):
        if not isinstance(key, tuple):
            continue
        circ = None
        if key[0] == "state":
            circ = getattr(obj, "circuit", None)
        elif key[0] == "circuit":
            circ = obj
        elif key[0] == "pstate":
            circ = getattr(obj, "_circuit", None)  # the compiled object when the state hands it through
            if not hasattr(circ, "qulacs_circuit"):
                circ = getattr(obj, "parametric_circuit", None)
        if circ is None or not hasattr(type(circ), "qulacs_circuit"):
            continue
        try:
            qc = circ.qulacs_circuit
            qc.add_X_gate(0)
            if hasattr(qc, "get_parameter_count"):
                for i in range(qc.get_parameter_count()):
                    qc.set_parameter(i, 1.0 + i)
            k += 1
        except Exception:  # noqa: BLE001 — the accessor is only a convenience of this check
            continue
    return k


def k7_plan(ctx: Ctx, eps, names=None):
    rng = ctx.rng
    cases = []
    for name in (names or list(eps)):
        ep = eps[name]
        for rep in range(ctx.n(2, 6)):
            variant = rng.randrange(ep.variants) if rep else (1 if ep.variants > 1 else 0)  # rep 0: compiled inputs
            bA = ep.gen(rng, rng.randint(2, 6), variant)
            nB = rng.randint(2, 6)
            for _ in range(40):
                bB = ep.gen(rng, nB, rng.randrange(ep.variants))
                if bB.get("noise") == bA.get("noise"):  # the callable is built once, for one noise model
                    break
            else:
                bB = bA
            cases.append({"entry_point": name, "history": [bA, bB], "executor": rng.choice(["inline", "sched", "pool"]),
                          "exseed": rng.randrange(10**6), "p": rng.choice([1.0, 0.5, 0.2]), "concurrency": rng.randint(2, 4)})
    return cases


def k7_histories(ctx: Ctx, eps, cases):
    for case in cases:
        name, (bA, bB), exkind, c = case["entry_point"], case["history"], case["executor"], case["concurrency"]
        ep = eps[name]
        ex = {"inline": lambda: InlineExecutor("shuffle", random.Random(case["exseed"])),
              "sched": lambda: SchedExecutor(case["exseed"], case["p"]),
              "pool": lambda: SharedThreadPool(2)}[exkind]()
        memo, got, scribbled = {}, [], 0
        try:
            for step, b in enumerate((bA, bB, bA, bB)):
                if step == 2:
                    scribbled = _scribble_on_public_copies(memo)
                try:
                    got.append(("ok", ep.call(b, ex, c, memo)))
                except InfraError:
                    raise
                except Exception as e:  # noqa: BLE001
                    got.append(("err", type(e).__name__))
        finally:
            if exkind == "pool":
                ex.close()
        fresh = [run_ep(ep, b, "none", c)[0] for b in (bA, bB)]
        want = [fresh[0], fresh[1], fresh[0], fresh[1]]
        ctx.case(("history", name, json.dumps([bA, bB], sort_keys=True, default=str), exkind, c), nontrivial=True,
                 sample={"history": name, "executor": exkind, "concurrency": c, "calls": 4, "scribbled_copies": scribbled})
        ctx.traces += 1
        ctx.count("history", f"{name}/{exkind}")
        ctx.count("history_scribbled_copies", None, scribbled)
        for i in range(2):
            if fresh[i][0] == "ok" and fresh[i][1] != ep.expected((bA, bB)[i]):
                ctx.disagree("sequential-vs-oracle", {"entry_point": name, "batch": (bA, bB)[i]}, str(fresh[i][1])[:300],
                             str(ep.expected((bA, bB)[i]))[:300])
        if got != want:
            step = next(i for i in range(4) if got[i] != want[i])
            key = f"history:{name}"
            seen = ctx.extra.setdefault("witness_keys", {})
            seen[key] = seen.get(key, 0) + 1
            if seen[key] <= 3:
                ctx.witness(key, f"{name}: call {step + 1} of a history on ONE estimator/sampler object, one executor and the same input "
                                 "objects (batch A, batch B, [caller changes the public copies of the compiled circuits], A, B) "
                                 "differs from a fresh sequential call",
                            dict(case),
                            {"call": step + 1, "got": str(got[step])[:400], "fresh_sequential": str(want[step])[:400]})


# ---------------------------------------------------------------------------
# K8 independence of random draws (superposition states, shot counts above and below the samplers' multinomial
# threshold): sequentially every input gets its own draw; under any executor two different batch positions, two
# successive calls, or a worker and its parent must not hand back the very same sample
# ---------------------------------------------------------------------------
INDEP_MIN_SHOTS, INDEP_MIN_SUPPORT = 2048, 8


def _where_is_sampling():
    import quri_parts.core.sampling as m

    return m.__file__


def _where_is_sampling_arg(_):
    return _where_is_sampling()


def _spawn_init():
    """initializer of a spawn-started worker: the same import overlay as the parent, stderr silenced"""
    import common as _c

    _c.overlay()
    _quiet_child()


def indep_probabilities(sc):
    """exact outcome distribution of the scenario circuit: RY(angle_i) on qubit i (a product state), then classical
    reversible gates (a permutation of the basis states)"""
    k = len(sc["angles"])
    p = {}
    for x in range(2**k):
        pr = 1.0
        for i, th in enumerate(sc["angles"]):
            s = math.sin(th / 2) ** 2
            pr *= s if (x >> i) & 1 else 1 - s
        y = c11ref.run_classical(x, [tuple(g) for g in sc["perm"]])
        p[y] = p.get(y, 0.0) + pr
    return p


def indep_coincidence_bound(sc):
    """upper bound of P(two independent draws are identical) = sum_x P(x)^2 <= max_x P(x), Stirling/Gaussian value of
    the multinomial mode: (2 pi N)^(-(k-1)/2) * prod p_i^(-1/2)"""
    p = [v for v in indep_probabilities(sc).values() if v > 0]
    return (2 * PI * sc["shots"]) ** (-(len(p) - 1) / 2) * math.prod(v ** -0.5 for v in p)


def indep_circuit(sc):
    from quri_parts.circuit import QuantumCircuit

    c = QuantumCircuit(sc["q"])
    for i, th in enumerate(sc["angles"]):
        c.add_RY_gate(i, th)
    for g in sc["perm"]:
        if g[0] == "X":
            c.add_X_gate(g[1])
        elif g[0] == "CNOT":
            c.add_CNOT_gate(g[1], g[2])
        else:
            c.add_SWAP_gate(g[1], g[2])
    return c


def _spawn_usable(ctx):
    """a spawn-started worker must import the working tree under test, not the installed copy"""
    if "spawn_ok" not in ctx.extra:
        try:
            where = list(FreshProcessPool(1, start="spawn").map(_where_is_sampling_arg, [0]))[0]
            ctx.extra["spawn_ok"] = bool(where and where.startswith(REPO + os.sep))
        except InfraError:
            raise
        except Exception as e:  # noqa: BLE001
            ctx.extra["spawn_ok"] = False
            where = type(e).__name__
        ctx.count("independence_spawn", "usable" if ctx.extra["spawn_ok"] else f"unavailable: {where}"[:80])
    return ctx.extra["spawn_ok"]


def k8_plan(ctx: Ctx):
    rng = ctx.rng
    out = []
    for name, wide in (("sampler.vector", False), ("simulator.state_sampler", False), ("sampler.dm", False),
                       ("sampler.vector", True), ("simulator.state_sampler", True)):
        for rep in range(ctx.n(1, 3)):
            k = rng.choice([3, 3, 4])
            # 11 qubits, 2048 shots: not above 2**max(q, 10) — the backend's own sampling(); otherwise the multinomial branch
            q, shots = (11, 2048) if wide else (k, rng.choice([2048, 2049, 3000, 5000, 2**31 + 7]))
            perm = []
            for _ in range(rng.randint(0, 3)):
                a, b = rng.sample(range(k), 2)
                perm.append(rng.choice([("X", a), ("CNOT", a, b), ("SWAP", a, b)]))
            executors = ["none", "threads:2", "procs:2", "none"] if name != "sampler.dm" else ["none", "threads:2", "none"]
            if name != "sampler.dm" and not out:
                executors.insert(3, "spawn:2")
            out.append({"entry_point": name, "q": q, "angles": [round(rng.uniform(PI / 3, 2 * PI / 3), 6) for _ in range(k)],
                        "perm": perm, "shots": shots, "n": rng.randint(4, 6), "concurrency": rng.randint(2, 4),
                        "same_object": rng.random() < 0.5, "executors": executors, "noise": rng.choice(["empty", "bitflip0"])})
    return out


def k8_independence(ctx: Ctx, scenarios):
    import quri_parts.qulacs.sampler as S
    import quri_parts.qulacs.simulator as M
    from quri_parts.core.state import GeneralCircuitQuantumState

    worst = 0.0
    for sc in scenarios:
        name, n, c, shots = sc["entry_point"], sc["n"], sc["concurrency"], sc["shots"]
        probs = indep_probabilities(sc)
        bound = indep_coincidence_bound(sc)
        worst = max(worst, bound)
        eligible = shots >= INDEP_MIN_SHOTS and len(probs) >= INDEP_MIN_SUPPORT and bound < 1e-9

        def item():
            circ = indep_circuit(sc)
            return (GeneralCircuitQuantumState(sc["q"], circ) if name == "simulator.state_sampler" else circ, shots)

        draws = []  # (label, canonical counts)
        for call_no, spec in enumerate(sc["executors"]):
            if spec.startswith("spawn") and not _spawn_usable(ctx):
                continue
            ex = make_executor(spec)
            try:
                if name == "sampler.vector":
                    smp = S.create_qulacs_vector_concurrent_sampler(ex, c)
                elif name == "sampler.dm":
                    smp = S.create_qulacs_density_matrix_concurrent_sampler(_noise_model(sc["noise"]), ex, c)
                else:
                    smp = M.create_concurrent_vector_state_sampler(ex, c)
                one = item()
                res = [dict(r) for r in smp([one] * n if sc.get("same_object") else [item() for _ in range(n)])]
            except InfraError:
                raise
            except Exception as e:  # noqa: BLE001
                if spec.startswith("spawn"):
                    ctx.count("independence_spawn", f"unavailable: {type(e).__name__}")
                    continue
                ctx.witness(f"batch-raises:{name}", f"{name}: sampling {n} copies of one superposition circuit raises with executor {spec}",
                            {"independence": sc, "executor": spec}, {"error": f"{type(e).__name__}: {e}"[:300]})
                continue
            ctx.count("independence_runs", f"{name}/{spec.split(':')[0]}/{'backend sampling' if sc['q'] > 10 else 'multinomial'}")
            ctx.evaluations += 1
            if len(res) != n:
                ctx.witness(f"result-count:{name}", f"{name}: {len(res)} results for {n} inputs", {"independence": sc, "executor": spec},
                            {"results": len(res)})
            for pos, r in enumerate(res):
                cnt = {int(k): int(v) for k, v in r.items() if v}
                draws.append((f"call {call_no + 1} ({spec}) position {pos}", cnt))
                # the marginal of every single result: right total, inside the support, every cell within 6.5 sigma
                off = [(x, cnt.get(x, 0), round(shots * px, 1)) for x, px in probs.items()
                       if abs(cnt.get(x, 0) - shots * px) > 6.5 * math.sqrt(shots * px * (1 - px)) + 1]
                if sum(cnt.values()) != shots or any(x not in probs for x in cnt) or off:
                    seen = ctx.extra.setdefault("witness_keys", {})
                    key = f"sampled-distribution:{name}"
                    seen[key] = seen.get(key, 0) + 1
                    if seen[key] <= 3:
                        ctx.witness(key, f"{name}: result {pos} of the batch is not a sample of the circuit's outcome distribution "
                                         "(total, support, or a cell more than 6.5 sigma off)",
                                    {"independence": sc, "executor": spec},
                                    {"counts": str(cnt)[:300], "total": sum(cnt.values()), "cells_off (outcome, got, expected)": off[:5]})
        ctx.case(("independence", json.dumps(sc, sort_keys=True)), nontrivial=True,
                 sample={"independence": name, "shots": shots, "support": len(probs), "draws_compared": len(draws),
                         "coincidence_bound_per_pair": bound})
        ctx.traces += 1
        if not eligible:
            continue
        twins = [(a, b) for i, (a, x) in enumerate(draws) for (b, y) in draws[:i] if x == y]
        if twins:
            ctx.witness(f"identical-draws:{name}",
                        f"{name}: {len(twins)} pair(s) of DIFFERENT inputs / calls received the bit-identical sample of a distribution with "
                        f"{len(probs)} outcomes at {shots} shots (probability of one coincidence < {bound:.1e}): the draws of one batch "
                        "are not independent, as they are on the sequential path",
                        {"independence": sc}, {"identical": [f"{b} == {a}" for a, b in twins[:6]],
                                               "sample": str(next(x for lab, x in draws if lab == twins[0][0]))[:300]})
    if scenarios:
        ctx.extra["independence"] = {"rule": f"identical count dictionaries at two different batch positions / calls, support >= {INDEP_MIN_SUPPORT}, "
                                             f"shots >= {INDEP_MIN_SHOTS}", "largest_coincidence_bound_per_pair": worst,
                                     "bound": "sum_x P(x)^2 <= max_x P(x) ~ (2 pi N)^(-(k-1)/2) prod p_i^(-1/2)"}


# ---------------------------------------------------------------------------
# census
# ---------------------------------------------------------------------------
class CallSpy:
    """records which static call sites of execute_concurrently are exercised"""

    def __init__(self):
        self.hits = set()
        self._undo = []

    def __enter__(self):
        import importlib

        for rel in c11gen.ANCHORS[1:]:
            modname = rel[len("packages/"):].split("/", 1)[1][:-3].replace("/", ".")
            if modname.endswith(".__init__"):
                modname = modname[: -len(".__init__")]
            mod = importlib.import_module(modname)
            real = mod.execute_concurrently
            spy = self

            def wrapped(*a, _real=real, _rel=rel, **kw):
                f = sys._getframe(1)
                spy.hits.add((_rel, f.f_lineno))
                return _real(*a, **kw)

            mod.execute_concurrently = wrapped
            self._undo.append((mod, real))
        return self

    def __exit__(self, *a):
        for mod, real in self._undo:
            mod.execute_concurrently = real


def census_check(ctx: Ctx, spy: CallSpy, sites):
    missed = []
    for s in sites:
        if not any(rel == s["file"] and s["lineno"] <= ln <= s["end_lineno"] for rel, ln in spy.hits):
            missed.append(f"{s['file']}:{s['lineno']} in {s['function']}")
    ctx.extra["call_sites"] = {"static": len(sites), "exercised": len(sites) - len(missed)}
    if missed:
        ctx.failed_obligations.append({"obligation": "translator.entry_count",
                                       "error": f"execute_concurrently call sites not exercised by any catalogue entry: {missed}"})


# ---------------------------------------------------------------------------
# findings of the unchanged tree: replayed on the real code on every run
# ---------------------------------------------------------------------------
def replay_findings(ctx: Ctx, eps):
    from quri_parts.core.utils.concurrent import execute_concurrently

    rng = random.Random("C11-findings")
    # F-a (Props.C11.nonpositive_concurrency_witness): executor given, concurrency = 0
    def outcome(ex):
        try:
            return list(execute_concurrently(lambda k, l: [x + k for x in l], 10, [1, 2, 3], ex, 0))
        except Exception as e:  # noqa: BLE001
            return "raises:" + type(e).__name__

    out, seq = outcome(InlineExecutor("fwd")), outcome(None)
    if out != seq:
        ctx.witness(K_NONPOS, "execute_concurrently(fn, 10, [1,2,3], executor, concurrency=0) returns [] — every input dropped, no exception",
                    {"fn": "lambda k, l: [x + k for x in l]", "common": 10, "inputs": [1, 2, 3], "concurrency": 0},
                    {"concurrent": out, "sequential": seq})
    # F-b.. (Props.C11.unshippable_process_witness): process pool
    cases = [
        ("qulacs.dm:paired", {}), ("qulacs.dm:ops-state", {}), ("qulacs.dm.parametric", {"kind": "unbound"}),
        ("sampler.dm", {}), ("overlap.weighted_sum", {}),
        ("qulacs.vector:op-states", {"compiled": True}), ("qulacs.vector.parametric", {"kind": "linear"}),
    ]
    plan = []
    for name, opt in cases:
        ep = eps[name]
        for _ in range(50):
            b = ep.gen(rng, 3)
            if opt.get("compiled") and not any(s.get("compiled") for s in b["states"]):
                continue
            if "kind" in opt and (b["pstate"]["kind"] != opt["kind"] or b["pstate"]["compiled"]):
                continue
            if name.startswith("qulacs.dm") and "states" in b and any(s.get("compiled") for s in b["states"]):
                continue
            break
        plan.append((name, b, "procs:2", 2))
    # a compiled linear-mapped circuit without any parametric gate: no mappingproxy, but the param_mapper closure
    plan.append(("qulacs.vector.parametric",
                 {"q": 1, "op": bit_reader(1), "params": [[0, -1], [-1, 4], [4, 0]], "form": "list", "int0": False,
                  "pstate": {"q": 1, "kind": "linear", "gates": [("S", 0), ("X", 0)], "nparams": 2, "compiled": True}}, "procs:2", 2))
    k2_cases(ctx, eps, plan)
    # F-c: the general estimators lose the first element of a parameter batch given as a one-shot iterator
    for fam in ("qulacs.general_vector.parametric", "qulacs.general_dm.parametric"):
        ep = eps[fam]
        b = {"q": 2, "op": bit_reader(2), "params": [[0, 0], [1, 0], [0, 1]], "noise": "bitflip0", "int0": False,
             "pstate": {"q": 2, "kind": "unbound", "gates": [("PRX", 0, {"0": 1}), ("PRX", 1, {"1": 1})], "nparams": 2, "compiled": False}}
        seen = {}
        for exspec in ("none", "inline:fwd", "threads:2"):
            lst = run_ep(ep, {**b, "form": "list"}, exspec, 2)[0]
            one = run_ep(ep, {**b, "form": "iter"}, exspec, 2)[0]
            ctx.traces += 1
            ctx.case(("one-shot", fam, exspec), sample={"entry_point": fam, "executor": exspec, "list": str(lst)[:100], "iterator": str(one)[:100]})
            if one != lst:
                seen[exspec] = (lst, one)
        if seen:
            exspec, (lst, one) = next(iter(seen.items()))
            dropped_first = all(l[0] == "ok" and o[0] == "ok" and o[1] == l[1][1:] for l, o in seen.values())
            ctx.witness(K_ONESHOT if dropped_first else f"mismatch:{fam}",
                        f"{fam}: GeneralQuantumEstimator(op, parametric state, <one-shot iterator of 3 parameter sets>) returns "
                        f"{len(one[1]) if one[0] == 'ok' else one} result(s): next(iter(param)) consumed the first input",
                        {"entry_point": fam, "batch": {**b, "form": "iter"}, "executor": exspec, "concurrency": 2},
                        {"with_a_list": str(lst)[:300], "with_an_iterator": str(one)[:300], "executors_affected": sorted(seen)})


# ---------------------------------------------------------------------------
# corpus / replay
# ---------------------------------------------------------------------------
def corpus_plan():
    d = os.path.join(VERIF, "corpus", "C11")
    chunk, plan, gs, hist = [], [], [], []
    if os.path.isdir(d):
        for f in sorted(os.listdir(d)):
            if not f.endswith(".json"):
                continue
            for item in json.load(open(os.path.join(d, f))):
                if item.get("kind") == "chunks":
                    chunk.append((item["n"], item["c"]))
                elif item.get("kind") == "entry":
                    plan.append((item["entry_point"], item["batch"], item["executor"], item["concurrency"], item.get("cold_cache")))
                elif item.get("kind") == "general_sampler":
                    gs.append(item["general_sampler_batch"])
                elif item.get("kind") == "history":
                    hist.append(item)
    return chunk, plan, gs, hist


def plan_from_replay(path):
    r = json.load(open(path))
    plan, chunk, gs, hist = [], [], [], []
    for w in r.get("witnesses", []) + [{"input": d.get("input")} for d in r.get("disagreements", [])]:
        inp = w.get("input") or {}
        if "independence" in inp:
            hist.append(inp)
        elif "general_sampler_batch" in inp:
            gs.append(inp["general_sampler_batch"])
        elif "history" in inp and "entry_point" in inp:
            hist.append(inp)
        elif "entry_point" in inp and "batch" in inp:
            plan.append((inp["entry_point"], inp["batch"], inp.get("executor", "inline:fwd"), inp.get("concurrency", 2), inp.get("cold_cache")))
        elif "n" in inp:
            chunk.append((inp["n"], inp.get("concurrency", inp.get("c", 2))))
    return chunk, plan, gs, hist


def finish(ctx: Ctx) -> int:
    keys = ctx.extra.setdefault("witness_keys", {})
    for w in ctx.witnesses:
        keys.setdefault(w["key"], 1)
    # one witness per key is enough in the replay file; keep the first of each key in front
    seen, front, rest = set(), [], []
    for w in ctx.witnesses:
        (front if w["key"] not in seen else rest).append(w)
        seen.add(w["key"])
    ctx.witnesses = front + rest
    return ctx.finish()


# ---------------------------------------------------------------------------
def run(ctx: Ctx, replay=None) -> int:
    ctx.rule = ("cases = (n, concurrency) chunking instances, (entry point, batch, executor, concurrency) runs, worker "
                "homomorphism splits, audited traces, general-sampler batches and call histories; distinct_nontrivial counts distinct canonical cases with n>=2 and "
                "concurrency>=2 (chunking: n>=1, c>=2); sampled schedules are counted in evaluations only")
    ctx.trusted = TRUSTED
    ctx.assumptions = [
        "statement-granular atomicity (GIL); C-level races inside Qulacs/NumPy/stim are outside the model",
        "results compared as exact integers: inputs are computational-basis circuits, Pauli operators with integer "
        "coefficients, rotation angles in multiples of pi (rounding distance < 1e-6 asserted)",
        "process pools use the platform start method (fork)",
    ]
    deep = [] if ctx.quick() else LEAN_TARGETS_THOROUGH
    ok = ctx.prove(LEAN_TARGETS + deep, ["QuriVerif.Props.C11"] + deep)
    if ok:
        names = [f"QV.Props.C11.{n}" for _, n, _ in ctx.count_obligations(["QuriVerif.Props.C11"])]
        names += [f"QV.Props.C11Deep.{n}" for _, n, _ in ctx.count_obligations(deep)]
        ctx.audit(names, ["QuriVerif.Props.C11"] + deep)
    with ctx.timed("translate"):
        sites, workers = c11gen.census(read_repo)
        ctx.generated_entries = len(sites) + len(workers)
        ctx.extra["workers"] = {k: f"{v['shape']}{' nested' if v['nested'] else ''}" for k, v in workers.items()}
    eps = all_eps()
    cchunk, cplan, cgs, chist = corpus_plan()
    if replay:
        rchunk, rplan, rgs, rhist = plan_from_replay(replay)
        with ctx.timed("replay"):
            k1_chunking(ctx, extra=rchunk)
            k2_cases(ctx, eps, rplan)
            if rgs:
                k6_general_samplers(ctx, rgs)
            k7_histories(ctx, eps, [h for h in rhist if "independence" not in h])
            k8_independence(ctx, [h["independence"] for h in rhist if "independence" in h])
        return finish(ctx)
    spy = CallSpy()
    with spy:
        with ctx.timed("findings_replay"):
            replay_findings(ctx, eps)
        with ctx.timed("k1_chunking"):
            k1_defaults(ctx)
            k1_chunking(ctx, extra=cchunk)
        with ctx.timed("k2_entry_points"):
            scheduler_selftest(ctx)
            k2_cases(ctx, eps, cplan + k2_plan(ctx, eps))
        with ctx.timed("k3_homomorphism"):
            k3_homomorphism(ctx, eps)
        with ctx.timed("k6_general_samplers"):
            k6_general_samplers(ctx, cgs or None)
            if cgs:
                k6_general_samplers(ctx)
        with ctx.timed("k7_histories"):
            k7_histories(ctx, eps, chist + k7_plan(ctx, eps))
        with ctx.timed("k8_independence"):
            k8_independence(ctx, k8_plan(ctx))
        with ctx.timed("k4_audit"):
            bad = k4_audit(ctx, eps)
        broken = bool(ctx.failed_obligations or ctx.disagreements)
        with ctx.timed("k5_schedules"):
            budget = ctx.n(12, 240) * (3 if broken else 1)
            ctx.search_budget_s = budget
            if bad:
                k5_schedules(ctx, eps, budget * 0.5, targets=bad)
                k5_schedules(ctx, eps, budget * 0.25)
            else:
                k5_schedules(ctx, eps, budget * 0.6)
            ctx.extra["one_preemption_runs"] = k5_preemptions(ctx, eps, budget * (0.25 if bad else 0.4) + (0 if ctx.quick() else 120),
                                                              exhaustive=not ctx.quick())
    census_check(ctx, spy, sites)
    return finish(ctx)
