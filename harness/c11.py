"""C11 — Concurrent execution is equivalent to sequential execution.

Tie between the Lean model (Model/C11.lean) and the working tree, all parts re-run on every check:

 K1 chunking      real `execute_concurrently` with a recording executor vs `chunksI` / `executeConcurrently`
                  of the model (Lean driver) vs an independent divmod oracle; exhaustive small scope.
 K2 entry points  every concurrent estimator / sampler entry point of the anchored files, with inline
                  (forward / reversed / shuffled), deterministic line-granular scheduled, real thread-pool and
                  real process-pool executors; observed outcome vs `executeWith` of the model applied to
                  the sequential results; sequential results vs the integer oracle.
 K3 homomorphism  each real worker function satisfies fn(c, a ++ b) = fn(c, a) ++ fn(c, b)  (hypothesis `hom`)
 K4 footprints    the backend mutators/readers and the conversion caches are wrapped; the recorded per-task
                  statement traces are translated to the model's `Instr` language and the hypothesis of
                  `schedule_independence` (`disciplined`) is evaluated on them by the Lean driver.
 K5 schedules     deterministic scheduler: one thread per task, a `sys.settrace` line hook hands a single run
                  token around according to a PRNG schedule (replayable from (seed, p)).
"""
from __future__ import annotations

import json
import math
import os
import pickle
import random
import re
import sys
import threading
import time

sys.path.insert(0, os.path.dirname(os.path.dirname(os.path.abspath(__file__))))

from common import REPO, VERIF, Ctx, InfraError, read_repo  # noqa: E402
from oracle import c11ref  # noqa: E402
from translate import c11gen  # noqa: E402

LEAN_TARGETS = ["QuriVerif.Props.C11", "QuriVerif.Driver.C11"]
LEAN_TARGETS_THOROUGH = ["QuriVerif.Props.C11Deep"]
DRIVER = "DriverC11.lean"
PI = math.pi
PKG = os.path.join(REPO, "packages") + os.sep

K_NONPOS = "nonpositive-concurrency-drops-inputs"

TRUSTED = [
    "Lean 4.33 kernel; axioms audited ⊆ {propext, Classical.choice, Quot.sound}",
    "the task-system model: statements are atomic (CPython executes one bytecode line of one thread at a time under "
    "the GIL; C-level races inside Qulacs / NumPy / stim while the GIL is released are NOT modelled)",
    "Executor.map contract (results in input order, exceptions re-raised on retrieval) for concurrent.futures executors",
    "harness instrumentation: wrappers of the Qulacs mutators/readers and of the two `_operator_cache` dicts define "
    "the footprints that are checked; a mutator that is not in the wrapper table is invisible to the audit",
    "the deterministic scheduler (sys.settrace line hook + semaphores) explores statement-granular interleavings of the "
    "quri-parts Python frames only; its effectiveness is self-tested on a racy toy worker every run",
    "installed Qulacs 0.6 / stim / quri_parts.rust 0.27 binaries",
]


# ---------------------------------------------------------------------------
# builders: plain-data descriptions -> real objects
# ---------------------------------------------------------------------------
def build_circuit(q, gates, compiled=False):
    from quri_parts.circuit import QuantumCircuit

    c = QuantumCircuit(q)
    for g in gates:
        k = g[0]
        if k in ("X", "Y", "Z", "S", "T"):
            getattr(c, f"add_{k}_gate")(g[1])
        elif k == "CNOT":
            c.add_CNOT_gate(g[1], g[2])
        elif k == "SWAP":
            c.add_SWAP_gate(g[1], g[2])
        elif k == "TOFFOLI":
            c.add_TOFFOLI_gate(g[1], g[2], g[3])
        else:
            raise InfraError(f"unknown gate {g}")
    if compiled:
        from quri_parts.qulacs.circuit.compiled_circuit import compile_circuit

        return compile_circuit(c)
    return c


def build_state(d):
    import numpy as np

    from quri_parts.core.state import GeneralCircuitQuantumState, QuantumStateVector

    circ = build_circuit(d["q"], d["gates"], d.get("compiled", False))
    if d.get("init") is None:
        return GeneralCircuitQuantumState(d["q"], circ)
    v = np.zeros(2 ** d["q"], dtype=complex)
    v[d["init"]] = 1.0
    return QuantumStateVector(d["q"], v, circ)


def state_bits(d):
    return c11ref.run_classical(d.get("init") or 0, [tuple(g) for g in d["gates"]])


_PN = {1: "X", 2: "Y", 3: "Z"}


def build_label(paulis):
    from quri_parts.core.operator import PAULI_IDENTITY, pauli_label

    if not paulis:
        return PAULI_IDENTITY
    return pauli_label(" ".join(f"{_PN[p]}{q}" for q, p in paulis))


def build_operator(d):
    from quri_parts.core.operator import Operator

    if "label" in d:
        return build_label(d["label"])
    return Operator({build_label(p): float(c) for c, p in d["terms"]})


def op_terms(d):
    if "label" in d:
        return [(1, [tuple(x) for x in d["label"]])]
    return [(c, [tuple(x) for x in p]) for c, p in d["terms"]]


def build_pstate(d):
    """parametric state; d['kind'] in unbound|linear, d['compiled'] in False|True|'forced'"""
    from quri_parts.circuit import LinearMappedParametricQuantumCircuit, ParametricQuantumCircuit
    from quri_parts.core.state import ParametricCircuitQuantumState

    q = d["q"]
    if d["kind"] == "unbound":
        pc = ParametricQuantumCircuit(q)
        ps = None
    else:
        pc = LinearMappedParametricQuantumCircuit(q)
        ps = pc.add_parameters(*[f"p{i}" for i in range(d["nparams"])])
    for g in d["gates"]:
        k = g[0]
        if k in ("PRX", "PRY", "PRZ"):
            m = getattr(pc, f"add_Parametric{k[1:]}_gate")
            if ps is None:
                m(g[1])
            else:
                m(g[1], {ps[int(i)]: float(c) for i, c in g[2].items()})
        elif k == "PPR":
            ts = [t for t, _ in g[1]]
            ids = [p for _, p in g[1]]
            if ps is None:
                pc.add_ParametricPauliRotation_gate(ts, ids)
            else:
                pc.add_ParametricPauliRotation_gate(ts, ids, {ps[int(i)]: float(c) for i, c in g[2].items()})
        elif k in ("X", "Y", "Z", "S", "T"):
            getattr(pc, f"add_{k}_gate")(g[1])
        elif k == "CNOT":
            pc.add_CNOT_gate(g[1], g[2])
        elif k == "SWAP":
            pc.add_SWAP_gate(g[1], g[2])
        else:
            raise InfraError(f"unknown parametric gate {g}")
    comp = d.get("compiled", False)
    if comp:
        from quri_parts.qulacs.circuit.compiled_circuit import compile_parametric_circuit

        cpc = compile_parametric_circuit(pc)
        st = ParametricCircuitQuantumState(q, cpc)
        if comp == "forced":
            # ParametricCircuitQuantumState freezes an unbound compiled circuit back into a plain immutable one;
            # the branch of `_sequential_parametric_estimate` for `_QulacsUnboundParametricCircuit` is reached
            # only when the state hands the compiled object through.
            st._circuit = cpc
        return st
    return ParametricCircuitQuantumState(q, pc)


def pstate_bits(d, params_pi):
    gs = []
    for g in d["gates"]:
        if g[0] in ("PRX", "PRY", "PRZ"):
            gs.append((g[0], g[1], {int(i): int(c) for i, c in g[2].items()}))
        elif g[0] == "PPR":
            gs.append(("PPR", [tuple(x) for x in g[1]], {int(i): int(c) for i, c in g[2].items()}))
        else:
            gs.append(tuple(g))
    return c11ref.run_parametric(0, gs, params_pi)


# ---------------------------------------------------------------------------
# generators
# ---------------------------------------------------------------------------
def gen_gates(rng, q, length, clifford_only=False):
    out = []
    for _ in range(length):
        r = rng.random()
        if r < 0.45 or q == 1:
            out.append((rng.choice(["X", "X", "Y", "Z", "S"] + ([] if clifford_only else ["T"])), rng.randrange(q)))
        elif r < 0.75:
            a, b = rng.sample(range(q), 2)
            out.append(("CNOT", a, b))
        elif r < 0.9 or q < 3 or clifford_only:
            a, b = rng.sample(range(q), 2)
            out.append(("SWAP", a, b))
        else:
            a, b, c = rng.sample(range(q), 3)
            out.append(("TOFFOLI", a, b, c))
    return out


def gen_state(rng, q, want_bits=None, compiled_ok=True, vector_ok=True, clifford_only=False, force=None):
    """a state description whose final basis state is `want_bits` when given"""
    gates = gen_gates(rng, q, rng.randint(0, 5), clifford_only)
    init = rng.randrange(2**q) if (vector_ok and (rng.random() < 0.25 or force == "vector")) else None
    d = {"q": q, "gates": gates, "init": init,
         "compiled": bool(compiled_ok and (rng.random() < 0.35 or force == "compiled"))}
    if want_bits is not None:
        cur = state_bits(d)
        fix = [("X", i) for i in range(q) if ((cur ^ want_bits) >> i) & 1]
        rng.shuffle(fix)
        d["gates"] = gates + fix
    return d


def gen_label(rng, q, z_only=False):
    k = rng.randint(1, min(q, 3))
    qs = rng.sample(range(q), k)
    return sorted((x, 3 if (z_only or rng.random() < 0.75) else rng.choice([1, 2])) for x in qs)


def gen_operator(rng, q, tag):
    """operator whose expectation on any basis state identifies `tag` (identity coefficient 64*tag)"""
    if rng.random() < 0.08:
        return {"label": gen_label(rng, q)}
    terms, seen = [], set()
    for _ in range(rng.randint(0, 4)):
        lab = gen_label(rng, q)
        if tuple(lab) in seen:
            continue
        seen.add(tuple(lab))
        terms.append((rng.randint(-4, 4) or 1, lab))
    terms.append((64 * (tag + 1), []))
    rng.shuffle(terms)
    return {"terms": terms}


def bit_reader(q):
    """operator whose expectation on a basis state identifies the state"""
    return {"terms": [(2**i, [(i, 3)]) for i in range(q)]}


def distinct_bits(rng, q, n):
    pool = list(range(2**q))
    rng.shuffle(pool)
    return [pool[i % len(pool)] for i in range(n)]


def gen_pstate(rng, q, kind=None, compiled=None):
    kind = kind or rng.choice(["unbound", "linear"])
    gates, npar = [], 0
    if kind == "unbound":
        for _ in range(rng.randint(1, 5)):
            r = rng.random()
            if r < 0.6:
                gates.append((rng.choice(["PRX", "PRY", "PRX", "PRZ"]), rng.randrange(q), {str(npar): 1}))
                npar += 1
            elif r < 0.75 and q >= 2:
                k = rng.randint(1, min(q, 3))
                gates.append(("PPR", [(t, rng.randint(1, 3)) for t in rng.sample(range(q), k)], {str(npar): 1}))
                npar += 1
            else:
                gates += gen_gates(rng, q, 1, clifford_only=True)
        if npar == 0:
            gates.append(("PRX", 0, {"0": 1}))
            npar = 1
    else:
        npar = rng.randint(1, 3)
        for _ in range(rng.randint(1, 5)):
            r = rng.random()
            ang = {str(i): rng.randint(-2, 3) for i in rng.sample(range(npar), rng.randint(1, npar))}
            ang = {k: v for k, v in ang.items() if v != 0} or {"0": 1}
            if r < 0.6:
                gates.append((rng.choice(["PRX", "PRY", "PRZ", "PRX"]), rng.randrange(q), ang))
            elif r < 0.75 and q >= 2:
                k = rng.randint(1, min(q, 3))
                gates.append(("PPR", [(t, rng.randint(1, 3)) for t in rng.sample(range(q), k)], ang))
            else:
                gates += gen_gates(rng, q, 1, clifford_only=True)
    if compiled is None:
        compiled = rng.choice([False, False, True, "forced"]) if kind == "unbound" else rng.choice([False, True])
    return {"q": q, "kind": kind, "gates": gates, "nparams": npar, "compiled": compiled}


def gen_params(rng, npar, n):
    return [[rng.randint(-3, 4) for _ in range(npar)] for _ in range(n)]


# ---------------------------------------------------------------------------
# canonical forms
# ---------------------------------------------------------------------------
def canon_value(v):
    z = complex(v)
    re, im = round(z.real), round(z.imag)
    if abs(z.real - re) > 1e-6 or abs(z.imag - im) > 1e-6:
        return ("non-integer", repr(z))
    return (re, im)


def canon_estimates(rs):
    return [canon_value(e.value) for e in rs]


def canon_counts(rs):
    out = []
    for c in rs:
        out.append(tuple(sorted((int(k), canon_value(v)) for k, v in dict(c).items() if v != 0)))
    return out


# ---------------------------------------------------------------------------
# executors
# ---------------------------------------------------------------------------
class InlineExecutor:
    """Executor.map contract, tasks run one after another in a chosen order; records what was submitted"""

    kind = "thread"

    def __init__(self, order="fwd", rng=None, hook=None):
        self.order, self.rng, self.hook = order, rng, hook
        self.submitted = []

    def map(self, fn, *iterables):
        calls = list(zip(*iterables))
        self.submitted.append((fn, calls))
        idx = list(range(len(calls)))
        if self.order == "rev":
            idx.reverse()
        elif self.order == "shuffle":
            self.rng.shuffle(idx)
        res, err = [None] * len(calls), [None] * len(calls)
        for i in idx:
            if self.hook:
                self.hook(i)
            try:
                res[i] = fn(*calls[i])
            except Exception as e:  # noqa: BLE001
                err[i] = e
        if self.hook:
            self.hook(None)

        def it():
            for i in range(len(calls)):
                if err[i] is not None:
                    raise err[i]
                yield res[i]

        return it()


class SchedStuck(Exception):
    pass


class SchedExecutor:
    """One thread per task; only the thread holding the token runs.  At every `line` event of a frame whose
    code lives under one of `prefixes`, the holder passes the token to a PRNG-chosen other live task with
    probability p.  (seed, p) determine the interleaving completely.

    With `preempt=(first, k)` the schedule is instead: task `first` runs up to its k-th yield point, is preempted
    there, all other tasks run to completion one after another, then `first` finishes (one-preemption schedules;
    enumerating k is exhaustive for context bound 1)."""

    kind = "thread"

    def __init__(self, seed, p, prefixes=(PKG,), timeout=60.0, preempt=None):
        self.seed, self.p, self.prefixes, self.timeout = seed, p, tuple(prefixes), timeout
        self.preempt = preempt
        self.points = 0
        self.switches = 0
        self.first_points = 0
        self.stuck = False

    def map(self, fn, *iterables):
        calls = list(zip(*iterables))
        n = len(calls)
        if n == 0:
            return iter(())
        rng = random.Random(f"sched:{self.seed}")
        results, errors = [None] * n, [None] * n
        sems = [threading.Semaphore(0) for _ in range(n)]
        alive = list(range(n))
        done = threading.Event()
        prefixes, p, me_self = self.prefixes, self.p, self

        pre = self.preempt
        if pre is not None:
            pre = (pre[0] % n, pre[1])

        def handoff(me, finished):
            if finished:
                alive.remove(me)
                if not alive:
                    done.set()
                    return
                if pre is not None:
                    others = [a for a in alive if a != pre[0]]
                    nxt = others[0] if others else alive[0]
                else:
                    nxt = rng.choice(alive)
            else:
                me_self.points += 1
                if pre is not None:
                    if me != pre[0]:
                        return
                    me_self.first_points += 1
                    if me_self.first_points != pre[1] or len(alive) == 1:
                        return
                    nxt = [a for a in alive if a != me][0]
                else:
                    if len(alive) == 1 or rng.random() >= p:
                        return
                    nxt = rng.choice([a for a in alive if a != me])
            me_self.switches += 1
            sems[nxt].release()
            if not finished and not sems[me].acquire(timeout=me_self.timeout):
                me_self.stuck = True
                done.set()
                raise SchedStuck()

        def runner(me):
            if not sems[me].acquire(timeout=self.timeout):
                self.stuck = True
                done.set()
                return

            def loc(frame, event, arg):
                if event == "line":
                    handoff(me, False)
                return loc

            def glob(frame, event, arg):
                if event == "call" and frame.f_code.co_filename.startswith(prefixes):
                    return loc
                return None

            sys.settrace(glob)
            try:
                results[me] = fn(*calls[me])
            except SchedStuck:
                sys.settrace(None)
                return
            except BaseException as e:  # noqa: BLE001
                errors[me] = e
            sys.settrace(None)
            handoff(me, True)

        ths = [threading.Thread(target=runner, args=(i,), daemon=True) for i in range(n)]
        for t in ths:
            t.start()
        sems[pre[0] if pre is not None else rng.choice(alive)].release()
        if not done.wait(self.timeout * 2) or self.stuck:
            raise InfraError(f"deterministic scheduler stuck (seed={self.seed}, p={self.p})")
        for t in ths:
            t.join(5)

        def it():
            for i in range(n):
                if errors[i] is not None:
                    raise errors[i]
                yield results[i]

        return it()


def _quiet_child():
    try:
        fd = os.open(os.devnull, os.O_WRONLY)
        os.dup2(fd, 2)
    except OSError:
        pass


class FreshProcessPool:
    """a real ProcessPoolExecutor per map call (an unpicklable input breaks a pool for good)"""

    kind = "process"

    def __init__(self, workers=2):
        self.workers = workers

    def map(self, fn, *iterables):
        from concurrent.futures import ProcessPoolExecutor

        with ProcessPoolExecutor(self.workers, initializer=_quiet_child) as pp:
            return iter(list(pp.map(fn, *iterables)))


class RealThreadPool:
    kind = "thread"

    def __init__(self, workers):
        self.workers = workers

    def map(self, fn, *iterables):
        from concurrent.futures import ThreadPoolExecutor

        with ThreadPoolExecutor(self.workers) as tp:
            return iter(list(tp.map(fn, *iterables)))


def make_executor(spec, rng=None):
    """spec: none | inline:fwd|rev|shuffle | sched:<seed>:<p> | preempt:<task>:<k> | threads:<k> | procs:<k>"""
    if spec == "none":
        return None
    a = spec.split(":")
    if a[0] == "inline":
        return InlineExecutor(a[1], rng or random.Random(spec))
    if a[0] == "sched":
        return SchedExecutor(int(a[1]), float(a[2]))
    if a[0] == "preempt":
        return SchedExecutor(0, 0.0, preempt=(int(a[1]), int(a[2])))
    if a[0] == "threads":
        return RealThreadPool(int(a[1]))
    if a[0] == "procs":
        return FreshProcessPool(int(a[1]))
    raise InfraError(f"bad executor spec {spec}")


def executor_kind(spec):
    return "none" if spec == "none" else ("process" if spec.startswith("procs") else "thread")


# ---------------------------------------------------------------------------
# entry points
# ---------------------------------------------------------------------------
def _noise_model(kind):
    from quri_parts.circuit.noise import BitFlipNoise, NoiseModel

    return NoiseModel() if kind == "empty" else NoiseModel([BitFlipNoise(0.0)])


class EP:
    """one concurrent entry point + one call shape"""

    def __init__(self, name, gen, call, expected, per_input=None, combine=None, min_n=0, variants=1):
        self.name, self.call, self.expected = name, call, expected
        self._gen = gen
        self.variants = variants  # variant 0 = random mix; 1.. = forced input kinds (compiled, vector, ...)
        self.per_input = per_input  # sequential per-input results for combine-type entry points
        self.combine = combine
        self.min_n = min_n

    def gen(self, rng, n, variant=0):
        return self._gen(rng, n, variant % self.variants)


def _est_family(fam, noise="bitflip0"):
    """-> factory(executor, concurrency) giving a ConcurrentQuantumEstimator"""
    if fam == "qulacs.vector":
        from quri_parts.qulacs.estimator import create_qulacs_vector_concurrent_estimator as f

        return f
    if fam == "qulacs.dm":
        from quri_parts.qulacs.estimator import create_qulacs_density_matrix_concurrent_estimator as f

        return lambda ex, c: f(_noise_model(noise), ex, c)
    if fam == "qulacs.general_vector":
        from quri_parts.qulacs.estimator import create_qulacs_general_vector_estimator as f

        return f
    if fam == "qulacs.general_dm":
        from quri_parts.qulacs.estimator import create_qulacs_general_density_matrix_estimator as f

        return lambda ex, c: f(_noise_model(noise), ex, c)
    if fam == "stim":
        from quri_parts.stim.estimator import create_stim_clifford_concurrent_estimator as f

        return f
    raise InfraError(fam)


def _mk_est_ep(fam, shape):
    general = fam.startswith("qulacs.general")
    stim = fam == "stim"

    def gen(rng, n, variant=0):
        q = rng.randint(1, 4)
        kw = dict(compiled_ok=not stim, vector_ok=not stim, clifford_only=stim, force=(None, "compiled", "vector")[variant])
        if shape == "ops-state":
            return {"q": q, "ops": [gen_operator(rng, q, i) for i in range(n)], "states": [gen_state(rng, q, None, **kw)]}
        if shape == "op-states":
            bits = distinct_bits(rng, q, n)
            return {"q": q, "ops": [bit_reader(q)], "states": [gen_state(rng, q, b, **kw) for b in bits]}
        bits = distinct_bits(rng, q, n)
        return {"q": q, "ops": [gen_operator(rng, q, i) for i in range(n)],
                "states": [gen_state(rng, q, b, **kw) for b in bits]}

    def call(b, ex, c):
        ops = [build_operator(o) for o in b["ops"]]
        sts = [build_state(s) for s in b["states"]]
        est = _est_family(fam)(ex, c)
        if general:
            if shape == "ops-state":
                return canon_estimates(est(ops, sts[0]))
            if shape == "op-states":
                return canon_estimates(est(ops[0], sts))
        return canon_estimates(est(ops, sts))

    def expected(b):
        ops, sts = b["ops"], b["states"]
        n = max(len(ops), len(sts))
        out = []
        for i in range(n):
            o = ops[i if len(ops) > 1 else 0]
            s = sts[i if len(sts) > 1 else 0]
            out.append((c11ref.expectation(op_terms(o), state_bits(s)), 0))
        return out

    return EP(f"{fam}:{shape}", gen, call, expected, min_n=1, variants=1 if stim else 3)


def _mk_param_ep(fam):
    def factory(ex, c):
        import quri_parts.qulacs.estimator as E

        if fam == "qulacs.vector.parametric":
            return E.create_qulacs_vector_concurrent_parametric_estimator(ex, c)
        if fam == "qulacs.dm.parametric":
            return E.create_qulacs_density_matrix_concurrent_parametric_estimator(_noise_model("bitflip0"), ex, c)
        if fam == "qulacs.general_vector.parametric":
            return E.create_qulacs_general_vector_estimator(ex, c)
        return E.create_qulacs_general_density_matrix_estimator(_noise_model("bitflip0"), ex, c)

    PV = [None, ("unbound", False), ("unbound", True), ("linear", False), ("linear", True), ("unbound", "forced")]

    def gen(rng, n, variant=0):
        q = rng.randint(1, 4)
        ps = gen_pstate(rng, q) if not variant else gen_pstate(rng, q, PV[variant][0], PV[variant][1])
        if fam != "qulacs.vector.parametric" and ps["compiled"] == "forced":
            ps["compiled"] = False
        return {"q": q, "op": bit_reader(q), "pstate": ps, "params": gen_params(rng, ps["nparams"], n)}

    def call(b, ex, c):
        est = factory(ex, c)
        params = [[k * PI for k in p] for p in b["params"]]
        if fam.startswith("qulacs.general") and not params:
            # GeneralQuantumEstimator inspects next(iter(param)); an empty batch has no concurrent call shape
            return canon_estimates(est.concurrent_parametric_estimator(build_operator(b["op"]), build_pstate(b["pstate"]), params))
        return canon_estimates(est(build_operator(b["op"]), build_pstate(b["pstate"]), params))

    def expected(b):
        return [(c11ref.expectation(op_terms(b["op"]), pstate_bits(b["pstate"], p)), 0) for p in b["params"]]

    return EP(fam, gen, call, expected, variants=6 if fam == "qulacs.vector.parametric" else 5)


def _mk_sampler_ep(fam):
    def factory(ex, c, noise):
        import quri_parts.qulacs.sampler as S
        import quri_parts.qulacs.simulator as M

        if fam == "sampler.vector":
            return S.create_qulacs_vector_concurrent_sampler(ex, c)
        if fam == "sampler.dm":
            return S.create_qulacs_density_matrix_concurrent_sampler(_noise_model(noise), ex, c)
        if fam == "sampler.stochastic":
            return S.create_qulacs_stochastic_state_vector_concurrent_sampler(_noise_model(noise), ex, c)
        if fam == "sampler.noisesim":
            return S.create_qulacs_noisesimulator_concurrent_sampler(_noise_model(noise), ex, c)
        return M.create_concurrent_vector_state_sampler(ex, c)

    def gen(rng, n, variant=0):
        q = rng.randint(1, 4)
        bits = distinct_bits(rng, q, n)
        big = fam in ("sampler.vector", "sampler.dm", "simulator.state_sampler")
        force = (None, "compiled", "vector")[variant]
        items = []
        for i, b in enumerate(bits):
            shots = 3 + i if not (big and rng.random() < 0.15) else 1500 + i
            if fam == "simulator.state_sampler":
                items.append({"state": gen_state(rng, q, b, force=force), "shots": shots})
            else:
                st = gen_state(rng, q, b, vector_ok=False, compiled_ok=(fam == "sampler.vector"), force=force)
                items.append({"state": st, "shots": shots})
        return {"q": q, "items": items, "noise": rng.choice(["empty", "bitflip0"])}

    def call(b, ex, c):
        smp = factory(ex, c, b["noise"])
        if fam == "simulator.state_sampler":
            arg = [(build_state(it["state"]), it["shots"]) for it in b["items"]]
        else:
            arg = [(build_circuit(it["state"]["q"], it["state"]["gates"], it["state"].get("compiled", False)), it["shots"])
                   for it in b["items"]]
        return canon_counts(smp(arg))

    def expected(b):
        return [((state_bits(it["state"]), (it["shots"], 0)),) for it in b["items"]]

    return EP(fam, gen, call, expected, variants={"simulator.state_sampler": 3, "sampler.vector": 2}.get(fam, 1))


def _mk_overlap_ep(parametric):
    def gen(rng, n, variant=0):
        q = rng.randint(1, 3)
        if parametric:
            ps1, ps2 = gen_pstate(rng, q, compiled=False), gen_pstate(rng, q, compiled=False)
            return {"q": q, "ket": ps1, "bra": ps2, "kparams": gen_params(rng, ps1["nparams"], n),
                    "bparams": gen_params(rng, ps2["nparams"], n), "weights": [2**i for i in range(n)]}
        kb = [rng.randrange(2**q) for _ in range(n)]
        bb = [k if rng.random() < 0.5 else rng.randrange(2**q) for k in kb]
        return {"q": q, "kets": [gen_state(rng, q, b, compiled_ok=False) for b in kb],
                "bras": [gen_state(rng, q, b, compiled_ok=False) for b in bb], "weights": [2**i for i in range(n)]}

    def call(b, ex, c):
        import quri_parts.qulacs.overlap_estimator as O

        est = O.create_qulacs_vector_overlap_weighted_sum_estimator(ex, c)
        if parametric:
            pest = O.create_qulacs_vector_parametric_overlap_weighted_sum_estimator(est)
            r = pest((build_pstate(b["ket"]), [[k * PI for k in p] for p in b["kparams"]]),
                     (build_pstate(b["bra"]), [[k * PI for k in p] for p in b["bparams"]]), b["weights"])
        else:
            r = est([build_state(s) for s in b["kets"]], [build_state(s) for s in b["bras"]], b["weights"])
        return [canon_value(r.value)]

    def pairs(b):
        if parametric:
            return [(pstate_bits(b["ket"], p), pstate_bits(b["bra"], r)) for p, r in zip(b["kparams"], b["bparams"])]
        return [(state_bits(k), state_bits(r)) for k, r in zip(b["kets"], b["bras"])]

    def per_input(b):
        return [(1 if k == r else 0, 0) for k, r in pairs(b)]

    def combine(b, results):
        # zip(overlap_estimates, weights): results are paired positionally with the weights
        return [(sum(w * r[0] for r, w in zip(results, b["weights"])), 0)]

    def expected(b):
        return combine(b, per_input(b))

    return EP("overlap.parametric_weighted_sum" if parametric else "overlap.weighted_sum", gen, call, expected,
              per_input=per_input, combine=combine)


def all_eps():
    eps = []
    for fam in ("qulacs.vector", "qulacs.dm", "qulacs.general_vector", "qulacs.general_dm", "stim"):
        for shape in ("ops-state", "op-states", "paired"):
            if fam.startswith("qulacs.general") and shape == "paired":
                pass
            eps.append(_mk_est_ep(fam, shape))
    for fam in ("qulacs.vector.parametric", "qulacs.dm.parametric", "qulacs.general_vector.parametric",
                "qulacs.general_dm.parametric"):
        eps.append(_mk_param_ep(fam))
    for fam in ("sampler.vector", "sampler.dm", "sampler.stochastic", "sampler.noisesim", "simulator.state_sampler"):
        eps.append(_mk_sampler_ep(fam))
    eps.append(_mk_overlap_ep(False))
    eps.append(_mk_overlap_ep(True))
    return {e.name: e for e in eps}


def batch_len(ep, b):
    for k in ("params", "items", "weights"):
        if k in b:
            return len(b[k])
    return max(len(b["ops"]), len(b["states"]))


def reset_caches():
    """cold conversion caches, as in a fresh process (the module-level dicts outlive every call)"""
    import quri_parts.qulacs.operator as QO
    import quri_parts.stim.operator as SO

    QO._operator_cache.clear()
    SO._operator_cache.clear()


def run_ep(ep, b, exspec, c, rng=None, cold=False):
    """-> ('ok', canonical list) | ('err', exception class name)"""
    ex = make_executor(exspec, rng)
    if cold:
        reset_caches()
    try:
        return ("ok", ep.call(b, ex, c)), ex
    except InfraError:
        raise
    except Exception as e:  # noqa: BLE001 — the real code's behaviour is an output
        return ("err", type(e).__name__), ex


# ---------------------------------------------------------------------------
# shippability oracle (what a process pool has to pickle)
# ---------------------------------------------------------------------------
def shippability(ep, b, c):
    """(True, None) or (False, finding-key): pickle round trip of every (fn, common, chunk) the entry point submits"""
    rec = InlineExecutor("fwd")
    try:
        ep.call(b, rec, max(c, 1))
    except Exception:  # noqa: BLE001
        pass
    for fn, calls in rec.submitted:
        for args in calls:
            try:
                pickle.loads(pickle.dumps((fn,) + tuple(args)))
            except Exception as e:  # noqa: BLE001
                msg = str(e)
                m = re.search(r"local object '([^']+)'", msg)
                if m:
                    return False, f"procpool.unpicklable-worker:{m.group(1)}"
                if "_QulacsCircuit" in msg:
                    return False, "procpool.unpicklable-input:_QulacsCircuit"
                if "mappingproxy" in msg:
                    return False, "procpool.unpicklable-input:linear-mapped-parametric-circuit"
                return False, f"procpool.unpicklable:{type(e).__name__}"
    return True, None


# ---------------------------------------------------------------------------
# K1 chunking
# ---------------------------------------------------------------------------
def _tag_worker(common, xs):
    return [(common, x) for x in xs]


def k1_chunking(ctx: Ctx, extra=()):
    from quri_parts.core.utils.concurrent import execute_concurrently

    rng = ctx.rng
    N, C = ctx.n(64, 128), ctx.n(20, 40)
    grid = [(n, c) for n in range(N + 1) for c in range(-2, C + 1)]
    for _ in range(ctx.n(60, 600)):
        grid.append((rng.randint(N, 4000), rng.choice([1, 2, 3, 7, 16, 64, 127, rng.randint(1, 400)])))
    grid = list(extra) + grid
    reqs = [f"c11chunks {n} {c}" for n, c in grid]
    resp = ctx.driver(reqs, entry=DRIVER)
    for (n, c), r in zip(grid, resp):
        if r == "bad-request":
            raise InfraError(f"driver rejected c11chunks {n} {c}")
        rec = InlineExecutor("fwd")
        xs = list(range(n))
        try:
            out = execute_concurrently(_tag_worker, "K", iter(xs), rec, c)
            real_chunks = [list(a[1]) for a in rec.submitted[0][1]]
            commons = [a[0] for a in rec.submitted[0][1]]
            real = f"k={len(real_chunks)} chunks={';'.join(','.join(map(str, ch)) for ch in real_chunks)} " \
                   f"out={','.join(str(x) for _, x in out)}"
            if any(cm != "K" for cm in commons) or any(k != "K" for k, _ in out):
                real += " common-corrupted"
        except Exception as e:  # noqa: BLE001
            real, out, real_chunks = "raises:" + type(e).__name__, None, None
        ctx.case(("chunk", n, c), nontrivial=(c >= 2 and n >= 1), sample={"n": n, "c": c, "model": r[:120]})
        ctx.traces += 1
        ctx.count("chunking", "c<=0" if c <= 0 else ("n<c" if n < c else ("c|n" if n % c == 0 else "c∤n")))
        if real != r:
            ctx.disagree("execute_concurrently-chunking", {"n": n, "c": c}, real[:400], r[:400])
        # property on the real code against the independent oracle
        try:
            seq = list(execute_concurrently(_tag_worker, "K", xs, None, c))
        except Exception as e:  # noqa: BLE001
            seq = "raises:" + type(e).__name__
        conc = list(out) if out is not None else real
        if conc != seq:
            if c <= 0 and out == [] and n > 0:
                ctx.count("finding", K_NONPOS)
                continue
            seen = ctx.extra.setdefault("witness_keys", {})
            seen["execute_concurrently:result"] = seen.get("execute_concurrently:result", 0) + 1
            if seen["execute_concurrently:result"] <= 3:
                ctx.witness("execute_concurrently:result", "execute_concurrently with an executor differs from the sequential call",
                            {"n": n, "concurrency": c, "worker": "lambda k, xs: [(k, x) for x in xs]"},
                            {"concurrent": str(conc)[:300], "sequential": str(seq)[:300]})
        elif c >= 1 and out is not None:
            want = c11ref.chunks(xs, c)
            seen = ctx.extra.setdefault("witness_keys", {})
            if real_chunks != want:
                seen["execute_concurrently:chunks"] = seen.get("execute_concurrently:chunks", 0) + 1
            if real_chunks != want and seen["execute_concurrently:chunks"] <= 3:
                ctx.witness("execute_concurrently:chunks", "chunks are not the contiguous balanced partition",
                            {"n": n, "concurrency": c}, {"real": str(real_chunks)[:300], "oracle": str(want)[:300]})


# ---------------------------------------------------------------------------
# K2 entry points
# ---------------------------------------------------------------------------
def predict(ctx, items):
    """items: [(exkind, c, shippable, n)] -> model outcome ('ok', [indices]) | ('raises',)"""
    reqs = [f"c11with {k} {c} {1 if sh else 0} {n}" for k, c, sh, n in items]
    out = []
    for r in ctx.driver(reqs, entry=DRIVER):
        if r == "raises":
            out.append(("raises",))
        elif r.startswith("ok:"):
            out.append(("ok", [int(x) for x in r[3:].split(",") if x]))
        else:
            raise InfraError(f"driver: {r}")
    return out


def classify_and_report(ctx, ep, b, exspec, c, seq, conc, ship_key, n, extra=None, cold=False):
    """the property on the real code: concurrent outcome == sequential outcome"""
    if conc == seq:
        return None
    inp = {"entry_point": ep.name, "batch": b, "executor": exspec, "concurrency": c, "cold_cache": cold}
    detail = {"sequential": str(seq)[:400], "concurrent": str(conc)[:400]}
    if extra:
        detail.update(extra)
    if c <= 0 and exspec != "none" and seq[0] == "ok" and conc[0] == "ok" and n > 0 and \
            conc[1] == (ep.combine(b, []) if ep.combine else []):
        key = K_NONPOS
        what = "with an executor and concurrency <= 0 every input is dropped (empty result, no exception)"
    elif exspec.startswith("procs") and conc[0] == "err" and ship_key:
        key = ship_key
        what = "a ProcessPoolExecutor cannot be used: the submitted worker/input does not survive pickling"
    else:
        key = f"mismatch:{ep.name}"
        what = "concurrent result differs from the sequential result"
    seen = ctx.extra.setdefault("witness_keys", {})
    seen[key] = seen.get(key, 0) + 1
    if seen[key] <= 3:  # three concrete inputs per key are kept; the rest is counted only
        ctx.witness(key, f"{ep.name}: {what}", inp, detail)
    return key


def k2_cases(ctx: Ctx, eps, plan):
    """plan: [(ep name, batch, exspec, c)]"""
    rows = []
    colds = []
    for item in plan:
        name, b, exspec, c = item[:4]
        colds.append(item[4] if len(item) > 4 else None)
        ep = eps[name]
        n = batch_len(ep, b)
        kind = executor_kind(exspec)
        ship, ship_key = (True, None)
        if kind == "process":
            ship, ship_key = shippability(ep, b, c)
        rows.append((ep, b, exspec, c, n, kind, ship, ship_key))
    preds = predict(ctx, [(kind, c, ship, n) for (_, _, _, c, n, kind, ship, _) in rows])
    for (ep, b, exspec, c, n, kind, ship, ship_key), pred, cold in zip(rows, preds, colds):
        (seq, _) = run_ep(ep, b, "none", c)
        if cold is None:
            cold = ctx.rng.random() < 0.7
        (conc, ex) = run_ep(ep, b, exspec, c, ctx.rng, cold=cold)
        ctx.count("cache", "cold" if cold else "warm")
        ctx.case((ep.name, json.dumps(b, sort_keys=True, default=str), exspec, c), nontrivial=(n >= 2 and c >= 2),
                 sample={"entry_point": ep.name, "n": n, "concurrency": c, "executor": exspec, "sequential": str(seq)[:160]})
        ctx.traces += 1
        ctx.count("entry_point", ep.name)
        ctx.count("executor", exspec.split(":")[0])
        ctx.count("batch", "n=0" if n == 0 else ("n=1" if n == 1 else ("n<c" if n < c else ("c|n" if c > 0 and n % c == 0 else "c∤n or c<=0"))))
        if isinstance(ex, SchedExecutor):
            ctx.count("sched_points", None, ex.points)
            ctx.count("sched_switches", None, ex.switches)
        # (1) oracle validation of the sequential path
        if seq[0] == "ok":
            want = ep.expected(b)
            if seq[1] != want:
                ctx.disagree("sequential-vs-oracle", {"entry_point": ep.name, "batch": b}, str(seq[1])[:300], str(want)[:300])
            if not ep.combine and len(seq[1]) != n:
                ctx.witness(f"result-count:{ep.name}", f"{ep.name}: {len(seq[1])} results for {n} inputs (sequential path)",
                            {"entry_point": ep.name, "batch": b, "executor": "none", "concurrency": c}, {"sequential": str(seq)[:300]})
        if conc[0] == "ok" and not ep.combine and c >= 1 and len(conc[1]) != n and seq[0] == "ok":
            ctx.witness(f"result-count:{ep.name}", f"{ep.name}: {len(conc[1])} results for {n} inputs",
                        {"entry_point": ep.name, "batch": b, "executor": exspec, "concurrency": c}, {"concurrent": str(conc)[:300]})
        if seq[0] == "ok":
            pass
        else:
            ctx.count("sequential_raises", seq[1])
        # (2) model prediction of the concurrent outcome
        if seq[0] == "err":
            model = seq  # argument validation precedes execute_concurrently
        elif pred[0] == "raises":
            model = ("err", "*")
        else:
            per = ep.per_input(b) if ep.per_input else seq[1]
            sel = [per[i] if i < len(per) else ("missing",) for i in pred[1]]
            model = ("ok", ep.combine(b, sel) if ep.combine else sel)
        agree = (conc == model) or (model == ("err", "*") and conc[0] == "err")
        if not agree:
            ctx.disagree("entry-point-vs-model", {"entry_point": ep.name, "batch": b, "executor": exspec, "concurrency": c},
                         str(conc)[:300], str(model)[:300])
        # (3) the property itself on the real code
        classify_and_report(ctx, ep, b, exspec, c, seq, conc, ship_key, n, cold=cold)


def k2_plan(ctx: Ctx, eps):
    rng = ctx.rng
    plan = []
    names = list(eps)
    reps = ctx.n(1, 6)
    for name in names:
        ep = eps[name]
        for _ in range(reps):
            # batch sizes: 0, 1, fewer than, equal, not divisible
            for n, c in ((0, 2), (1, 3), (2, 5), (4, 2), (5, 3), (7, 4), (rng.randint(2, 9), rng.randint(1, 6))):
                if n < ep.min_n and rng.random() < 0.5:
                    continue
                b = ep.gen(rng, n)
                ex = rng.choice(["inline:fwd", "inline:rev", "inline:shuffle", f"sched:{rng.randrange(10**6)}:{rng.choice([1.0, 0.5, 0.2, 0.05])}"])
                plan.append((name, b, ex, c))
        # real pools, nonpositive concurrency, malformed
        b = ep.gen(rng, rng.randint(3, 8))
        plan.append((name, b, f"threads:{rng.choice([1, 2, 4])}", rng.randint(2, 5)))
        b = ep.gen(rng, rng.randint(2, 6))
        if "pstate" in b and b["pstate"]["compiled"] == "forced":
            b["pstate"]["compiled"] = False  # the forced hand-through object is a harness construction
        plan.append((name, b, "procs:2", rng.randint(2, 3)))
        plan.append((name, ep.gen(rng, 3), "inline:fwd", rng.choice([0, -1])))
    # malformed: operator / state count mismatch, weight count mismatch
    for fam in ("qulacs.vector", "qulacs.dm", "stim"):
        ep = eps[f"{fam}:paired"]
        b = ep.gen(rng, 4)
        b["ops"] = b["ops"][:3]
        plan.append((ep.name, b, "inline:fwd", 2))
    b = eps["overlap.weighted_sum"].gen(rng, 4)
    b["weights"] = b["weights"][:3]
    plan.append(("overlap.weighted_sum", b, "inline:rev", 2))
    return plan


# ---------------------------------------------------------------------------
# K3 worker homomorphism
# ---------------------------------------------------------------------------
def _canon_any(rs):
    out = []
    for r in rs:
        if hasattr(r, "value"):
            out.append(canon_value(r.value))
        else:
            out.append(tuple(sorted((int(k), canon_value(v)) for k, v in dict(r).items() if v != 0)))
    return out


def k3_homomorphism(ctx: Ctx, eps):
    rng = ctx.rng
    for name, ep in eps.items():
        for _ in range(ctx.n(1, 5)):
            n = rng.randint(2, 7)
            b = ep.gen(rng, n)
            rec = InlineExecutor("fwd")
            try:
                ep.call(b, rec, 1)
            except Exception:  # noqa: BLE001
                continue
            if not rec.submitted or not rec.submitted[0][1]:
                continue
            fn, calls = rec.submitted[0]
            common, xs = calls[0]
            xs = list(xs)
            k = rng.randint(0, len(xs))
            try:
                whole = _canon_any(fn(common, xs))
                parts = _canon_any(fn(common, xs[:k])) + _canon_any(fn(common, xs[k:]))
                empty = _canon_any(fn(common, []))
            except Exception as e:  # noqa: BLE001
                whole, parts, empty = ("raises", type(e).__name__), None, []
            ctx.case(("hom", name, json.dumps(b, sort_keys=True, default=str), k), sample=None)
            ctx.traces += 1
            ctx.count("worker_hom", getattr(fn, "__qualname__", str(fn)))
            if whole != parts or empty != []:
                ctx.disagree("worker-homomorphism", {"entry_point": name, "worker": getattr(fn, "__qualname__", "?"), "batch": b, "split": k},
                             f"fn(a++b)={whole}", f"fn(a)++fn(b)={parts}, fn([])={empty}")


# ---------------------------------------------------------------------------
# K4 footprint audit
# ---------------------------------------------------------------------------
class Audit:
    """wraps the backend mutators / readers and the conversion caches; records per-task statement traces"""

    def __init__(self):
        self.task = None
        self.events = []  # (task, kind, payload...)
        self.keep = []  # keeps every object alive so that id() stays unique
        self._undo = []

    # -- recording -----------------------------------------------------------
    def ev(self, kind, *objs, **kw):
        self.keep.extend(objs)
        self.events.append((self.task, kind, tuple(id(o) for o in objs), kw))

    def _patch_method(self, cls, name, reads, writes, post=None):
        owner = None
        for k in cls.__mro__:
            if name in k.__dict__:
                owner = k
                break
        if owner is None:
            return
        if any(u[0] is owner and u[1] == name for u in self._undo):
            return
        orig = owner.__dict__[name]
        audit = self

        def wrapper(*a, **kw):
            r = orig(*a, **kw)
            audit.ev(name, *[a[i] for i in sorted(set(reads + writes)) if i < len(a)],
                     reads=[id(a[i]) for i in reads if i < len(a)], writes=[id(a[i]) for i in writes if i < len(a)],
                     content=(post(a[0]) if post else None))
            return r

        setattr(owner, name, wrapper)
        self._undo.append((owner, name, orig))

    def __enter__(self):
        import qulacs

        import quri_parts.qulacs.operator as QO
        import quri_parts.qulacs.overlap_estimator as OV
        import quri_parts.stim.operator as SO

        P = self._patch_method
        for cls in (qulacs.QuantumState, qulacs.DensityMatrix):
            P(cls, "load", [], [0])
            P(cls, "set_computational_basis", [], [0])
            P(cls, "set_zero_state", [], [0])
            P(cls, "sampling", [0], [])
            P(cls, "get_vector", [0], [])
            P(cls, "get_matrix", [0], [])
        for cls in (qulacs.QuantumCircuit, qulacs.ParametricQuantumCircuit):
            P(cls, "update_quantum_state", [0, 1], [1])
            P(cls, "copy", [0], [])
            P(cls, "add_gate", [0], [0])
        P(qulacs.ParametricQuantumCircuit, "set_parameter", [0], [0])
        P(qulacs.GeneralQuantumOperator, "add_operator", [0], [0], post=qulacs_op_content)
        P(qulacs.GeneralQuantumOperator, "get_expectation_value", [0, 1], [])
        P(qulacs.NoiseSimulator, "execute", [0], [0])
        # constructor of the operator objects that end up in the cache
        audit = self
        real_gqo = QO.GeneralQuantumOperator

        def gqo_factory(*a, **kw):
            o = real_gqo(*a, **kw)
            audit.ev("new_operator", o, reads=[], writes=[id(o)], content=qulacs_op_content(o))
            return o

        QO.GeneralQuantumOperator = gqo_factory
        self._undo.append((QO, "GeneralQuantumOperator", real_gqo))
        real_ip = OV.inner_product

        def ip(a, b):
            audit.ev("inner_product", a, b, reads=[id(a), id(b)], writes=[], content=None)
            return real_ip(a, b)

        OV.inner_product = ip
        self._undo.append((OV, "inner_product", real_ip))
        # caches
        for mod, content, expect in ((QO, qulacs_op_content, qulacs_key_content), (SO, stim_op_content, stim_key_content)):
            real = mod._operator_cache
            mod._operator_cache = RecDict(self, mod.__name__, content, expect)
            self._undo.append((mod, "_operator_cache", real))
        return self

    def __exit__(self, *a):
        for owner, name, orig in reversed(self._undo):
            setattr(owner, name, orig)
        self._undo = []


class RecDict(dict):
    def __init__(self, audit, modname, content, expect):
        super().__init__()
        self.audit, self.modname, self.content, self.expect = audit, modname, content, expect

    def __contains__(self, k):
        r = dict.__contains__(self, k)
        self.audit.ev("cache_contains", reads=[], writes=[], key=(self.modname, k), hit=r)
        return r

    def __getitem__(self, k):
        v = dict.__getitem__(self, k)
        self.audit.ev("cache_get", v, reads=[], writes=[], key=(self.modname, k), content=self.content(v), expect=self.expect(k))
        return v

    def __setitem__(self, k, v):
        self.audit.ev("cache_set", v, reads=[id(v)], writes=[], key=(self.modname, k), content=self.content(v), expect=self.expect(k),
                      recheck=(lambda v=v, f=self.content: f(v)))
        dict.__setitem__(self, k, v)


def _parse_pauli_string(s):
    toks = s.split()
    return c11ref.pauli_canon([(int(toks[i + 1]), {"I": 0, "X": 1, "Y": 2, "Z": 3}[toks[i].upper()]) for i in range(0, len(toks), 2)])


def qulacs_op_content(o):
    terms = []
    for i in range(o.get_term_count()):
        t = o.get_term(i)
        cf = complex(t.get_coef())
        terms.append((_parse_pauli_string(t.get_pauli_string()), cf.real, cf.imag))
    return ("qulacs", int(o.get_qubit_count()), tuple(sorted(terms)))


def qulacs_key_content(key):
    """what the key says the cached operator must be — computed from the key alone"""
    opkey, n = key
    terms = []
    for lab, coef in opkey:
        cf = complex(coef)
        terms.append((c11ref.pauli_canon([(q, int(p)) for q, p in lab]), cf.real, cf.imag))
    return ("qulacs", int(n), tuple(sorted(terms)))


def stim_op_content(v):
    terms = []
    for ps, coef in v:
        s = str(ps)
        sign = -1 if s.startswith("-") else 1
        body = s.lstrip("+-")
        cf = complex(coef) * sign
        terms.append((c11ref.pauli_canon([(i, "_XYZ".index(ch)) for i, ch in enumerate(body)]), cf.real, cf.imag))
    return ("stim", tuple(sorted(terms)))


def stim_key_content(key):
    opkey, _n = key
    terms = []
    for lab, coef in opkey:
        cf = complex(coef)
        terms.append((c11ref.pauli_canon([(q, int(p)) for q, p in lab]), cf.real, cf.imag))
    return ("stim", tuple(sorted(terms)))


def audit_to_model(audit: Audit):
    """recorded events -> (build table, tasks as Instr strings, python-side diagnostics)"""
    tasks = sorted({e[0] for e in audit.events if e[0] is not None})
    tix = {t: i for i, t in enumerate(tasks)}
    owner, published = {}, set()  # owner: the task that first writes or publishes the object ("main" outside tasks)
    for t, kind, objs, kw in audit.events:
        for o in kw.get("writes", []):
            owner.setdefault(o, "main" if t is None else t)
        if kind == "cache_set":
            owner.setdefault(objs[0], "main" if t is None else t)
        if kind in ("cache_set", "cache_get"):
            published.add(objs[0])

    def aliased(t, o):
        """task t holds o only through the cache: the model hands out a private copy"""
        return o in published and owner.get(o, "main") != t

    cells, contents, keys = {}, {}, {}

    def cell(t, o):
        k = ("alias", t, o) if aliased(t, o) else ("obj", o)
        return cells.setdefault(k, len(cells) + 1)

    def cid(c):
        return contents.setdefault(c, len(contents) + 1)

    def kid(k):
        return keys.setdefault(k, len(keys) + 1)

    progs = {i: [] for i in range(len(tasks))}
    build = {}
    diag = []
    pub_at = {}  # object -> event index of first publication
    written = set()
    for t, kind, objs, kw in audit.events:
        if kind == "cache_set" and kw["recheck"]() != kw["content"]:
            diag.append(f"value stored in the cache under {kw['key'][1]} was changed after it was stored: {kw['content']} -> {kw['recheck']()}")
    for idx, (t, kind, objs, kw) in enumerate(audit.events):
        prev_written = set(written)
        written.update(kw.get("writes", []))
        for o in kw.get("writes", []):
            if o in pub_at:
                diag.append(f"object published in the cache at event {pub_at[o]} is written again by task {t} ({kind})")
        if kind == "cache_set":
            pub_at.setdefault(objs[0], idx)
            if kw["content"] != kw["expect"]:
                diag.append(f"cache entry written with a value that is not the value of its key: {kw['content']} vs {kw['expect']}")
        if kind == "cache_get" and kw["content"] != kw["expect"]:
            diag.append(f"cache hit returns a value that is not the value of its key: {kw['content']} vs {kw['expect']}")
        if t is None:
            continue
        p = progs[tix[t]]
        if kind == "cache_contains":
            continue
        if kind == "cache_set":
            k = kid(kw["key"])
            build[k] = cid(kw["expect"])
            if objs[0] not in prev_written:
                # built without any wrapped mutator (e.g. a Python list): its content when stored is all there is
                p.append(f"s:{cell(t, objs[0])}:{cid(kw['content'])}")
            p.append(f"p:{k}:{cell(t, objs[0])}")
        elif kind == "cache_get":
            k = kid(kw["key"])
            build[k] = cid(kw["expect"])
            # the value handed out must be the built one: encode what was actually observed
            if not aliased(t, objs[0]):
                pass  # a task finding its own entry again keeps using its own object
            elif kw["content"] == kw["expect"]:
                p.append(f"l:{cell(t, objs[0])}:{k}")
            else:
                p.append(f"s:{cell(t, objs[0])}:{cid(kw['content'])}")
        elif kw.get("content") is not None and kw.get("writes"):
            p.append(f"s:{cell(t, kw['writes'][0])}:{cid(kw['content'])}")
        elif kw.get("writes"):
            rd = [cell(t, o) for o in kw.get("reads", [])] or [0]
            p.append(f"a:{cell(t, kw['writes'][0])}:{len(kind)}:{rd[0]}:{rd[-1]}")
        else:
            rd = [cell(t, o) for o in kw.get("reads", [])]
            if rd:
                tmp = cells.setdefault(("tmp", idx), len(cells) + 1)
                p.append(f"a:{tmp}:{len(kind)}:{rd[0]}:{rd[-1]}")
                p.append(f"e:{tmp}")
    # python-side privacy diagnostics (the Lean evaluation below is the verdict)
    wr, touch = {}, {}
    for t, kind, objs, kw in audit.events:
        if t is None:
            continue
        for o in kw.get("writes", []):
            wr.setdefault(o, set()).add((t, kind))
        for o in list(kw.get("writes", [])) + list(kw.get("reads", [])):
            if not aliased(t, o):
                touch.setdefault(o, set()).add(t)
    for o, ws in wr.items():
        owners = {t for t, _ in ws}
        others = touch.get(o, set()) - owners
        if len(owners) > 1 or others:
            diag.append(f"backend object written by task(s) {sorted(owners)} via {sorted({k for _, k in ws})} is also used by task(s) {sorted(others | owners)}")
    tbl = ",".join(f"{k}={v}" for k, v in sorted(build.items()))
    body = ";".join(",".join(progs[i]) for i in range(len(tasks)))
    return tbl, body, diag, sum(len(p) for p in progs.values())


def k4_audit(ctx: Ctx, eps):
    """returns the list of (ep, batch, c) whose traces break the discipline"""
    rng = ctx.rng
    bad, reqs, meta = [], [], []
    for name, ep in eps.items():
        for rep in range(2 * ep.variants * ctx.n(1, 3)):
            n, c = rng.randint(2, 7), rng.randint(2, 4)
            b = ep.gen(rng, n, rep // 2)
            aud = Audit()
            with aud:
                def hook(i, aud=aud):
                    aud.task = i
                ex = InlineExecutor(rng.choice(["fwd", "rev", "shuffle"]), rng, hook)
                if rep % 2 == 1:
                    # warm cache: a sequential call first (task None), so that the tasks hit
                    try:
                        ep.call(b, None, c)
                    except Exception:  # noqa: BLE001
                        pass
                try:
                    ep.call(b, ex, c)
                except Exception:  # noqa: BLE001
                    pass
            tbl, body, diag, nstmts = audit_to_model(aud)
            reqs.append(f"c11disc {tbl} | {body}")
            meta.append((name, b, c, diag, nstmts, len(aud.events)))
    resp = ctx.driver(reqs, entry=DRIVER)
    for (name, b, c, diag, nstmts, nev), r in zip(meta, resp):
        if r == "bad-request":
            raise InfraError("driver rejected a recorded trace")
        ctx.case(("audit", name, json.dumps(b, sort_keys=True, default=str), c), nontrivial=nstmts > 0,
                 sample={"audit": name, "statements": nstmts, "model": r})
        ctx.traces += 1
        ctx.count("audit_statements", None, nstmts)
        ctx.count("audit", name)
        if "disciplined=1" not in r or diag:
            ctx.disagree("footprint-discipline", {"entry_point": name, "batch": b, "concurrency": c},
                         "; ".join(diag)[:600] or "trace violates the discipline", r)
            bad.append((name, b, c))
    return bad


# ---------------------------------------------------------------------------
# K5 schedules
# ---------------------------------------------------------------------------
_toy_shared = {"v": 0}


def _toy_racy(common, xs):
    out = []
    for x in xs:
        t = _toy_shared["v"]
        t = t + x
        _toy_shared["v"] = t
        out.append(_toy_shared["v"])
    return out


def scheduler_selftest(ctx: Ctx):
    """the scheduler must (a) find the lost update of a racy toy worker, (b) replay it from (seed, p)"""
    me = os.path.abspath(__file__)
    found = None
    for seed in range(40):
        _toy_shared["v"] = 0
        ex = SchedExecutor(seed, 0.5, prefixes=(me,))
        list(ex.map(_toy_racy, ["c"] * 3, [[1, 2], [4, 8], [16, 32]]))
        if _toy_shared["v"] != 63:
            found = (seed, _toy_shared["v"], ex.points, ex.switches)
            break
    if found is None:
        raise InfraError("scheduler self-test: no interleaving of the racy toy worker lost an update in 40 schedules")
    _toy_shared["v"] = 0
    ex = SchedExecutor(found[0], 0.5, prefixes=(me,))
    list(ex.map(_toy_racy, ["c"] * 3, [[1, 2], [4, 8], [16, 32]]))
    if _toy_shared["v"] != found[1]:
        raise InfraError("scheduler self-test: schedule not reproducible from its seed")
    ctx.extra["scheduler_selftest"] = {"seed": found[0], "lost_update_total": found[1], "yield_points": found[2], "switches": found[3]}


def k5_schedules(ctx: Ctx, eps, budget_s, targets=None):
    """sampled interleavings of every thread-capable entry point; all must equal the sequential result"""
    rng = ctx.rng
    t0 = time.time()
    names = list(eps)
    runs = 0
    pool = []
    if targets:
        pool = [(n, b, c) for n, b, c in targets]
    i = 0
    while time.time() - t0 < budget_s:
        if targets:
            name, b, c = pool[i % len(pool)]
        else:
            name = names[i % len(names)]
            b, c = None, rng.randint(2, 4)
        i += 1
        ep = eps[name]
        if b is None:
            b = ep.gen(rng, rng.randint(c, 3 * c), i // len(names))
        (seq, _) = run_ep(ep, b, "none", c)
        for _ in range(3 if not targets else 12):
            spec = f"sched:{rng.randrange(10**9)}:{rng.choice([1.0, 0.7, 0.4, 0.15])}"
            cold = rng.random() < 0.7
            (conc, ex) = run_ep(ep, b, spec, c, cold=cold)
            runs += 1
            ctx.evaluations += 1
            ctx.count("sched_points", None, ex.points)
            ctx.count("sched_switches", None, ex.switches)
            ctx.count("sched_runs", name)
            if conc != seq:
                classify_and_report(ctx, ep, b, spec, c, seq, conc, None, batch_len(ep, b),
                                    {"yield_points": ex.points, "switches": ex.switches}, cold=cold)
                if targets:
                    return runs
                break
    return runs


def k5_preemptions(ctx: Ctx, eps, budget_s, exhaustive):
    """systematic one-preemption schedules of two tasks: task `first` is preempted at its k-th statement, the other
    task runs to completion, `first` resumes.  exhaustive=True enumerates every k (context bound 1) for every
    input-kind variant of every entry point."""
    rng = ctx.rng
    t0 = time.time()
    names = list(eps)
    rng.shuffle(names)
    total = 0
    for name in names:
        if time.time() - t0 > budget_s:
            ctx.notes.append(f"one-preemption exploration stopped by its time budget before {name}")
            break
        ep = eps[name]
        for variant in (range(ep.variants) if exhaustive else [rng.randrange(ep.variants)]):
            b = ep.gen(rng, rng.randint(2, 5), variant)
            (seq, _) = run_ep(ep, b, "none", 2)
            for first in (0, 1):
                (conc, ex) = run_ep(ep, b, f"preempt:{first}:1", 2, cold=True)
                npts = ex.first_points if isinstance(ex, SchedExecutor) else 0
                ks = list(range(1, npts + 1))
                if not exhaustive and len(ks) > 6:
                    ks = sorted(rng.sample(ks, 6))
                for k in ks:
                    cold = k % 3 != 0
                    spec = f"preempt:{first}:{k}"
                    (conc, ex) = run_ep(ep, b, spec, 2, cold=cold)
                    total += 1
                    ctx.evaluations += 1
                    ctx.count("preempt_runs", name)
                    if conc != seq:
                        classify_and_report(ctx, ep, b, spec, 2, seq, conc, None, batch_len(ep, b),
                                            {"preempted_task": first, "at_statement": k, "of": npts}, cold=cold)
                        break
    return total


# ---------------------------------------------------------------------------
# census
# ---------------------------------------------------------------------------
class CallSpy:
    """records which static call sites of execute_concurrently are exercised"""

    def __init__(self):
        self.hits = set()
        self._undo = []

    def __enter__(self):
        import importlib

        for rel in c11gen.ANCHORS[1:]:
            modname = rel[len("packages/"):].split("/", 1)[1][:-3].replace("/", ".")
            if modname.endswith(".__init__"):
                modname = modname[: -len(".__init__")]
            mod = importlib.import_module(modname)
            real = mod.execute_concurrently
            spy = self

            def wrapped(*a, _real=real, _rel=rel, **kw):
                f = sys._getframe(1)
                spy.hits.add((_rel, f.f_lineno))
                return _real(*a, **kw)

            mod.execute_concurrently = wrapped
            self._undo.append((mod, real))
        return self

    def __exit__(self, *a):
        for mod, real in self._undo:
            mod.execute_concurrently = real


def census_check(ctx: Ctx, spy: CallSpy, sites):
    missed = []
    for s in sites:
        if not any(rel == s["file"] and s["lineno"] <= ln <= s["end_lineno"] for rel, ln in spy.hits):
            missed.append(f"{s['file']}:{s['lineno']} in {s['function']}")
    ctx.extra["call_sites"] = {"static": len(sites), "exercised": len(sites) - len(missed)}
    if missed:
        ctx.failed_obligations.append({"obligation": "translator.entry_count",
                                       "error": f"execute_concurrently call sites not exercised by any catalogue entry: {missed}"})


# ---------------------------------------------------------------------------
# findings of the unchanged tree: replayed on the real code on every run
# ---------------------------------------------------------------------------
def replay_findings(ctx: Ctx, eps):
    from quri_parts.core.utils.concurrent import execute_concurrently

    rng = random.Random("C11-findings")
    # F-a (Props.C11.nonpositive_concurrency_witness): executor given, concurrency = 0
    def outcome(ex):
        try:
            return list(execute_concurrently(lambda k, l: [x + k for x in l], 10, [1, 2, 3], ex, 0))
        except Exception as e:  # noqa: BLE001
            return "raises:" + type(e).__name__

    out, seq = outcome(InlineExecutor("fwd")), outcome(None)
    if out != seq:
        ctx.witness(K_NONPOS, "execute_concurrently(fn, 10, [1,2,3], executor, concurrency=0) returns [] — every input dropped, no exception",
                    {"fn": "lambda k, l: [x + k for x in l]", "common": 10, "inputs": [1, 2, 3], "concurrency": 0},
                    {"concurrent": out, "sequential": seq})
    # F-b.. (Props.C11.unshippable_process_witness): process pool
    cases = [
        ("qulacs.dm:paired", {}), ("qulacs.dm:ops-state", {}), ("qulacs.dm.parametric", {"kind": "unbound"}),
        ("sampler.dm", {}), ("overlap.weighted_sum", {}),
        ("qulacs.vector:op-states", {"compiled": True}), ("qulacs.vector.parametric", {"kind": "linear"}),
    ]
    plan = []
    for name, opt in cases:
        ep = eps[name]
        for _ in range(50):
            b = ep.gen(rng, 3)
            if opt.get("compiled") and not any(s.get("compiled") for s in b["states"]):
                continue
            if "kind" in opt and (b["pstate"]["kind"] != opt["kind"] or b["pstate"]["compiled"]):
                continue
            if name.startswith("qulacs.dm") and "states" in b and any(s.get("compiled") for s in b["states"]):
                continue
            break
        plan.append((name, b, "procs:2", 2))
    k2_cases(ctx, eps, plan)


# ---------------------------------------------------------------------------
# corpus / replay
# ---------------------------------------------------------------------------
def corpus_plan():
    d = os.path.join(VERIF, "corpus", "C11")
    chunk, plan = [], []
    if os.path.isdir(d):
        for f in sorted(os.listdir(d)):
            if not f.endswith(".json"):
                continue
            for item in json.load(open(os.path.join(d, f))):
                if item.get("kind") == "chunks":
                    chunk.append((item["n"], item["c"]))
                elif item.get("kind") == "entry":
                    plan.append((item["entry_point"], item["batch"], item["executor"], item["concurrency"], item.get("cold_cache")))
    return chunk, plan


def plan_from_replay(path):
    r = json.load(open(path))
    plan, chunk = [], []
    for w in r.get("witnesses", []) + [{"input": d.get("input")} for d in r.get("disagreements", [])]:
        inp = w.get("input") or {}
        if "entry_point" in inp and "batch" in inp:
            plan.append((inp["entry_point"], inp["batch"], inp.get("executor", "inline:fwd"), inp.get("concurrency", 2), inp.get("cold_cache")))
        elif "n" in inp:
            chunk.append((inp["n"], inp.get("concurrency", inp.get("c", 2))))
    return chunk, plan


def finish(ctx: Ctx) -> int:
    keys = ctx.extra.setdefault("witness_keys", {})
    for w in ctx.witnesses:
        keys.setdefault(w["key"], 1)
    # one witness per key is enough in the replay file; keep the first of each key in front
    seen, front, rest = set(), [], []
    for w in ctx.witnesses:
        (front if w["key"] not in seen else rest).append(w)
        seen.add(w["key"])
    ctx.witnesses = front + rest
    return ctx.finish()


# ---------------------------------------------------------------------------
def run(ctx: Ctx, replay=None) -> int:
    ctx.rule = ("cases = (n, concurrency) chunking instances, (entry point, batch, executor, concurrency) runs, worker "
                "homomorphism splits and audited traces; distinct_nontrivial counts distinct canonical cases with n>=2 and "
                "concurrency>=2 (chunking: n>=1, c>=2); sampled schedules are counted in evaluations only")
    ctx.trusted = TRUSTED
    ctx.assumptions = [
        "statement-granular atomicity (GIL); C-level races inside Qulacs/NumPy/stim are outside the model",
        "results compared as exact integers: inputs are computational-basis circuits, Pauli operators with integer "
        "coefficients, rotation angles in multiples of pi (rounding distance < 1e-6 asserted)",
        "process pools use the platform start method (fork)",
    ]
    deep = [] if ctx.quick() else LEAN_TARGETS_THOROUGH
    ok = ctx.prove(LEAN_TARGETS + deep, ["QuriVerif.Props.C11"] + deep)
    if ok:
        names = [f"QV.Props.C11.{n}" for _, n, _ in ctx.count_obligations(["QuriVerif.Props.C11"])]
        names += [f"QV.Props.C11Deep.{n}" for _, n, _ in ctx.count_obligations(deep)]
        ctx.audit(names, ["QuriVerif.Props.C11"] + deep)
    with ctx.timed("translate"):
        sites, workers = c11gen.census(read_repo)
        ctx.generated_entries = len(sites) + len(workers)
        ctx.extra["workers"] = {k: f"{v['shape']}{' nested' if v['nested'] else ''}" for k, v in workers.items()}
    eps = all_eps()
    cchunk, cplan = corpus_plan()
    if replay:
        rchunk, rplan = plan_from_replay(replay)
        with ctx.timed("replay"):
            k1_chunking(ctx, extra=rchunk)
            k2_cases(ctx, eps, rplan)
        return finish(ctx)
    spy = CallSpy()
    with spy:
        with ctx.timed("findings_replay"):
            replay_findings(ctx, eps)
        with ctx.timed("k1_chunking"):
            k1_chunking(ctx, extra=cchunk)
        with ctx.timed("k2_entry_points"):
            scheduler_selftest(ctx)
            k2_cases(ctx, eps, cplan + k2_plan(ctx, eps))
        with ctx.timed("k3_homomorphism"):
            k3_homomorphism(ctx, eps)
        with ctx.timed("k4_audit"):
            bad = k4_audit(ctx, eps)
        broken = bool(ctx.failed_obligations or ctx.disagreements)
        with ctx.timed("k5_schedules"):
            budget = ctx.n(12, 240) * (3 if broken else 1)
            ctx.search_budget_s = budget
            if bad:
                k5_schedules(ctx, eps, budget * 0.5, targets=bad)
                k5_schedules(ctx, eps, budget * 0.25)
            else:
                k5_schedules(ctx, eps, budget * 0.6)
            ctx.extra["one_preemption_runs"] = k5_preemptions(ctx, eps, budget * (0.25 if bad else 0.4) + (0 if ctx.quick() else 120),
                                                              exhaustive=not ctx.quick())
    census_check(ctx, spy, sites)
    return finish(ctx)
