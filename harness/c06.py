"""C06 — Clifford conjugation of Pauli strings is exact."""
from __future__ import annotations

import itertools
import os
import sys

sys.path.insert(0, os.path.dirname(os.path.dirname(os.path.abspath(__file__))))

import c01  # noqa: E402
from common import Ctx  # noqa: E402
from translate import c06gen  # noqa: E402

CLIFF1 = ["X", "Y", "Z", "H", "S", "Sdag", "SqrtX", "SqrtXdag", "SqrtY", "SqrtYdag", "Identity"]
CLIFF2 = ["CNOT", "CZ", "SWAP"]
OTHER = ["T", "Tdag", "RX", "U3", "TOFFOLI", "Pauli", "PauliRotation"]
PH = {1: 0, 1j: 1, -1: 2, -1j: 3}


def gen(ctx: Ctx):
    with ctx.timed("translate"):
        txt, n = c06gen.gen()
        ctx.write_generated("C06Tables", txt)
        ctx.generated_entries += n


def make_gate(kind, qs, rng):
    from quri_parts.circuit import gates

    if kind in CLIFF1 or kind in ("T", "Tdag"):
        return getattr(gates, kind)(qs[0]), [], [qs[0]]
    if kind in ("CNOT", "CZ"):
        return getattr(gates, kind)(qs[0], qs[1]), [qs[0]], [qs[1]]
    if kind == "SWAP":
        return gates.SWAP(qs[0], qs[1]), [], [qs[0], qs[1]]
    if kind == "RX":
        return gates.RX(qs[0], 0.3), [], [qs[0]]
    if kind == "U3":
        return gates.U3(qs[0], 0.3, 0.1, 0.2), [], [qs[0]]
    if kind == "TOFFOLI":
        return gates.TOFFOLI(qs[0], qs[1], qs[2]), [qs[0], qs[1]], [qs[2]]
    if kind == "Pauli":
        return gates.Pauli([qs[0], qs[1]], [1, 3]), [], [qs[0], qs[1]]
    if kind == "PauliRotation":
        return gates.PauliRotation([qs[0], qs[1]], [1, 3], 0.4), [], [qs[0], qs[1]]
    raise KeyError(kind)


def phase_exp(z):
    z = complex(z)
    for k, v in PH.items():
        if abs(z - k) < 1e-12:
            return v
    return f"nonunit:{z}"


def one_case(ctx, kind, qs, pairs, reqs, metas):
    from quri_parts.core.operator import PauliLabel
    from quri_parts.core.operator.conjugation import clifford_gate_conjugation

    gate, cl, tl = make_gate(kind, qs, ctx.rng)
    label = PauliLabel(pairs)
    order = [(int(i), int(p)) for i, p in label]  # the real iteration order
    try:
        res, coef = clifford_gate_conjugation(gate, label)
        real = ("ok", sorted((int(i), int(p)) for i, p in res), phase_exp(coef))
    except Exception as e:  # noqa: BLE001
        real = ("err", type(e).__name__, None)
    f = lambda xs: ",".join(map(str, xs)) if xs else "-"
    reqs.append(f"c06conj {kind} {f(cl)} {f(tl)} | " + ",".join(f"{i}:{p}" for i, p in order))
    metas.append((kind, cl, tl, order, real, gate, label))


def compare(ctx, reqs, metas):
    resp = ctx.driver(reqs)
    for (kind, cl, tl, order, real, gate, label), r in zip(metas, resp):
        key = (kind, tuple(cl), tuple(tl), tuple(sorted(order)))
        acted = sum(1 for i, _ in order if i in cl + tl)
        ctx.case(key, nontrivial=bool(order), sample={"gate": kind, "controls": cl, "targets": tl, "label": order, "model": r})
        ctx.traces += 1
        ctx.count("kind", kind)
        ctx.count("acted_factors", str(acted))
        if real[0] == "err":
            ctx.count("outcome", real[1])
            if r != real[1]:
                ctx.disagree("clifford_conj", {"gate": kind, "controls": cl, "targets": tl, "label": order}, real[1], r)
            continue
        ctx.count("outcome", "ok")
        if not r.startswith("ok"):
            ctx.disagree("clifford_conj", {"gate": kind, "controls": cl, "targets": tl, "label": order}, real, r)
            continue
        lab_s, ph_s = [x.strip() for x in r[3:].split("|")]
        mlab = sorted(tuple(int(v) for v in t.split(":")) for t in lab_s.split(",")) if lab_s else []
        if mlab != [tuple(x) for x in real[1]] or str(real[2]) != ph_s:
            ctx.disagree("clifford_conj", {"gate": kind, "controls": cl, "targets": tl, "label": order}, real, r)


def correspond(ctx: Ctx):
    rng = ctx.rng
    reqs, metas = [], []
    N = ctx.n(400, 6000)
    for _ in range(N):
        kind = rng.choice(CLIFF1 + CLIFF2 * 4 + (OTHER if rng.random() < 0.15 else []))
        maxq = rng.choice([3, 6, 70])
        qs = rng.sample(range(maxq), 3)
        k = rng.randint(0, min(maxq, 6))
        idx = rng.sample(range(maxq), k)
        # bias towards labels touching the gate qubits
        for q in qs[:2]:
            if rng.random() < 0.6 and q not in idx:
                idx.append(q)
        pairs = [(i, rng.randint(1, 3)) for i in idx]
        rng.shuffle(pairs)
        one_case(ctx, kind, qs, pairs, reqs, metas)
    if not ctx.quick():
        # exhaustive: all strings on ≤ 3 qubits × kinds × placements
        for n in (1, 2, 3):
            for ids in itertools.product(range(4), repeat=n):
                pairs = [(i, p) for i, p in enumerate(ids) if p]
                for kind in CLIFF1:
                    for q in range(n):
                        one_case(ctx, kind, [q, (q + 1) % 3, (q + 2) % 3], pairs, reqs, metas)
                if n >= 2:
                    for kind in CLIFF2:
                        for a, b in itertools.permutations(range(n), 2):
                            one_case(ctx, kind, [a, b, 3], pairs, reqs, metas)
        ctx.extra["exhaustive"] = "all Pauli strings on ≤3 qubits × all gate kinds × all placements"
    compare(ctx, reqs, metas)


def validate(ctx: Ctx, budget_s: float):
    """U P U† = c P' with c = ±1 on the real code, dense matrices, n ≤ 5"""
    import time

    import numpy as np

    from oracle import dense
    from quri_parts.core.operator import PauliLabel
    from quri_parts.core.operator.conjugation import clifford_gate_conjugation

    rng = ctx.rng
    t0 = time.time()
    n_eval = 0

    def pmat(n, pairs):
        m = np.eye(1 << n, dtype=complex)
        for i, p in pairs:
            m = dense.embed(n, [i], dense.PAULI[p]) @ m
        return m

    while time.time() - t0 < budget_s:
        n = rng.randint(2, 5)
        kind = rng.choice(CLIFF1 + CLIFF2 * 3)
        qs = rng.sample(range(n), 2) + [0]
        gate, cl, tl = make_gate(kind, qs, rng)
        idx = rng.sample(range(n), rng.randint(0, n))
        pairs = [(i, rng.randint(1, 3)) for i in idx]
        n_eval += 1
        try:
            res, coef = clifford_gate_conjugation(gate, PauliLabel(pairs))
        except Exception as e:  # noqa: BLE001
            ctx.witness("conj-raises:" + kind, f"Clifford gate {kind} rejected: {type(e).__name__}", {"gate": kind, "qubits": qs, "label": pairs})
            continue
        u = dense.gate_unitary(n, gate)
        lhs = u @ pmat(n, pairs) @ u.conj().T
        rhs = complex(coef) * pmat(n, [(int(i), int(p)) for i, p in res])
        d = float(np.max(np.abs(lhs - rhs)))
        if d > 1e-9 or phase_exp(coef) not in (0, 2):
            ctx.witness("conj:" + kind, f"U P U† differs from c·P' by {d:.3g} (c={coef})",
                        {"gate": kind, "controls": cl, "targets": tl, "n": n, "label": pairs, "returned": [sorted((int(i), int(p)) for i, p in res), str(coef)]})
    for kind in OTHER:
        gate, cl, tl = make_gate(kind, [0, 1, 2], rng)
        n_eval += 1
        try:
            clifford_gate_conjugation(gate, PauliLabel([(0, 1)]))
            ctx.witness("non-clifford-accepted:" + kind, f"{kind} was not rejected", {"gate": kind})
        except (ValueError, NotImplementedError):
            pass
        except Exception as e:  # noqa: BLE001
            ctx.witness("non-clifford-accepted:" + kind, f"{kind}: unexpected {type(e).__name__}", {"gate": kind})
    ctx.evaluations += n_eval
    ctx.extra["oracle_validation"] = {"evaluations": n_eval}
    ctx.search_budget_s = budget_s


def run(ctx: Ctx, replay=None) -> int:
    ctx.rule = ("cases = (gate kind, placement, Pauli label in the real iteration order); real clifford_gate_conjugation vs Lean model "
                "(result label as a set, coefficient as a power of i); distinct = distinct (kind, placement, label); non-trivial = non-empty label")
    ctx.trusted = c01.TRUSTED[:4] + [
        "tensor-product lifting (a gate on W conjugates P_W ⊗ P_rest factor-wise) is the standard fact not formalised; the two structural theorems spectators_unchanged / acted_local reduce every label to its restriction to W, which is kernel-checked exhaustively",
    ]
    ctx.assumptions = ["labels are valid (one Pauli per index)", "gate qubits are distinct"]
    gen(ctx)
    ok = ctx.prove(["QuriVerif.Props.C06", "QuriVerif.Driver.All"], ["QuriVerif.Props.C06", "QuriVerif.Generated.C06Tables"])
    if ok:
        names = [f"QV.Props.C06.{n}" for _, n, _ in ctx.count_obligations(["QuriVerif.Props.C06"])]
        ctx.audit(names + ["QV.C06.spectators_unchanged", "QV.C06.acted_local"], ["QuriVerif.Props.C06"])
        with ctx.timed("correspond"):
            correspond(ctx)
    with ctx.timed("oracle_validation"):
        budget = (8 if ctx.quick() else 90) * (1 if ok and not ctx.disagreements else 3)
        validate(ctx, budget)
    return ctx.finish()
