"""C06 — Clifford conjugation of Pauli strings is exact."""
from __future__ import annotations

import itertools
import os
import sys

sys.path.insert(0, os.path.dirname(os.path.dirname(os.path.abspath(__file__))))

import c01  # noqa: E402
from common import Ctx  # noqa: E402

LEAN_TARGETS = ["QuriVerif.Props.C06", "QuriVerif.Props.C06Lift", "QuriVerif.Driver.C06"]
from translate import c06gen  # noqa: E402

CLIFF1 = ["X", "Y", "Z", "H", "S", "Sdag", "SqrtX", "SqrtXdag", "SqrtY", "SqrtYdag", "Identity"]
CLIFF2 = ["CNOT", "CZ", "SWAP"]
OTHER = ["T", "Tdag", "RX", "U3", "TOFFOLI", "Pauli", "PauliRotation"]
# every other gate the library can build that must be rejected (not in CLIFFORD_GATE_NAMES, or the multi-qubit Pauli gate)
OTHER2 = ["RY", "RZ", "U1", "U2", "UnitaryMatrix", "SingleQubitUnitaryMatrix", "TwoQubitUnitaryMatrix", "Pauli1",
          "ParametricRX", "ParametricRY", "ParametricRZ", "ParametricPauliRotation", "Measurement", "Bogus"]
PH = {1: 0, 1j: 1, -1: 2, -1j: 3}
GATE_FORMS = ["factory", "kwargs", "raw", "raw_list", "circuit", "inverse2"]
LABEL_FORMS = ["list", "set", "enum", "str", "from_lists", "numpy", "items", "provider"]
# qubit indices around the word-size boundaries (gate indices must fit the Rust usize)
EDGE = [30, 31, 32, 33, 62, 63, 64, 65, 127, 128, 2**31 - 1, 2**31, 2**32 - 1, 2**32, 2**53 + 1, 2**63 - 1, 2**63, 2**64 - 1]
EDGE_LABEL_ONLY = [2**64, 2**64 + 1, 2**70 + 3]


def gen(ctx: Ctx):
    with ctx.timed("translate"):
        txt, n = c06gen.gen()
        ctx.write_generated("C06Tables", txt)
        ctx.generated_entries += n


def make_gate(kind, qs, rng):
    from quri_parts.circuit import gates

    if kind in CLIFF1 or kind in ("T", "Tdag"):
        return getattr(gates, kind)(qs[0]), [], [qs[0]]
    if kind in ("CNOT", "CZ"):
        return getattr(gates, kind)(qs[0], qs[1]), [qs[0]], [qs[1]]
    if kind == "SWAP":
        return gates.SWAP(qs[0], qs[1]), [], [qs[0], qs[1]]
    if kind == "RX":
        return gates.RX(qs[0], 0.3), [], [qs[0]]
    if kind == "U3":
        return gates.U3(qs[0], 0.3, 0.1, 0.2), [], [qs[0]]
    if kind == "TOFFOLI":
        return gates.TOFFOLI(qs[0], qs[1], qs[2]), [qs[0], qs[1]], [qs[2]]
    if kind == "Pauli":
        return gates.Pauli([qs[0], qs[1]], [1, 3]), [], [qs[0], qs[1]]
    if kind == "PauliRotation":
        return gates.PauliRotation([qs[0], qs[1]], [1, 3], 0.4), [], [qs[0], qs[1]]
    raise KeyError(kind)


def build_gate(kind, cl, tl, form):
    """a Clifford gate of the given kind/placement through one of the public construction routes; returns (gate, form used)"""
    import numpy as np

    from quri_parts.circuit import QuantumCircuit, QuantumGate, gates, inverse_gate

    try:
        if form == "kwargs":
            if kind in ("CNOT", "CZ"):
                return getattr(gates, kind)(control_index=cl[0], target_index=tl[0]), form
            if kind == "SWAP":
                return gates.SWAP(target_index1=tl[0], target_index2=tl[1]), form
            return getattr(gates, kind)(target_index=tl[0]), form
        if form == "raw":
            return QuantumGate(name=kind, target_indices=tuple(tl), control_indices=tuple(cl)), form
        if form == "raw_list":
            conv = lambda xs: [np.uint64(x) if x < 2**64 else x for x in xs]
            return QuantumGate(name=kind, target_indices=conv(tl), control_indices=conv(cl)), form
        if form == "circuit" and max(cl + tl) < 200:
            c = QuantumCircuit(max(cl + tl) + 1)
            c.add_gate(make_gate(kind, cl + tl, None)[0])
            return c.gates[-1], form
        if form == "inverse2":
            return inverse_gate(inverse_gate(make_gate(kind, cl + tl, None)[0])), form
    except Exception:  # noqa: BLE001  (a construction route that is unavailable is not a conjugation output)
        pass
    return make_gate(kind, cl + tl, None)[0], "factory"


def build_label(pairs, form):
    """the same Pauli string through the documented construction routes of PauliLabel; returns (label, form used)"""
    import numpy as np

    from quri_parts.core.operator import PauliLabel, SinglePauli, pauli_label

    try:
        if form == "set":
            return PauliLabel(set(pairs)), form
        if form == "enum":
            return pauli_label({(i, SinglePauli(p)) for i, p in pairs}), form
        if form == "str" and pairs:
            return pauli_label(" ".join("_XYZ"[p] + str(i) for i, p in pairs)), form
        if form == "from_lists":
            return PauliLabel.from_index_and_pauli_list([i for i, _ in pairs], [SinglePauli(p) for _, p in pairs]), form
        if form == "numpy" and all(i < 2**63 for i, _ in pairs):
            return PauliLabel([(np.int64(i), np.int64(p)) for i, p in pairs]), form
        if form == "items":
            return PauliLabel(dict(pairs).items()), form
        if form == "provider":
            class Prov:
                def get_index_list(self):
                    return [i for i, _ in pairs]

                def get_pauli_id_list(self):
                    return [p for _, p in pairs]

            return pauli_label(Prov()), form
    except Exception:  # noqa: BLE001
        pass
    return PauliLabel(list(pairs)), "list"


def make_other(kind, qs):
    """gates that must be rejected, beyond make_gate's list"""
    from quri_parts.circuit import QuantumGate, gates

    a, b = qs[0], qs[1]
    if kind in ("RY", "RZ", "U1"):
        return getattr(gates, kind)(a, 0.3)
    if kind == "U2":
        return gates.U2(a, 0.3, 0.2)
    if kind == "UnitaryMatrix":
        return gates.UnitaryMatrix([a], [[0, 1], [1, 0]])
    if kind == "SingleQubitUnitaryMatrix":
        return gates.SingleQubitUnitaryMatrix(a, [[1, 0], [0, 1j]])
    if kind == "TwoQubitUnitaryMatrix":
        return gates.TwoQubitUnitaryMatrix(a, b, [[1, 0, 0, 0], [0, 1, 0, 0], [0, 0, 0, 1], [0, 0, 1, 0]])
    if kind == "Pauli1":
        return gates.Pauli([a], [1])
    if kind in ("ParametricRX", "ParametricRY", "ParametricRZ"):
        return getattr(gates, kind)(a)
    if kind == "ParametricPauliRotation":
        return gates.ParametricPauliRotation([a, b], [1, 2])
    if kind == "Measurement":
        return gates.Measurement([a], [0])
    if kind == "Bogus":
        return QuantumGate(name="Bogus", target_indices=(a,))
    raise KeyError(kind)


def phase_exp(z):
    z = complex(z)
    for k, v in PH.items():
        if abs(z - k) < 1e-12:
            return v
    return f"nonunit:{z}"


MODEL_NAME = {"Pauli1": "Pauli"}


def call_real(gate, label):
    """one call of the real function, canonicalised: label as a sorted list, coefficient as a power of i, result type"""
    from quri_parts.core.operator.conjugation import clifford_gate_conjugation

    try:
        res, coef = clifford_gate_conjugation(gate, label)
        return ("ok", sorted((int(i), int(p)) for i, p in res), phase_exp(coef), type(res).__name__)
    except Exception as e:  # noqa: BLE001
        return ("err", type(e).__name__, None, None)


def submit(ctx, kind, cl, tl, gate, label, reqs, metas, tag="random"):
    order = [(int(i), int(p)) for i, p in label]  # the real iteration order
    real = call_real(gate, label)
    f = lambda xs: ",".join(map(str, xs)) if xs else "-"
    reqs.append(f"c06conj {MODEL_NAME.get(kind, kind)} {f(cl)} {f(tl)} | " + ",".join(f"{i}:{p}" for i, p in order))
    metas.append((kind, cl, tl, order, real, tag))


def one_case(ctx, kind, qs, pairs, reqs, metas, tag="random"):
    from quri_parts.core.operator import PauliLabel

    gate, cl, tl = make_gate(kind, qs, ctx.rng)
    submit(ctx, kind, cl, tl, gate, PauliLabel(pairs), reqs, metas, tag)


def compare(ctx, reqs, metas):
    resp = ctx.driver(reqs, entry="DriverC06.lean")
    for (kind, cl, tl, order, real, tag), r in zip(metas, resp):
        key = (kind, tuple(cl), tuple(tl), tuple(sorted(order)))
        acted = sum(1 for i, _ in order if i in cl + tl)
        inp = {"gate": kind, "controls": cl, "targets": tl, "label": order, "how": tag}
        ctx.case(key, nontrivial=bool(order), sample={"gate": kind, "controls": cl, "targets": tl, "label": order, "model": r})
        ctx.traces += 1
        ctx.count("kind", kind)
        ctx.count("acted_factors", str(acted))
        ctx.count("generator", tag.split(":")[0])
        if real[0] == "err":
            ctx.count("outcome", real[1])
            if r != real[1]:
                ctx.disagree("clifford_conj", inp, real[1], r)
            continue
        ctx.count("outcome", "ok")
        if not r.startswith("ok"):
            ctx.disagree("clifford_conj", inp, real, r)
            continue
        lab_s, ph_s = [x.strip() for x in r[3:].split("|")]
        mlab = sorted(tuple(int(v) for v in t.split(":")) for t in lab_s.split(",")) if lab_s else []
        if mlab != [tuple(x) for x in real[1]] or str(real[2]) != ph_s:
            ctx.disagree("clifford_conj", inp, real, r)
        elif real[3] != "PauliLabel":
            ctx.disagree("clifford_conj:result-type", inp, real[3], "PauliLabel")


def pick_index(rng, label_only=False):
    r = rng.random()
    if r < 0.45:
        return rng.choice(EDGE + (EDGE_LABEL_ONLY if label_only else []))
    if r < 0.7:
        return rng.randrange(0, 8)
    return rng.randrange(0, 2**64 if not label_only else 2**66)


def alias_of(rng, q):
    """an index that coincides with q after truncation to 32 / 64 bits or modulo the word size (a spectator, not q)"""
    return q + rng.choice([64, 2**32, 2**64, 2**31, 32]) if rng.random() < 0.7 or q < 64 else q % rng.choice([64, 2**32, 2**31])


def forms_cases(ctx, reqs, metas, n):
    """argument forms: every construction route of the gate and of the label, indices around 32/64-bit boundaries"""
    rng = ctx.rng
    for it in range(n):
        kind = rng.choice(CLIFF1 + CLIFF2 * 5)
        qs = []
        while len(qs) < 2:
            q = pick_index(rng)
            if q not in qs:
                qs.append(q)
        if rng.random() < 0.3:  # adjacent, either order
            qs[1] = qs[0] + rng.choice([1, -1]) if qs[0] > 0 else qs[0] + 1
            if qs[1] >= 2**64:
                qs[1] = qs[0] - 1
        idx = []
        for _ in range(rng.randint(0, 4)):
            q = pick_index(rng, label_only=True)
            if q not in idx:
                idx.append(q)
        for q in qs:
            if rng.random() < 0.7 and q not in idx:
                idx.append(q)
            if rng.random() < 0.3:
                al = alias_of(rng, q)
                if al not in idx and al not in qs:
                    idx.append(al)
        pairs = [(i, rng.randint(1, 3)) for i in idx]
        rng.shuffle(pairs)
        _, cl, tl = make_gate(kind, qs + [0], rng)
        gate, gform = build_gate(kind, cl, tl, GATE_FORMS[it % len(GATE_FORMS)] if it < 4 * len(GATE_FORMS) else rng.choice(GATE_FORMS))
        label, lform = build_label(pairs, LABEL_FORMS[it % len(LABEL_FORMS)] if it < 4 * len(LABEL_FORMS) else rng.choice(LABEL_FORMS))
        ctx.count("gate_form", gform)
        ctx.count("label_form", lform)
        submit(ctx, kind, cl, tl, gate, label, reqs, metas, f"forms:{gform}/{lform}")


def sibling_gates(rng, a, b, c):
    """gates that agree in all but one field: same targets / different control, swapped roles, same placement / other kind"""
    sib = []
    for k in ("CNOT", "CZ"):
        sib += [(k, [a, b]), (k, [b, a]), (k, [c, b]), (k, [a, c]), (k, [c, a]), (k, [b, c])]
    sib += [("SWAP", [a, b]), ("SWAP", [b, a]), ("SWAP", [a, c]), ("SWAP", [c, b])]
    for k in CLIFF1:
        sib += [(k, [a]), (k, [b])]
    return sib


def history_cases(ctx, reqs, metas, n_clusters, calls):
    """call sequences on the same gate / label objects: repeats, gates differing only in the control, in the order of their
    qubits or in the kind; every call is compared with the (stateless) model"""
    rng = ctx.rng
    for _ in range(n_clusters):
        base = rng.choice([0, 0, 3, 61, 2**32 - 2])
        a, b, c = [base + x for x in rng.sample(range(4), 3)]
        sib = sibling_gates(rng, a, b, c)
        pool = []
        k2 = rng.choice(["CNOT", "CZ"])
        # always present: same target / other control, swapped roles, same placement / other kind, SWAP both orders
        core = [(k2, [a, b]), (k2, [c, b]), (k2, [b, a]), ("CZ" if k2 == "CNOT" else "CNOT", [a, b]), ("SWAP", [a, b]), ("SWAP", [b, a])]
        for kind, qs in core + rng.sample(sib, 4):
            g, cl, tl = make_gate(kind, qs + [0, 0], rng)
            pool.append((kind, cl, tl, g))
        labels = []
        for _ in range(3):
            idx = [q for q in (a, b, c, base + 7) if rng.random() < 0.75]
            pairs = [(i, rng.randint(1, 3)) for i in idx]
            rng.shuffle(pairs)
            labels.append(build_label(pairs, "list")[0])
        prev = None
        for j in range(calls):
            if prev is not None and rng.random() < 0.25:
                kind, cl, tl, g = prev  # immediate repeat on the same objects
            else:
                kind, cl, tl, g = rng.choice(pool)
            if rng.random() < 0.3:  # an equal but distinct gate object
                g = build_gate(kind, cl, tl, "raw")[0]
            prev = (kind, cl, tl, g)
            submit(ctx, kind, cl, tl, g, rng.choice(labels) if j % 5 else labels[0], reqs, metas, "history")


def rejected_cases(ctx, reqs, metas):
    """every non-Clifford gate the library can build x labels that touch / miss the gate / are empty"""
    from quri_parts.core.operator import PauliLabel

    rng = ctx.rng
    for kind in OTHER + OTHER2:
        for pairs in ([], [(0, 3)], [(0, 1), (1, 2)], [(5, 2)], [(0, rng.randint(1, 3)), (2, rng.randint(1, 3)), (64, 1)]):
            try:
                gate = make_gate(kind, [0, 1, 2], rng)[0] if kind in OTHER else make_other(kind, [0, 1, 2])
            except Exception:  # noqa: BLE001
                ctx.count("gate_form", "unavailable:" + kind)
                continue
            submit(ctx, kind, [], [0], gate, PauliLabel(pairs), reqs, metas, "rejected")
    # any other gate kind with parameters at / beside the special values (multiples of π/2), labels missing or touching it
    for _ in range(ctx.n(60, 600)):
        try:
            kind, gate = any_gate(rng, rng.sample(range(5), 4))
            tl = [int(x) for x in gate.target_indices]
        except Exception:  # noqa: BLE001
            continue
        idx = rng.sample(range(7), rng.randint(0, 3))
        submit(ctx, kind, [], tl, gate, PauliLabel([(i, rng.randint(1, 3)) for i in idx]), reqs, metas, "rejected:special")


def shape_cases(ctx, reqs, metas):
    """the fall-through of the function: a gate object carrying a Clifford name but neither one nor two qubits (only
    constructible through the raw QuantumGate constructor). Outside the property's quantifier; compared with the model's
    transcription of that branch only (no oracle judgement)."""
    from quri_parts.circuit import QuantumGate
    from quri_parts.core.operator import PauliLabel

    rng = ctx.rng
    for kind in CLIFF1 + CLIFF2:
        for cl, tl in (([], []), ([], [0, 1, 2]), ([2], [0, 1]), ([0, 3], [1, 2])):
            try:
                gate = QuantumGate(name=kind, target_indices=tuple(tl), control_indices=tuple(cl))
            except Exception:  # noqa: BLE001
                continue
            pairs = [(i, rng.randint(1, 3)) for i in rng.sample(range(5), rng.randint(0, 3))]
            submit(ctx, kind, cl, tl, gate, PauliLabel(pairs), reqs, metas, "shape")


def long_cases(ctx, reqs, metas):
    """strings at the length thresholds against the model as well (every kind incl. Identity, gate qubit inside the string)"""
    from quri_parts.core.operator import PauliLabel

    rng = ctx.rng
    for L in ([63, 64, 65] if ctx.quick() else [31, 32, 33, 63, 64, 65, 127, 128, 129, 200, 256, 257]):
        for kind in CLIFF1 + CLIFF2:
            idx = long_layout(rng, L, rng.choice(["contiguous", "scattered", "huge"]))
            pairs = [(i, rng.randint(1, 3)) for i in idx]
            inside = [q for q in idx if q < 2**64]
            if len(inside) < 2:
                continue
            qs = rng.sample(inside, 2)
            if rng.random() < 0.3:
                qs[1] = max(i for i in idx if i < 2**64 - 1) + 1
            gate, cl, tl = make_gate(kind, qs + [0], rng)
            submit(ctx, kind, cl, tl, gate, PauliLabel(pairs), reqs, metas, "long")


def correspond(ctx: Ctx):
    rng = ctx.rng
    reqs, metas = [], []
    N = ctx.n(400, 6000)
    for _ in range(N):
        kind = rng.choice(CLIFF1 + CLIFF2 * 4 + (OTHER if rng.random() < 0.15 else []))
        maxq = rng.choice([3, 6, 70])
        qs = rng.sample(range(maxq), 3)
        k = rng.randint(0, min(maxq, 6))
        idx = rng.sample(range(maxq), k)
        # bias towards labels touching the gate qubits
        for q in qs[:2]:
            if rng.random() < 0.6 and q not in idx:
                idx.append(q)
        pairs = [(i, rng.randint(1, 3)) for i in idx]
        rng.shuffle(pairs)
        one_case(ctx, kind, qs, pairs, reqs, metas)
    forms_cases(ctx, reqs, metas, ctx.n(300, 3000))
    history_cases(ctx, reqs, metas, ctx.n(12, 120), ctx.n(40, 60))
    rejected_cases(ctx, reqs, metas)
    shape_cases(ctx, reqs, metas)
    long_cases(ctx, reqs, metas)
    if not ctx.quick():
        # exhaustive: all strings on ≤ 3 qubits × kinds × placements
        for n in (1, 2, 3):
            for ids in itertools.product(range(4), repeat=n):
                pairs = [(i, p) for i, p in enumerate(ids) if p]
                for kind in CLIFF1:
                    for q in range(n):
                        one_case(ctx, kind, [q, (q + 1) % 3, (q + 2) % 3], pairs, reqs, metas, "exhaustive")
                if n >= 2:
                    for kind in CLIFF2:
                        for a, b in itertools.permutations(range(n), 2):
                            one_case(ctx, kind, [a, b, 3], pairs, reqs, metas, "exhaustive")
        ctx.extra["exhaustive_domain"] = "all Pauli strings on ≤3 qubits × all gate kinds × all placements"
    compare(ctx, reqs, metas)


def judge(ctx, kind, cl, tl, pairs, gate, label, how, prev=None):
    """Independent judgement of ONE call on the real code, for indices of any size: the qubits that occur (gate, label,
    result) are relabelled monotonically to 0..m-1 and U P U† = c P' is checked with dense matrices, U built from
    (kind, placement) by the oracle, not from the gate object handed to the code."""
    import numpy as np

    from oracle import dense
    from quri_parts.core.operator.conjugation import clifford_gate_conjugation

    inp = {"gate": kind, "controls": cl, "targets": tl, "label": pairs, "how": how}
    if prev is not None:
        inp["previous_call_same_label"] = prev
    try:
        res, coef = clifford_gate_conjugation(gate, label)
    except Exception as e:  # noqa: BLE001
        ctx.witness("conj-raises:" + kind, f"Clifford gate {kind} rejected: {type(e).__name__}", inp)
        return
    try:
        out = sorted((int(i), int(p)) for i, p in res)
        c = complex(coef)
    except Exception as e:  # noqa: BLE001
        ctx.witness("conj:" + kind, f"result is not a (Pauli label, number) pair: {type(e).__name__}", inp, repr((res, coef))[:200])
        return
    inp = dict(inp, returned=[out, str(coef)])
    acted = set(cl + tl)
    support = {i for i, _ in pairs}
    if len({i for i, _ in out}) != len(out) or any(p not in (1, 2, 3) for _, p in out):
        ctx.witness("conj:" + kind, "returned label is not a Pauli string (repeated index or id outside 1..3)", inp)
        return
    if any(i not in acted | support for i, _ in out):
        ctx.witness("conj:" + kind, "returned label acts on a qubit that neither the gate nor P touches", inp)
        return
    if c not in (1, -1):
        ctx.witness("conj:" + kind, f"coefficient {coef!r} is not +1 or -1", inp)
        return
    if kind == "Identity":
        acted = set()
    qubits = sorted(acted | support)
    pos = {q: j for j, q in enumerate(qubits)}
    n = max(1, len(qubits))
    if n > 7:
        return

    def pmat(ps):
        m = np.eye(1 << n, dtype=complex)
        for i, p in ps:
            m = dense.embed(n, [pos[i]], dense.PAULI[p]) @ m
        return m

    if kind == "Identity":
        u = np.eye(1 << n, dtype=complex)
    else:
        local = dense.local_matrix(kind, (), (), None)
        u = dense.embed(n, [pos[q] for q in cl + tl], local)
    d = float(np.max(np.abs(u @ pmat(pairs) @ u.conj().T - c * pmat(out))))
    if d > 1e-9:
        ctx.witness("conj:" + kind, f"U P U† differs from c·P' by {d:.3g} (c={coef})", inp)


def validate_forms(ctx: Ctx, budget_s: float) -> int:
    """oracle judgement over the argument forms / index ranges / call histories the dense n ≤ 5 search cannot reach"""
    import time

    from quri_parts.core.operator.conjugation import clifford_gate_conjugation

    rng = ctx.rng
    t0 = time.time()
    n_eval = 0
    it = 0
    while time.time() - t0 < budget_s:
        it += 1
        # a cluster: one label object (any construction route, any index range) against sibling gates, with repeats
        if rng.random() < 0.5:
            base = rng.choice([0, 0, 1, 29, 30, 61, 62, 2**31 - 2, 2**32 - 2, 2**63 - 2, 2**64 - 4])
            a, b, c = [base + x for x in rng.sample(range(4), 3)]
        else:
            qs = []
            while len(qs) < 3:
                q = pick_index(rng)
                if q not in qs:
                    qs.append(q)
            a, b, c = qs
        idx = [q for q in (a, b, c) if rng.random() < 0.7]
        for _ in range(rng.randint(0, 2)):
            q = pick_index(rng, label_only=True) if rng.random() < 0.5 else alias_of(rng, rng.choice((a, b, c)))
            if q not in idx and q not in (a, b, c):
                idx.append(q)
        pairs = [(i, rng.randint(1, 3)) for i in idx]
        rng.shuffle(pairs)
        label, lform = build_label(pairs, LABEL_FORMS[it % len(LABEL_FORMS)])
        seq = rng.sample(sibling_gates(rng, a, b, c), 5)
        seq = seq + [seq[0], rng.choice(seq)]  # a repeat after other calls
        prev = None
        for j, (kind, qs) in enumerate(seq):
            _, cl, tl = make_gate(kind, qs + [0, 0], rng)
            gate, gform = build_gate(kind, cl, tl, GATE_FORMS[(it + j) % len(GATE_FORMS)])
            n_eval += 1
            judge(ctx, kind, cl, tl, pairs, gate, label, f"{gform}/{lform}/call{j}", prev)
            prev = {"gate": kind, "controls": cl, "targets": tl}
    # rejection, every non-Clifford gate the library can build, whatever the label
    from quri_parts.core.operator import PauliLabel

    for kind in OTHER2:
        if kind == "Pauli1":
            continue  # a Clifford gate; its rejection (NotImplementedError) is documented, not required by the property
        for pairs in ([], [(0, 1)], [(0, 3)], [(7, 2)], [(0, 2), (1, 3), (64, 1)]):
            try:
                gate = make_other(kind, [0, 1, 2])
            except Exception:  # noqa: BLE001
                continue
            n_eval += 1
            try:
                clifford_gate_conjugation(gate, PauliLabel(pairs))
                ctx.witness("non-clifford-accepted:" + kind, f"{kind} was not rejected", {"gate": kind, "label": pairs})
            except (ValueError, NotImplementedError):
                pass
            except Exception as e:  # noqa: BLE001
                ctx.witness("non-clifford-accepted:" + kind, f"{kind}: unexpected {type(e).__name__}", {"gate": kind, "label": pairs})
    for kind in OTHER:
        for pairs in ([], [(0, 3)], [(7, 2)]):
            gate = make_gate(kind, [0, 1, 2], rng)[0]
            n_eval += 1
            try:
                clifford_gate_conjugation(gate, PauliLabel(pairs))
                ctx.witness("non-clifford-accepted:" + kind, f"{kind} was not rejected", {"gate": kind, "label": pairs})
            except (ValueError, NotImplementedError):
                pass
            except Exception as e:  # noqa: BLE001
                ctx.witness("non-clifford-accepted:" + kind, f"{kind}: unexpected {type(e).__name__}", {"gate": kind, "label": pairs})
    return n_eval


# ---- admission: "raises, or is exactly right" for gates of ANY kind --------------------------------------------
_PBASIS: dict = {}


def _pauli_basis(k):
    import numpy as np

    from oracle import dense

    if k not in _PBASIS:
        _PBASIS[k] = np.array([dense.pauli_matrix_local(ids) for ids in itertools.product(range(4), repeat=k)])
    return _PBASIS[k]


def clifford_defect(m):
    """max over the generators X_i, Z_i of the distance of m·G·m† from the nearest ±(Pauli string); 0 for a Clifford matrix"""
    import numpy as np

    from oracle import dense

    dim = m.shape[0]
    k = dim.bit_length() - 1
    basis = _pauli_basis(k)
    worst = 0.0
    for i in range(k):
        for pid in (1, 3):
            g = dense.pauli_matrix_local([pid if j == i else 0 for j in range(k)])
            a = m @ g @ m.conj().T
            coef = np.einsum("pij,ji->p", basis, a) / dim
            j = int(np.argmax(np.abs(coef)))
            sgn = 1.0 if coef[j].real >= 0 else -1.0
            worst = max(worst, float(np.max(np.abs(a - sgn * basis[j]))))
    return worst


def special_angle(rng):
    """angles at, just beside and far from the multiples of π/2 (the values any angle-based notion of 'Clifford' singles out),
    small and large multiples, both signs; offsets ≥ 1e-8 so that 'strictly not Clifford' is decidable in floating point"""
    import math

    r = rng.random()
    if r < 0.15:
        return rng.uniform(-7, 7)
    m = rng.choice([0, 0, 1, 1, 2, 3, 4, -1, -2, -3, 5, 6, 7, 8, 16, 101, 400, -400, 4000])
    d = rng.choice([0.0, 0.0, 0.0, 1e-8, -1e-8, 1e-7, -1e-7, 1e-6, -1e-6, 5e-6, 1.5e-5, -1.5e-5, 1e-4, -1e-3, 1e-2, 0.1]) * (1 if r < 0.8 else max(1, abs(m)))
    return m * math.pi / 2 + d


def any_gate(rng, qs):
    """(kind, gate) for a gate of any non-named-Clifford kind on (a prefix of) the qubits qs, parameters at special values"""
    import math

    import numpy as np

    from oracle import dense
    from quri_parts.circuit import gates

    kind = rng.choice(["RX", "RY", "RZ", "U1", "U2", "U3", "PauliRotation", "PauliRotation", "PauliRotation", "Pauli", "UnitaryMatrix", "TOFFOLI", "T", "Tdag"])
    a = qs[0]
    if kind in ("RX", "RY", "RZ", "U1"):
        return kind, getattr(gates, kind)(a, special_angle(rng))
    if kind == "U2":
        return kind, gates.U2(a, special_angle(rng), special_angle(rng))
    if kind == "U3":
        return kind, gates.U3(a, special_angle(rng), special_angle(rng), special_angle(rng))
    if kind in ("PauliRotation", "Pauli"):
        k = rng.randint(1, min(4, len(qs)))
        ids = [rng.randint(1, 3) for _ in range(k)]
        if kind == "Pauli":
            return kind, gates.Pauli(qs[:k], ids)
        return kind, gates.PauliRotation(qs[:k], ids, special_angle(rng))
    if kind == "UnitaryMatrix":
        k = rng.choice([1, 1, 2])
        if k == 1:
            m = dense.ONE[rng.choice(["H", "S", "X", "SqrtX", "T", "Identity"])]
            if rng.random() < 0.3:
                m = m @ dense.rz(rng.choice([1e-6, 1e-3, math.pi / 2]))
        else:
            m = dense.local_matrix(rng.choice(["CNOT", "CZ", "SWAP"]))
            if rng.random() < 0.3:
                m = m @ np.kron(dense.ONE["T"], dense.I2)
        return kind, gates.UnitaryMatrix(qs[:k], m.tolist())
    if kind == "TOFFOLI":
        return kind, gates.TOFFOLI(qs[0], qs[1], qs[2])
    return kind, getattr(gates, kind)(a)


def judge_any(ctx, kind, gate, pairs, label):
    """One call with a gate of any kind. The property leaves two outcomes: the call raises, or it returns (P', c) with c = ±1
    and U P U† = c P' exactly (U from the oracle's dense semantics of the gate, its actual parameters included) — and a gate
    whose unitary is strictly not Clifford must not be admitted at all."""
    import types

    import numpy as np

    from oracle import dense
    from quri_parts.core.operator.conjugation import clifford_gate_conjugation

    try:
        res, coef = clifford_gate_conjugation(gate, label)
    except Exception:  # noqa: BLE001  rejected
        return "raised"
    try:
        cl, tl = [int(x) for x in gate.control_indices], [int(x) for x in gate.target_indices]
        params = [float(x) for x in gate.params]
        pids = [int(x) for x in gate.pauli_ids]
        um = [list(r) for r in gate.unitary_matrix]
    except Exception:  # noqa: BLE001
        return "unreadable-gate"
    inp = {"gate": kind, "controls": cl, "targets": tl, "params": [repr(x) for x in params], "pauli_ids": pids, "label": pairs}
    if um:
        inp["unitary_matrix"] = repr(um)
    try:
        out = sorted((int(i), int(p)) for i, p in res)
        c = complex(coef)
    except Exception as e:  # noqa: BLE001
        ctx.witness("conj:" + kind, f"result is not a (Pauli label, number) pair: {type(e).__name__}", inp, repr((res, coef))[:200])
        return "returned"
    inp["returned"] = [out, str(coef)]
    try:
        local = dense.local_matrix(gate.name, tuple(params), tuple(pids), um or None)
    except Exception:  # noqa: BLE001  (no dense semantics for this gate: nothing to judge)
        return "returned"
    defect = clifford_defect(local)
    if defect > 1e-9:
        ctx.witness("non-clifford-accepted:" + kind,
                    f"{kind} with these parameters is not a Clifford gate (its conjugate of a Pauli generator is {defect:.3g} away from every ±Pauli string) but was not rejected",
                    inp)
        return "returned"
    wires = cl + tl
    if len({i for i, _ in out}) != len(out) or any(p not in (1, 2, 3) for _, p in out) or c not in (1, -1):
        ctx.witness("conj:" + kind, "returned pair is not (Pauli string, ±1)", inp)
        return "returned"
    qubits = sorted(set(wires) | {i for i, _ in pairs} | {i for i, _ in out})
    if len(qubits) > 8:
        return "returned"
    pos = {q: j for j, q in enumerate(qubits)}
    n = max(1, len(qubits))

    def pmat(ps):
        m = np.eye(1 << n, dtype=complex)
        for i, p in ps:
            m = dense.embed(n, [pos[i]], dense.PAULI[p]) @ m
        return m

    u = dense.embed(n, [pos[q] for q in wires], local)
    d = float(np.max(np.abs(u @ pmat(pairs) @ u.conj().T - c * pmat(out))))
    if d > 1e-9:
        ctx.witness("conj:" + kind, f"U P U† differs from c·P' by {d:.3g} (c={coef})", inp)
    return "returned"


def validate_admission(ctx: Ctx, n_cases: int) -> int:
    """gates of every other kind with parameters at / beside / far from the special values, × labels that touch, miss,
    partly overlap the gate or are empty; every call that returns is judged by the dense oracle"""
    from quri_parts.core.operator import PauliLabel

    rng = ctx.rng
    n_eval = 0
    for _ in range(n_cases):
        base = rng.choice([0, 0, 0, 2, 62])
        qs = [base + x for x in rng.sample(range(5), 4)]
        try:
            kind, gate = any_gate(rng, qs)
        except Exception:  # noqa: BLE001
            continue
        wires = [int(x) for x in [*gate.control_indices, *gate.target_indices]]
        spare = [q for q in range(base, base + 7) if q not in wires]
        for mode in ("miss", "touch", "mixed", "empty", "single"):
            if mode == "miss":
                idx = rng.sample(spare, rng.randint(1, 2))
            elif mode == "touch":
                idx = rng.sample(wires, rng.randint(1, len(wires)))
            elif mode == "mixed":
                idx = rng.sample(wires, rng.randint(1, len(wires))) + rng.sample(spare, 1)
            elif mode == "single":
                idx = [rng.choice(wires)]
            else:
                idx = []
            pairs = [(i, rng.randint(1, 3)) for i in idx]
            rng.shuffle(pairs)
            n_eval += 1
            ctx.count("admission", kind + ":" + judge_any(ctx, kind, gate, pairs, PauliLabel(pairs)))
    return n_eval


# ---- long strings: factor-wise oracle (no dense matrix of the whole string) -----------------------------------
LENGTHS = [1, 2, 31, 32, 33, 63, 64, 65, 127, 128, 129, 200, 255, 256, 257, 1000]
_IMAGES: dict = {}


def image_table():
    """(kind, ids on the gate's wires [controls then targets]) -> (ids of the image, sign), computed here from the oracle's
    dense 2x2 / 4x4 gate matrices (not from the library's tables): U·P_W·U† = sign·P'_W for every Pauli P_W on the wires"""
    import numpy as np

    from oracle import dense

    if _IMAGES:
        return _IMAGES
    for kind in CLIFF1 + CLIFF2:
        k = 1 if kind in CLIFF1 else 2
        u = dense.local_matrix(kind)
        basis = _pauli_basis(k)
        all_ids = list(itertools.product(range(4), repeat=k))
        for ids in all_ids:
            a = u @ dense.pauli_matrix_local(list(ids)) @ u.conj().T
            coef = np.einsum("pij,ji->p", basis, a) / (1 << k)
            j = int(np.argmax(np.abs(coef)))
            sgn = 1 if coef[j].real > 0 else -1
            if float(np.max(np.abs(a - sgn * basis[j]))) > 1e-12:
                raise RuntimeError(f"oracle: {kind} does not map {ids} to a signed Pauli string")
            _IMAGES[(kind, ids)] = (all_ids[j], sgn)
    return _IMAGES


def expected_factorwise(kind, cl, tl, pairs):
    """tensor-factor semantics: the gate acts on its wires only, so the image is (image of the restriction to the wires,
    from image_table) ⊗ (every other factor unchanged)"""
    wires = cl + tl
    d = dict(pairs)
    ids, sgn = image_table()[(kind, tuple(d.get(q, 0) for q in wires))]
    out = {i: p for i, p in pairs if i not in wires}
    for q, p in zip(wires, ids):
        if p:
            out[q] = p
    return sorted(out.items()), sgn


def judge_factorwise(ctx, kind, cl, tl, pairs, gate, label, how):
    from quri_parts.core.operator.conjugation import clifford_gate_conjugation

    wires = cl + tl
    inp = {"gate": kind, "controls": cl, "targets": tl, "n_factors": len(pairs), "layout": how,
           "label_on_gate_qubits": [(i, p) for i, p in pairs if i in wires], "label": sorted(pairs)}
    try:
        res, coef = clifford_gate_conjugation(gate, label)
    except Exception as e:  # noqa: BLE001
        ctx.witness("conj-raises:" + kind, f"Clifford gate {kind} rejected on a {len(pairs)}-factor string: {type(e).__name__}", inp)
        return
    try:
        out = sorted((int(i), int(p)) for i, p in res)
        c = complex(coef)
    except Exception as e:  # noqa: BLE001
        ctx.witness("conj:" + kind, f"result is not a (Pauli label, number) pair: {type(e).__name__}", inp)
        return
    exp, sgn = expected_factorwise(kind, cl, tl, pairs)
    if out != exp or c != sgn:
        eo, oo = dict(exp), dict(out)
        diff = sorted(q for q in set(eo) | set(oo) if eo.get(q, 0) != oo.get(q, 0))
        ctx.witness("conj:" + kind,
                    f"{len(pairs)}-factor string: U P U† = {sgn:+d}·P'' with {len(exp)} factors, returned c={coef} and {len(out)} factors; "
                    f"they differ on {len(diff)} qubits, first {diff[:5]} (expected {[eo.get(q, 0) for q in diff[:5]]}, returned {[oo.get(q, 0) for q in diff[:5]]})",
                    dict(inp, returned_n_factors=len(out), returned_on_gate_qubits=[(i, p) for i, p in out if i in wires], returned_coef=str(coef)))


def long_layout(rng, L, layout):
    """L distinct qubit indices and a pool of candidate gate qubits inside / outside them"""
    if layout == "contiguous":
        base = rng.choice([0, 0, 1, 2**32 - L // 2, 2**63 - L // 2])
        idx = list(range(base, base + L))
    elif layout == "scattered":
        idx = rng.sample(range(4 * L + 8), L)
    else:  # huge: anywhere below 2^64 plus a few beyond
        s = set()
        while len(s) < L:
            s.add(rng.randrange(0, 2**64) if rng.random() < 0.9 else rng.randrange(2**64, 2**70))
        idx = list(s)
    return idx


def validate_lengths(ctx: Ctx) -> int:
    """LENGTH thresholds: strings with 1 … 1000 factors × every supported gate kind incl. Identity × placements (both
    control/target orders; gate qubits inside, partly inside, outside the string), contiguous / scattered / huge indices"""
    from quri_parts.core.operator import PauliLabel

    rng = ctx.rng
    n_eval = 0
    if ctx.quick():
        # sparse: always the power-of-two neighbourhoods 63–65 and one rotating pick of each other band
        lengths = [rng.choice([1, 2]), rng.choice([31, 32, 33]), 63, 64, 65, rng.choice([127, 128, 129]), rng.choice([200, 255]), rng.choice([256, 257])]
        big = [(1000, k) for k in ["Identity", rng.choice(CLIFF1[:-1]), rng.choice(CLIFF2)]]
        reps = 1
    else:
        lengths = [x for x in LENGTHS if x < 1000]
        big = [(1000, k) for k in CLIFF1 + CLIFF2]
        reps = 3
    plan = [(L, k) for L in lengths for k in CLIFF1 + CLIFF2] * reps + big
    for it, (L, kind) in enumerate(plan):
        layout = ["contiguous", "scattered", "huge"][(it + L) % 3] if L < 1000 else rng.choice(["contiguous", "scattered"])
        idx = long_layout(rng, L, layout)
        pairs = [(i, rng.randint(1, 3)) for i in idx]
        rng.shuffle(pairs)
        outside = [q for q in (max(idx) + 1, max(idx) + 7, 0, 5) if q not in set(idx) and q < 2**64]
        inside = [q for q in rng.sample(idx, min(len(idx), 4)) if q < 2**64]
        modes = ["in", "out"] if kind in CLIFF1 else ["in-in", "in-in-rev", "in-out", "out-in", "out-out"]
        if ctx.quick() and L >= 200:
            modes = [rng.choice(modes)] if kind != "Identity" else modes
        try:
            label = PauliLabel(pairs)
        except Exception:  # noqa: BLE001
            continue
        for mode in modes:
            try:
                if kind in CLIFF1:
                    qs = [inside[0]] if mode == "in" else [outside[0]]
                elif mode in ("in-in", "in-in-rev"):
                    if len(inside) < 2:
                        continue
                    qs = sorted(inside[:2], reverse=(mode == "in-in-rev"))
                elif mode == "in-out":
                    qs = [inside[0], outside[0]]
                elif mode == "out-in":
                    qs = [outside[0], inside[0]]
                else:
                    qs = outside[:2]
                gate, cl, tl = make_gate(kind, qs + [0], rng)
            except Exception:  # noqa: BLE001
                continue
            n_eval += 1
            ctx.count("long_strings", f"L={L}")
            judge_factorwise(ctx, kind, cl, tl, pairs, gate, label, f"{layout}/{mode}")
    return n_eval


def validate(ctx: Ctx, budget_s: float):
    """U P U† = c P' with c = ±1 on the real code, dense matrices, n ≤ 5"""
    import time

    import numpy as np

    from oracle import dense
    from quri_parts.core.operator import PauliLabel
    from quri_parts.core.operator.conjugation import clifford_gate_conjugation

    rng = ctx.rng
    t0 = time.time()
    n_eval = 0

    def pmat(n, pairs):
        m = np.eye(1 << n, dtype=complex)
        for i, p in pairs:
            m = dense.embed(n, [i], dense.PAULI[p]) @ m
        return m

    while time.time() - t0 < budget_s * 0.5:
        n = rng.randint(2, 5)
        kind = rng.choice(CLIFF1 + CLIFF2 * 3)
        qs = rng.sample(range(n), 2) + [0]
        gate, cl, tl = make_gate(kind, qs, rng)
        idx = rng.sample(range(n), rng.randint(0, n))
        pairs = [(i, rng.randint(1, 3)) for i in idx]
        n_eval += 1
        try:
            res, coef = clifford_gate_conjugation(gate, PauliLabel(pairs))
        except Exception as e:  # noqa: BLE001
            ctx.witness("conj-raises:" + kind, f"Clifford gate {kind} rejected: {type(e).__name__}", {"gate": kind, "qubits": qs, "label": pairs})
            continue
        u = dense.gate_unitary(n, gate)
        lhs = u @ pmat(n, pairs) @ u.conj().T
        rhs = complex(coef) * pmat(n, [(int(i), int(p)) for i, p in res])
        d = float(np.max(np.abs(lhs - rhs)))
        if d > 1e-9 or phase_exp(coef) not in (0, 2):
            ctx.witness("conj:" + kind, f"U P U† differs from c·P' by {d:.3g} (c={coef})",
                        {"gate": kind, "controls": cl, "targets": tl, "n": n, "label": pairs, "returned": [sorted((int(i), int(p)) for i, p in res), str(coef)]})
    for kind in OTHER:
        gate, cl, tl = make_gate(kind, [0, 1, 2], rng)
        n_eval += 1
        try:
            clifford_gate_conjugation(gate, PauliLabel([(0, 1)]))
            ctx.witness("non-clifford-accepted:" + kind, f"{kind} was not rejected", {"gate": kind})
        except (ValueError, NotImplementedError):
            pass
        except Exception as e:  # noqa: BLE001
            ctx.witness("non-clifford-accepted:" + kind, f"{kind}: unexpected {type(e).__name__}", {"gate": kind})
    n_forms = validate_forms(ctx, budget_s * 0.5)
    n_adm = validate_admission(ctx, ctx.n(1500, 15000) * (1 if budget_s < 20 or not ctx.quick() else 3))
    with ctx.timed("long_strings"):
        n_long = validate_lengths(ctx)
    n_eval += n_forms + n_adm + n_long
    ctx.evaluations += n_eval
    ctx.extra["oracle_validation"] = {"evaluations": n_eval, "forms_histories_wide_indices": n_forms, "admission_any_gate_special_parameters": n_adm,
                                      "long_strings_factorwise": n_long}
    ctx.search_budget_s = budget_s


def run(ctx: Ctx, replay=None) -> int:
    ctx.rule = ("cases = (gate kind, placement, Pauli label in the real iteration order); real clifford_gate_conjugation vs Lean model "
                "(result label as a set, coefficient as a power of i); distinct = distinct (kind, placement, label); non-trivial = non-empty label")
    ctx.trusted = c01.TRUSTED[:4] + [
        "tensor-product lifting (a gate on W conjugates P_W ⊗ P_rest factor-wise) is the standard fact not formalised; the two structural theorems spectators_unchanged / acted_local reduce every label to its restriction to W, which is kernel-checked exhaustively",
    ]
    ctx.assumptions = ["labels are valid (one Pauli per index)", "gate qubits are distinct"]
    gen(ctx)
    ok = ctx.prove(["QuriVerif.Props.C06", "QuriVerif.Props.C06Lift", "QuriVerif.Driver.C06"],
                   ["QuriVerif.Props.C06", "QuriVerif.Props.C06Lift", "QuriVerif.Generated.C06Tables"])
    if ok:
        names = [f"QV.Props.C06.{n}" for _, n, _ in ctx.count_obligations(["QuriVerif.Props.C06"])]
        names += [f"QV.Props.C06Lift.{n}" for _, n, _ in ctx.count_obligations(["QuriVerif.Props.C06Lift"]) if n != "Covered.wf"]
        ctx.audit(names + ["QV.C06.spectators_unchanged", "QV.C06.acted_local"], ["QuriVerif.Props.C06", "QuriVerif.Props.C06Lift"])
        with ctx.timed("correspond"):
            correspond(ctx)
    with ctx.timed("oracle_validation"):
        budget = (8 if ctx.quick() else 90) * (1 if ok and not ctx.disagreements else 3)
        validate(ctx, budget)
    return ctx.finish()
