"""C10 — Binding, mapping and transpiling parametric circuits commute."""
from __future__ import annotations

import json
import math
import os
import sys
import time
from fractions import Fraction

sys.path.insert(0, os.path.dirname(os.path.dirname(os.path.abspath(__file__))))

from common import VERIF, Ctx, InfraError  # noqa: E402
from translate import c10gen  # noqa: E402

PROPS = "QuriVerif.Props.C10"
GENMOD = "QuriVerif.Generated.C10Tables"
ENTRY = "DriverC10.lean"
LEAN_TARGETS = [PROPS, "QuriVerif.Driver.C10"]
LEAN_TARGETS_THOROUGH = ["QuriVerif.Props.C10Deep"]

KEY_F6 = "combine-duplicates-shared-in-params"
F6_TEXT = ("LinearParameterMapping.combine concatenates in_params without de-duplication: for a circuit `sub` with one "
           "parameter x, `sub + sub` (or extend twice) has parameter_count 2 and in_params (x, x); bind_parameters([a, b]) "
           "silently uses b for every gate (dict(zip(in_params, params)) keeps the last value)")
# the witness history proved in Props/C10.lean (combine_shared_counterexample), replayed on the real code every run
F6_HISTORY = "newL:1 | addParams:0:1 | addPar:0:rx:0::P0.0 | plus:0:h0"

TRUSTED = [
    "Lean 4.33 kernel incl. `decide +kernel`; axioms audited ⊆ {propext, Classical.choice, Quot.sound}",
    "translator translate/c10gen.py: AST reader for the three rewriting parametric transpilers (branch → emitted gate "
    "sequence), AST-equality shape facts for ParametricTranspiler.__call__ / ParametricSequentialTranspiler / "
    "add_decomposed_gates / rot_gates / PauliRotationDecomposeTranspiler, token reader of the Rust "
    "bind_parameters_internal arms, digest catalogue of the transcribed Rust function bodies",
    "the installed quri_parts.rust 0.27 binary stands in for the working-tree Rust (cannot be rebuilt): correspondence runs "
    "exercise that binary; packages/rust/src/circuit/circuit_parametric.rs is tied by text only",
    "harness/c10.py interpreter of operation histories on the real objects + canonicalisation (parameter identities "
    "renamed by first appearance; floats converted exactly to fractions; ±π/2 constants recognised by float equality "
    "with the same expression the library evaluates)",
    "Found/Gate.lean restates the documented gate matrices (cross-checked against oracle/dense.py by C01)",
    "PhaseMonoid (Found/Proj.lean) is the abstract interface instantiated by unitaries modulo global phase; that `Template.check` "
    "(exact ring) implies proportionality of the complex operators for all angles is proved (Proof/MatSound, Props/Reflect, "
    "obligations of C01); instantiating PhaseMonoid itself by matrices modulo scalars is the unformalised step",
    "oracle/c10ref.py (reference semantics of parametric circuits) and oracle/dense.py (dense unitaries)",
]

ONE_Q = ["X", "Y", "Z", "H", "S", "Sdag", "SqrtX", "T", "Identity"]
BOUND = {"rx": "RX", "ry": "RY", "rz": "RZ", "prot": "PauliRotation"}
PNAME = {"ParametricRX": "rx", "ParametricRY": "ry", "ParametricRZ": "rz", "ParametricPauliRotation": "prot"}
HALF_PI = {q: q * math.pi / 2.0 for q in (-4, -3, -2, -1, 1, 2, 3, 4)}


# ---------------------------------------------------------------------------------------------
# op language (shared by the Lean driver, the real interpreter and the reference)
# ---------------------------------------------------------------------------------------------
def fr(s: str) -> Fraction:
    return Fraction(s)


def rat_s(x: Fraction) -> str:
    return f"{x.numerator}/{x.denominator}"


def enc_gate(g) -> str:
    _, kind, c, t, ps, ids = g
    p = ",".join(("v" + rat_s(v)) if k == "v" else f"h{v}" for k, v in ps)
    return f"{kind};{','.join(map(str, c))};{','.join(map(str, t))};{p};{','.join(map(str, ids))}"


def dec_gate(s: str):
    kind, c, t, ps, ids = s.split(";")
    li = lambda x: tuple(int(v) for v in x.split(",")) if x else ()
    pp = tuple(("v", fr(p[1:])) if p[0] == "v" else ("h", int(p[1:])) for p in ps.split(",")) if ps else ()
    return ("f", kind, li(c), li(t), pp, li(ids))


def enc_ref(r) -> str:
    return "C" if r == "C" else f"{r[0]}.{r[1]}"


def dec_ref(s: str):
    if s == "C":
        return "C"
    j, i = s.split(".")
    return (int(j), int(i))


def enc_src(s) -> str:
    if s[0] == "h":
        return f"h{s[1]}"
    if s[0] == "L":
        return "L" + "&".join(enc_gate(g) for g in s[1])
    return f"Q{s[1]}@" + "&".join(enc_gate(g) for g in s[2])


def dec_src(s: str):
    if s[0] == "h":
        return ("h", int(s[1:]))
    if s[0] == "L":
        return ("L", [dec_gate(x) for x in s[1:].split("&") if x])
    n, gs = s[1:].split("@")
    return ("Q", int(n), [dec_gate(x) for x in gs.split("&") if x])


def enc_ang(a) -> str:
    if a is None:
        return "-"
    if a[0] == "P":
        return "P" + enc_ref(a[1])
    return "F" + ",".join(f"{enc_ref(r)}*{rat_s(c)}" for r, c in a[1])


def dec_ang(s: str):
    if s == "-":
        return None
    if s[0] == "P":
        return ("P", dec_ref(s[1:]))
    out = []
    for t in s[1:].split(","):
        if t:
            r, c = t.split("*")
            out.append((dec_ref(r), fr(c)))
    return ("F", out)


def enc_op(op) -> str:
    t = op[0]
    if t in ("newL", "newP"):
        return f"{t}:{op[1]}"
    if t == "addParams":
        return f"addParams:{op[1]}:{op[2]}"
    if t == "addGate":
        return f"addGate:{op[1]}:{enc_gate(op[2])}"
    if t == "addPar":
        return f"addPar:{op[1]}:{op[2]}:{','.join(map(str, op[3]))}:{','.join(map(str, op[4]))}:{enc_ang(op[5])}"
    if t in ("extend", "plus"):
        return f"{t}:{op[1]}:{enc_src(op[2])}"
    if t == "rplus":
        return f"rplus:{enc_src(op[1])}:{op[2]}"
    if t == "tr":
        return f"tr:{','.join(op[1])}:{op[2]}:{op[3]}"
    raise ValueError(op)


def dec_op(s: str):
    f = s.strip().split(":")
    t = f[0]
    li = lambda x: tuple(int(v) for v in x.split(",")) if x else ()
    if t in ("newL", "newP"):
        return (t, int(f[1]))
    if t == "addParams":
        return (t, int(f[1]), int(f[2]))
    if t == "addGate":
        return (t, int(f[1]), dec_gate(f[2]))
    if t == "addPar":
        return (t, int(f[1]), f[2], li(f[3]), li(f[4]), dec_ang(f[5]))
    if t in ("extend", "plus"):
        return (t, int(f[1]), dec_src(f[2]))
    if t == "rplus":
        return (t, dec_src(f[1]), int(f[2]))
    if t == "tr":
        return (t, [x for x in f[1].split(",") if x], int(f[2]), int(f[3]) if len(f) > 3 else 0)
    raise ValueError(s)


def lean_op(s: str) -> str:
    """the Lean driver does not see the nesting flag of `tr`"""
    f = s.split(":")
    return ":".join(f[:3]) if f[0] == "tr" else s


# ---------------------------------------------------------------------------------------------
# interpreter on the REAL implementation
# ---------------------------------------------------------------------------------------------
class Real:
    def __init__(self):
        from quri_parts.circuit import CONST

        self.circs = []
        self.CONST = CONST
        self.keep = []
        # identity of a Parameter is the library's own `==` / `hash` (the installed binary hands out a new
        # Python wrapper object per access, so `is` / id() are not usable)
        self.ids = {}

    # -- construction ------------------------------------------------------------------------
    def gate(self, g):
        from quri_parts.circuit import QuantumGate

        _, kind, c, t, ps, ids = g
        return QuantumGate(name=kind, target_indices=tuple(t), control_indices=tuple(c),
                           params=tuple(float(v) if k == "v" else HALF_PI[v] for k, v in ps), pauli_ids=tuple(ids))

    def ref(self, r):
        if r == "C":
            return self.CONST
        return self.circs[r[0]].param_mapping.in_params[r[1]]

    def src(self, s):
        from quri_parts.circuit import QuantumCircuit

        if s[0] == "h":
            return self.circs[s[1]]
        if s[0] == "L":
            return [self.gate(g) for g in s[1]]
        return QuantumCircuit(s[1], gates=[self.gate(g) for g in s[2]])

    def inner(self, name):
        import quri_parts.circuit.transpile as T
        from quri_parts.circuit import QuantumCircuit, gates

        if name == "id":
            return lambda c: c
        if name == "reverse":
            return lambda c: QuantumCircuit(c.qubit_count, gates=list(reversed(c.gates)))
        if name == "mark":
            return lambda c: QuantumCircuit(c.qubit_count, gates=list(c.gates) + [gates.Z(0)])
        return {"idInsert": T.IdentityInsertionTranspiler, "rx2rzh": T.RX2RZHTranspiler, "ry2rzh": T.RY2RZHTranspiler,
                "pauliRot": T.PauliRotationDecomposeTranspiler}[name]()

    def ptrans(self, name):
        import quri_parts.circuit.transpile as T

        if name.startswith("w."):
            return T.ParametricTranspiler(self.inner(name[2:]))
        return {"rx": T.ParametricRX2RZHTranspiler, "ry": T.ParametricRY2RZHTranspiler,
                "pauli": T.ParametricPauliRotationDecomposeTranspiler}[name]()

    def transpiler(self, names, nest):
        import quri_parts.circuit.transpile as T

        ts = [self.ptrans(x) for x in names]
        if nest == 0:
            return ts[0] if len(ts) == 1 else T.ParametricSequentialTranspiler(ts)
        if nest == 1 or len(ts) == 1:
            return T.ParametricSequentialTranspiler(ts)
        k = len(ts) // 2
        return T.ParametricSequentialTranspiler(
            [T.ParametricSequentialTranspiler(ts[:k]), T.ParametricSequentialTranspiler(ts[k:])])

    def apply(self, op):
        """returns ('ok', created parameters) or ('err', ExceptionClassName)"""
        try:
            return "ok", self._apply(op)
        except Exception as e:  # noqa: BLE001 — exceptions of the real code are outputs
            return "err", type(e).__name__

    def result_str(self, op, st, v):
        """op result as the driver prints it: `ok`, `ok:<positions of the returned parameters in the circuit's
        parameter list>` (add_parameters; plain add_Parametric*_gate), or the exception class"""
        if st != "ok":
            return v
        if op[0] == "addParams" or (op[0] == "addPar" and op[5] is None):
            plist = list(self.circs[op[1]].param_mapping.in_params)
            pos = []
            for p in v:
                idx = [i for i, q in enumerate(plist) if q == p]
                pos.append(str(idx[-1]) if idx else "?")
            return "ok:" + ",".join(pos)
        return "ok"

    def _apply(self, op):
        from quri_parts.circuit import LinearMappedParametricQuantumCircuit, ParametricQuantumCircuit

        t = op[0]
        if t == "newL":
            self.circs.append(LinearMappedParametricQuantumCircuit(op[1]))
            return []
        if t == "newP":
            self.circs.append(ParametricQuantumCircuit(op[1]))
            return []
        if t == "addParams":
            c = self.circs[op[1]]
            # equal names on purpose: identity, not the name, distinguishes parameters
            new = list(c.add_parameters(*["p" for _ in range(op[2])]))
            self.keep += new
            return new
        if t == "addGate":
            self.circs[op[1]].add_gate(self.gate(op[2]))
            return []
        if t == "addPar":
            _, h, pk, ts, ids, ang = op
            c = self.circs[h]
            args = [list(ts), list(ids)] if pk == "prot" else [ts[0]]
            meth = getattr(c, {"rx": "add_ParametricRX_gate", "ry": "add_ParametricRY_gate", "rz": "add_ParametricRZ_gate",
                               "prot": "add_ParametricPauliRotation_gate"}[pk])
            if ang is None:
                p = meth(*args)
                self.keep.append(p)
                return [p]
            if ang[0] == "P":
                meth(*args, self.ref(ang[1]))
            else:
                d = {}
                for r, coef in ang[1]:
                    d[self.ref(r)] = float(coef)
                try:
                    meth(*args, d)
                finally:
                    d.clear()  # the circuit must not alias the caller's dictionary
            self.keep += list(c.param_mapping.out_params[-1:])
            return []
        if t == "extend":
            self.circs[op[1]].extend(self.src(op[2]))
            return []
        if t == "plus":
            r = self.circs[op[1]] + self.src(op[2])
            self.circs.append(r)
            return []
        if t == "rplus":
            r = self.src(op[1]) + self.circs[op[2]]
            self.circs.append(r)
            return []
        if t == "tr":
            r = self.transpiler(op[1], op[3])(self.circs[op[2]])
            self.keep += list(r.param_mapping.out_params)
            self.circs.append(r)
            return []
        raise InfraError(f"unknown op {op}")

    # -- observation -------------------------------------------------------------------------
    def pid(self, p):
        if p == self.CONST:
            return "C"
        if p not in self.ids:
            self.ids[p] = len(self.ids) + 1
        return ("#", self.ids[p])

    def is_lin(self, c):
        return type(c).__name__ == "LinearMappedParametricQuantumCircuit"

    def obs(self, h):
        c = self.circs[h]
        pm = c.param_mapping
        self.keep += list(pm.in_params) + list(pm.out_params)
        gs = []
        for g, p in c.primitive_circuit().gates_and_params:
            if p is None:
                gs.append(canon_real_gate(g))
            else:
                self.keep.append(p)
                gs.append(["p", PNAME[g.name], list(g.target_indices), list(g.pauli_ids), self.pid(p)])
        mp = []
        for k, v in pm.mapping.items():
            if hasattr(v, "items"):
                mp.append([self.pid(k), ["f", sorted([[self.pid(p), rat_s(Fraction(x))] for p, x in v.items()], key=repr)]])
            else:
                mp.append([self.pid(k), ["p", self.pid(v)]])
        return ["L" if self.is_lin(c) else "P", c.qubit_count, [self.pid(p) for p in pm.in_params],
                [self.pid(p) for p in pm.out_params], gs, mp]

    def query(self, q):
        f = q.split(":")
        t = f[0]
        try:
            c = self.circs[int(f[1])]
            if t == "obs":
                return self.obs(int(f[1]))
            if t == "bind":
                vals = [float(fr(x)) for x in f[2].split(",") if x]
                return ["ok", [canon_real_gate(g) for g in c.bind_parameters(vals).gates]]
            if t == "bindDict":
                d = {}
                for kv in f[2].split(","):
                    if kv:
                        r, v = kv.split("=")
                        d[self.ref(dec_ref(r))] = float(fr(v))
                return ["ok", [canon_real_gate(g) for g in c.bind_parameters_by_dict(d).gates]]
            if t == "seqmap":
                vals = [float(fr(x)) for x in f[2].split(",") if x]
                return ["ok", [rat_s(Fraction(x)) for x in c.param_mapping.seq_mapper(vals)]]
            if t == "trivial":
                return ["ok", bool(c.has_trivial_parameter_mapping)]
            if t == "count":
                return c.parameter_count
        except Exception as e:  # noqa: BLE001
            return ["err", type(e).__name__]
        raise InfraError(f"unknown query {q}")


def canon_param(x: float):
    for q, v in HALF_PI.items():
        if x == v:
            return f"h{q}"
    return "v" + rat_s(Fraction(x))


def canon_real_gate(g):
    return ["f", g.name, list(g.control_indices), list(g.target_indices), [canon_param(float(x)) for x in g.params],
            list(g.pauli_ids)]


# ---------------------------------------------------------------------------------------------
# canonicalisation: parameter identities renamed by first appearance
# ---------------------------------------------------------------------------------------------
def model_obs(o):
    """driver JSON of `obs` → same shape as Real.obs (ids tagged)"""
    kind, n, inp, outp, mp, gs = o
    tag = lambda i: "C" if i == 0 else ("#", i)
    g2 = []
    for g in gs:
        g2.append(g if g[0] == "f" else ["p", g[1], g[2], g[3], tag(g[4])])
    m2 = []
    for k, a in mp:
        if a[0] == "p":
            m2.append([tag(k), ["p", tag(a[1])]])
        else:
            m2.append([tag(k), ["f", sorted([[tag(p), c] for p, c in a[1]], key=repr)]])
    return [kind, n, [tag(i) for i in inp], [tag(i) for i in outp], g2, m2]


class Renamer:
    def __init__(self):
        self.tab = {}

    def name(self, x):
        if isinstance(x, tuple) and len(x) == 2 and x[0] == "#":
            if x[1] not in self.tab:
                self.tab[x[1]] = len(self.tab) + 1
            return f"#{self.tab[x[1]]}"
        if isinstance(x, list):
            return [self.name(y) for y in x]
        if isinstance(x, tuple):
            return [self.name(y) for y in x]
        return x

    def obs(self, o):
        kind, n, inp, outp, gs, mp = o
        head = self.name([kind, n, inp, outp, gs])
        # every key of the mapping is an out-param (already named); order of the dictionary is immaterial
        m2 = []
        for k, a in mp:
            kk = self.name(k)
            if a[0] == "f":
                terms = sorted(self.name(a[1]), key=lambda t: (str(t[0]), t[1]))
                m2.append([kk, ["f", terms]])
            else:
                m2.append([kk, self.name(a)])
        m2.sort(key=lambda e: json.dumps(e[0]))
        return head + [m2]


def canon_response(opres, qres, queries, is_model):
    """both sides in the same shape ([kind, n, in, out, gates, map] for `obs`), one renaming table per response"""
    rn = Renamer()
    out = []
    for q, r in zip(queries, qres):
        if q.startswith("obs") and isinstance(r, list) and len(r) == 6:
            out.append(rn.obs(model_obs(r) if is_model else r))
        else:
            out.append(rn.name(r))
    return [list(opres), out]


# ---------------------------------------------------------------------------------------------
# history generation (adaptive: the real interpreter is run while the history is drawn)
# ---------------------------------------------------------------------------------------------
def rnd_frac(rng, small=False):
    j = rng.choice([0, 0, 1, 2, 3])
    k = rng.randint(-8, 8) if small else rng.randint(-24, 24)
    return Fraction(k, 2 ** j)


def rnd_fixed_gate(rng, n, allow_bad=False):
    hi = n + (1 if allow_bad and rng.random() < 0.15 else 0)
    q = lambda: rng.randrange(max(1, hi))
    k = rng.random()
    if k < 0.4 or n < 2:
        if rng.random() < 0.35:
            return ("f", rng.choice(["RX", "RY", "RZ"]), (), (q(),), (("v", rnd_frac(rng)),), ())
        return ("f", rng.choice(ONE_Q), (), (q(),), (), ())
    if k < 0.7:
        a, b = rng.sample(range(max(2, hi)), 2)
        return ("f", rng.choice(["CNOT", "CZ"]), (a,), (b,), (), ())
    if k < 0.8:
        a, b = rng.sample(range(max(2, hi)), 2)
        return ("f", "SWAP", (), (a, b), (), ())
    m = rng.randint(1, min(n, 3))
    ts = tuple(rng.sample(range(n), m))
    ids = tuple(rng.randint(1, 3) for _ in ts)
    if rng.random() < 0.5:
        return ("f", "PauliRotation", (), ts, (("v", rnd_frac(rng)),), ids)
    return ("f", "Pauli", (), ts, (), ids)


def gen_history(rng, real: Real, n_ops: int, mode="full"):
    """draws ops one at a time, applying each to `real`; returns (ops, results).
    mode 'oracle': only operations on which the reference semantics has an opinion"""
    ops, res = [], []
    oracle = mode == "oracle"

    def push(op):
        r = real.apply(op)
        ops.append(op)
        res.append(r)
        return r

    base_n = rng.randint(1, 3)
    for _ in range(rng.randint(2, 3)):
        n = base_n if rng.random() < 0.8 else rng.randint(1, 3)
        push(("newL" if rng.random() < 0.75 else "newP", n))
    if not any(real.is_lin(c) for c in real.circs):
        push(("newL", base_n))
    for _ in range(n_ops):
        h = rng.randrange(len(real.circs))
        c = real.circs[h]
        lin = real.is_lin(c)
        n = c.qubit_count
        r = rng.random()
        if r < 0.14 and lin:
            push(("addParams", h, rng.choice([1, 1, 2, 2, 3, 0])))
        elif r < 0.28:
            push(("addGate", h, rnd_fixed_gate(rng, n, allow_bad=not oracle)))
        elif r < 0.56:
            pk = rng.choice(["rx", "ry", "rz", "prot"])
            if pk == "prot":
                m = rng.randint(1, min(n, 3))
                ts = tuple(rng.sample(range(n), m))
                ids = tuple(rng.randint(1, 3) for _ in ts)
            else:
                ts, ids = (rng.randrange(n),), ()
            if not oracle and rng.random() < 0.06:
                ts = ts[:-1] + (n,)  # out of range
            if not lin:
                push(("addPar", h, pk, ts, ids, None))
                continue

            def pick_ref():
                x = rng.random()
                own = len(c.param_mapping.in_params)
                if x < 0.08:
                    return "C"
                if x < 0.2 or own == 0:
                    cand = [(j, i) for j, o in enumerate(real.circs) for i in range(len(o.param_mapping.in_params))]
                    return rng.choice(cand) if cand else "C"
                return (h, rng.randrange(own))

            if rng.random() < 0.3:
                ang = ("P", pick_ref())
            else:
                terms, seen = [], set()
                for _ in range(rng.choice([0, 1, 1, 2, 2, 3])):
                    rf = pick_ref()
                    key = "C" if rf == "C" else real.pid(real.ref(rf))
                    if key in seen:
                        continue
                    seen.add(key)
                    terms.append((rf, Fraction(1) if rng.random() < 0.25 else rnd_frac(rng, small=True)))
                ang = ("F", terms)
            push(("addPar", h, pk, ts, ids, ang))
        elif r < 0.9:
            kind = rng.choice(["extend", "extend", "plus", "plus", "rplus"])
            x = rng.random()
            if x < 0.6:
                j = rng.randrange(len(real.circs))
                if rng.random() < 0.25:
                    j = h
                src = ("h", j)
            elif x < 0.8:
                gs = [rnd_fixed_gate(rng, n) for _ in range(rng.randint(0, 3))]
                if not oracle and rng.random() < 0.2:
                    gs.insert(rng.randint(0, len(gs)), ("f", "X", (), (n,), (), ()))
                src = ("L", gs)
            else:
                nq = n if rng.random() < 0.75 or oracle else n + rng.choice([-1, 1])
                nq = max(1, nq)
                src = ("Q", nq, [rnd_fixed_gate(rng, nq) for _ in range(rng.randint(0, 3))])
            if src[0] == "h":
                o = real.circs[src[1]]
                if not lin and not real.is_lin(o):
                    if kind == "extend" and src[1] == h:
                        continue  # plain.extend(itself): Rust "already borrowed" panic, outside the property
                    if oracle:
                        continue
                if kind == "rplus":
                    kind = "plus"
                    if not lin and real.is_lin(o):
                        pass  # plain + linear-mapped → o.__radd__(plain)
                if kind == "extend" and not lin and real.is_lin(o) and oracle:
                    continue
            else:
                if not lin:
                    if kind == "plus" and src[0] == "Q":
                        kind = "extend"
                    if kind == "rplus" and src[0] == "Q":
                        kind = "extend"
            if kind == "rplus":
                push(("rplus", src, h))
            else:
                push((kind, h, src))
        else:
            if oracle:
                continue
            names = []
            for _ in range(rng.choice([1, 1, 2, 3])):
                names.append(rng.choice(["rx", "ry", "pauli", "w.id", "w.reverse", "w.mark", "w.idInsert", "w.rx2rzh",
                                         "w.ry2rzh", "w.pauliRot"]))
            push(("tr", names, h, rng.randint(0, 2)))
    return ops, res


def gen_queries(rng, real: Real, oracle=False):
    qs = []
    for h, c in enumerate(real.circs):
        qs.append(f"obs:{h}")
        k = c.parameter_count
        for _ in range(2):
            m = k
            x = rng.random()
            if not oracle and x < 0.15 and k > 0:
                m = k - 1
            elif not oracle and x < 0.25:
                m = k + 1
            qs.append(f"bind:{h}:" + ",".join(rat_s(rnd_frac(rng)) for _ in range(m)))
        if oracle:
            continue
        if real.is_lin(c):
            pairs = [f"{h}.{i}={rat_s(rnd_frac(rng))}" for i in range(len(c.param_mapping.in_params))]
            if pairs and rng.random() < 0.2:
                pairs.pop(rng.randrange(len(pairs)))
            qs.append(f"bindDict:{h}:" + ",".join(pairs))
        else:
            pairs = [f"{h}.{i}={rat_s(rnd_frac(rng))}" for i in range(k)]
            if pairs and rng.random() < 0.2:
                pairs.pop(rng.randrange(len(pairs)))
            qs.append(f"bindDict:{h}:" + ",".join(pairs))
        m = k if rng.random() < 0.8 else k + rng.choice([-1, 1])
        qs.append(f"seqmap:{h}:" + ",".join(rat_s(rnd_frac(rng)) for _ in range(max(0, m))))
        qs.append(f"trivial:{h}")
        qs.append(f"count:{h}")
    return qs


def request_line(op_strs, queries):
    return " | ".join(lean_op(o) for o in op_strs) + " || " + " | ".join(queries)


def real_run(op_strs, queries):
    """replay a history given as strings on a fresh real interpreter"""
    real = Real()
    opres = []
    for s in op_strs:
        op = dec_op(s)
        st, v = real.apply(op)
        opres.append(real.result_str(op, st, v))
    qres = [real.query(q) for q in queries]
    return real, opres, qres


def first_diff(a, b, path=""):
    if type(a) != type(b):
        return f"{path}: {a!r} vs {b!r}"
    if isinstance(a, list):
        if len(a) != len(b):
            return f"{path}: length {len(a)} vs {len(b)}"
        for i, (x, y) in enumerate(zip(a, b)):
            d = first_diff(x, y, f"{path}[{i}]")
            if d:
                return d
        return None
    return None if a == b else f"{path}: {a!r} vs {b!r}"


def compare_batch(ctx: Ctx, batch, what="history"):
    """batch: list of (op_strs, queries); runs the Lean driver once and the real code per history"""
    if not batch:
        return
    lines = [request_line(o, q) for o, q in batch]
    resp = ctx.driver(lines, entry=ENTRY)
    for (op_strs, queries), line, r in zip(batch, lines, resp):
        try:
            mj = json.loads(r)
        except json.JSONDecodeError:
            raise InfraError(f"driver output is not JSON: {r[:200]}")
        _, ropres, rqres = real_run(op_strs, queries)
        rc = canon_response(ropres, rqres, queries, False)
        if mj == "bad-request" or any(x == "bad-query" for x in (mj[1] if isinstance(mj, list) else [])):
            # a parameter / circuit reference of the history does not resolve in the model's store: the stores have
            # diverged (the request itself is generated from the real run, so on agreeing stores this cannot happen)
            mc = ["model-cannot-resolve-a-reference", mj if isinstance(mj, str) else mj[0]]
        else:
            mc = canon_response(mj[0], mj[1], queries, True)
        ctx.traces += 1
        kinds = [o.split(":")[0] for o in op_strs]
        for k in kinds:
            ctx.count("ops", k)
        for x in ropres:
            ctx.count("op_outcome", x.split(":")[0])
        for q, x in zip(queries, rqres):
            if isinstance(x, list) and x and x[0] == "err":
                ctx.count("query_outcome", f"{q.split(':')[0]}:{x[1]}")
            else:
                ctx.count("query_outcome", f"{q.split(':')[0]}:ok")
        nontrivial = any(k in ("extend", "plus", "rplus", "tr") for k in kinds) and any(k == "addPar" for k in kinds)
        ctx.case(line, nontrivial, sample={"request": line[:400], "model": r[:300]})
        d = first_diff(rc, mc)
        if d:
            small_o, small_q = shrink(ctx, op_strs, queries) if len(ctx.disagreements) < 3 else (op_strs, queries)
            ctx.disagree(what, {"request": request_line(small_o, small_q), "ops": small_o, "queries": small_q},
                         f"real differs at {d}"[:600], r[:600])


def disagrees(ctx, op_strs, queries):
    try:
        line = request_line(op_strs, queries)
        r = ctx.driver([line], entry=ENTRY)[0]
        mj = json.loads(r)
        if not isinstance(mj, list) or any(x == "bad-query" for x in mj[1]):
            return False
        _, ropres, rqres = real_run(op_strs, queries)
        return first_diff(canon_response(ropres, rqres, queries, False), canon_response(mj[0], mj[1], queries, True)) is not None
    except Exception:  # noqa: BLE001 — a shrink candidate that is not a valid history
        return False


def shrink(ctx, op_strs, queries, budget=14):
    """greedy delta-debugging on queries then ops (bounded number of driver calls)"""
    ops, qs = list(op_strs), list(queries)
    calls = 0
    for seq in ("q", "o"):
        i = 0
        while calls < budget:
            cur = qs if seq == "q" else ops
            if i >= len(cur):
                break
            cand = cur[:i] + cur[i + 1:]
            calls += 1
            if (seq == "q" and cand and disagrees(ctx, ops, cand)) or (seq == "o" and disagrees(ctx, cand, qs)):
                if seq == "q":
                    qs = cand
                else:
                    ops = cand
            else:
                i += 1
    return ops, qs


# ---------------------------------------------------------------------------------------------
# correspondence
# ---------------------------------------------------------------------------------------------
FIXED_HISTORIES = [
    # (ops, queries) — hand-written corner cases, always run
    (F6_HISTORY.split(" | "), ["obs:0", "obs:1", "bind:1:1/1,3/1", "bind:1:1/1", "count:1", "bindDict:1:0.0=2/1"]),
    (["newL:2", "addParams:0:2", "addPar:0:rx:0::F0.0*2/1,C*1/2", "addPar:0:prot:0,1:1,2:P0.1", "newP:2", "addPar:1:ry:1::-",
      "extend:0:h1", "extend:0:h1", "tr:pauli,rx,w.mark:0:2", "plus:1:h0"],
     ["obs:0", "obs:1", "obs:2", "obs:3", "bind:2:1/2,3/1,1/4,5/1", "bind:3:1/1,2/1,3/1,4/1,5/1", "trivial:1", "trivial:0",
      "seqmap:0:1/1,2/1,3/1,4/1", "seqmap:0:1/1"]),
    (["newL:2", "addParams:0:1", "newL:3", "extend:0:h1", "plus:0:h1", "rplus:Q3@:0", "rplus:L X;;2;;:0",
      "extend:0:LH;;0;;&X;;2;;&Y;;1;;", "addPar:0:rz:0::PC", "addPar:0:rz:0::F"],
     ["obs:0", "bind:0:1/1", "bind:0:", "trivial:0"]),
    (["newP:2", "addPar:0:rx:0::-", "addGate:0:H;;1;;", "newP:3", "addPar:1:prot:0,2:1,3:-", "extend:0:h1", "plus:0:h1",
      "plus:1:h0", "rplus:LX;;0;;:0", "tr:w.reverse:0:0", "tr:ry,w.idInsert:3:1"],
     ["obs:0", "obs:1", "obs:2", "obs:3", "obs:4", "bind:0:1/2", "bind:0:", "bind:2:1/1,2/1", "bindDict:0:0.0=1/4", "bindDict:0:"]),
]


def correspond(ctx: Ctx):
    rng = ctx.rng
    batch = []
    corpus_dir = os.path.join(VERIF, "corpus", "C10")
    if os.path.isdir(corpus_dir):
        for fn in sorted(os.listdir(corpus_dir)):
            if fn.endswith(".json"):
                d = json.load(open(os.path.join(corpus_dir, fn)))
                batch.append((d["ops"], d["queries"]))
                ctx.count("source", "corpus")
    for o, q in FIXED_HISTORIES:
        batch.append((list(o), list(q)))
        ctx.count("source", "fixed")
    N = ctx.n(260, 6000)
    for i in range(N):
        real = Real()
        ops, _ = gen_history(rng, real, rng.randint(3, 14) if i % 7 else rng.randint(15, 28))
        qs = gen_queries(rng, real)
        batch.append(([enc_op(o) for o in ops], qs))
        ctx.count("source", "random")
        if len(batch) >= 400:
            compare_batch(ctx, batch)
            batch = []
    compare_batch(ctx, batch)
    if not ctx.quick():
        exhaustive_small(ctx)


def exhaustive_small(ctx: Ctx):
    """thorough: every history of length ≤ 3 over a small alphabet appended to a fixed two-circuit prefix"""
    prefix = ["newL:2", "addParams:0:1", "addPar:0:rx:0::P0.0", "newL:2", "addParams:1:1", "addPar:1:prot:0,1:3,1:F1.0*1/2,C*1/1"]
    alpha = ["extend:0:h1", "extend:0:h0", "extend:1:h0", "plus:0:h0", "plus:0:h1", "rplus:LH;;0;;:1", "addPar:0:rz:1::F0.0*2/1",
             "addPar:1:ry:0::P0.0", "addParams:1:1", "tr:rx:0:0", "tr:pauli:1:0", "tr:w.mark:0:0", "addGate:0:CNOT;0;1;;",
             "extend:0:LX;;2;;"]
    batch = []
    import itertools

    for k in (1, 2, 3):
        for combo in itertools.product(alpha, repeat=k):
            ops = prefix + list(combo)
            real, opres, _ = real_run(ops, [])
            qs = []
            for h, c in enumerate(real.circs):
                qs.append(f"obs:{h}")
                qs.append(f"bind:{h}:" + ",".join(f"{i + 1}/2" for i in range(c.parameter_count)))
            batch.append((ops, qs))
            ctx.count("source", "exhaustive")
            if len(batch) >= 500:
                compare_batch(ctx, batch, "exhaustive-history")
                batch = []
    compare_batch(ctx, batch, "exhaustive-history")


# ---------------------------------------------------------------------------------------------
# oracle validation / failing-input search on the REAL code
# ---------------------------------------------------------------------------------------------
def oracle_bind(ctx: Ctx, budget_s: float, min_cases: int):
    """(A) reference semantics vs the real bind, random histories (shared and disjoint parameters)"""
    from oracle import c10ref

    rng = ctx.rng
    t0 = time.time()
    n = 0
    while n < min_cases or time.time() - t0 < budget_s:
        n += 1
        if n > min_cases * 40:
            break
        real = Real()
        ops, res = gen_history(rng, real, rng.randint(3, 12), mode="oracle")
        check_against_reference(ctx, c10ref, ops, rng)
    ctx.extra.setdefault("oracle", {})["bind_histories"] = n
    ctx.evaluations += n


def check_against_reference(ctx: Ctx, c10ref, ops, rng, report=True):
    """replays `ops` on a fresh real interpreter and on the reference; returns a list of (key, what, detail)"""
    real = Real()
    ref = c10ref.Ref()
    ident = {}  # real Parameter (library equality) -> reference parameter
    found = []
    op_strs = [enc_op(o) for o in ops]

    def resolve(r):
        if r == "C":
            return "C"
        return ident.get(real.ref(r), ("?", r))

    for k, op in enumerate(ops):
        refs = None
        if op[0] == "addPar" and op[5] is not None:
            refs = [resolve(op[5][1])] if op[5][0] == "P" else [resolve(r) for r, _ in op[5][1]]
        before = [c.parameter_count for c in real.circs]
        st, v = real.apply(op)
        try:
            new = ref.apply(op, refs)
            ref_ok = True
        except c10ref.RefError as e:
            ref_ok, new = False, str(e)
        if ref_ok != (st == "ok"):
            found.append(("op-acceptance", f"op {k} `{op_strs[k]}`: real {'accepts' if st == 'ok' else 'raises ' + str(v)}, "
                          f"reference {'accepts' if ref_ok else 'rejects (' + str(new) + ')'}", op_strs[: k + 1]))
            break
        if st == "ok":
            for rp, p in zip(v, new):
                ident[rp] = p
        else:
            if [c.parameter_count for c in real.circs] != before:
                found.append(("failed-op-mutates", f"op {k} `{op_strs[k]}` raised {v} but changed a circuit", op_strs[: k + 1]))
                break
    else:
        for h, (c, rc) in enumerate(zip(real.circs, ref.circs)):
            if real.is_lin(c):
                inp = list(c.param_mapping.in_params)
                mapped = [ident.get(p) for p in inp]
                if None in mapped:
                    found.append(("in-params-unknown", f"circuit {h}: in_params contains a parameter nobody created", op_strs))
                    continue
                dedup = list(dict.fromkeys(mapped))
                if dedup != rc.params:
                    found.append(("in-params-order", f"circuit {h}: in_params {mapped} but the parameters in order of first "
                                  f"appearance are {rc.params}", op_strs))
                    continue
                if len(mapped) != len(dedup):
                    found.append((KEY_F6, f"circuit {h}: parameter_count {len(mapped)} for {len(dedup)} distinct parameters "
                                  f"(in_params as reference ids: {mapped})", op_strs))
                vals = {p: rnd_frac(rng) for p in rc.params}
                real_vals = [float(vals[p]) for p in mapped]
            else:
                vals = {p: rnd_frac(rng) for p in rc.params}
                real_vals = [float(vals[p]) for p in rc.params]
                if c.parameter_count != len(rc.params):
                    found.append(("plain-count", f"circuit {h}: parameter_count {c.parameter_count} vs {len(rc.params)}", op_strs))
                    continue
            try:
                got = [canon_real_gate(g) for g in c.bind_parameters(real_vals).gates]
            except Exception as e:  # noqa: BLE001
                found.append(("bind-raises", f"circuit {h}: bind_parameters({real_vals}) raised {type(e).__name__}", op_strs))
                continue
            want = [["f", g[1], list(g[2]), list(g[3]), [("v" + rat_s(x[1])) if x[0] == "v" else f"h{x[1]}" for x in g[4]], list(g[5])]
                    for g in ref.bind(h, vals)]
            if got != want:
                found.append(("bind-spec", f"circuit {h}: bind_parameters({real_vals}) = {got} but every parametric gate should carry "
                              f"its function's value: {want}", op_strs))
                continue
            if not real.is_lin(c) or len(mapped) != len(dedup):
                continue
            found += mapping_rules(h, c, rc, vals, real_vals, want, op_strs)
    if report:
        for key, what, hist in found:
            ctx.witness(key, what, {"ops": hist}, None)
    return found


def mapping_rules(h, c, rc, vals, real_vals, want, op_strs):
    """documented behaviour of seq_mapper / is_trivial_mapping / binding with a missing value, for a linearly
    mapped circuit whose parameter list has no repetition (reference circuit `rc`, bound reference gates `want`)"""
    out = []
    pm = c.param_mapping
    par_gates = [g for g in rc.gates if g[0] == "p"]
    angles = [g[4][0] for g, src in zip(want, rc.gates) if src[0] == "p"]
    # seq_mapper: one value per parametric gate, in gate order; wrong count is a ValueError
    try:
        got = ["v" + rat_s(Fraction(x)) for x in pm.seq_mapper(real_vals)]
        if got != angles:
            out.append(("seq-mapper-values", f"circuit {h}: seq_mapper({real_vals}) = {got}, expected the gate angles {angles}", op_strs))
    except Exception as e:  # noqa: BLE001
        out.append(("seq-mapper-values", f"circuit {h}: seq_mapper({real_vals}) raised {type(e).__name__}", op_strs))
    for bad in (real_vals + [0.5], real_vals[:-1]):
        if len(bad) == len(real_vals):
            continue
        try:
            pm.seq_mapper(bad)
            out.append(("seq-mapper-length", f"circuit {h}: seq_mapper accepted {len(bad)} values for {len(real_vals)} parameters", op_strs))
        except ValueError:
            pass
        except Exception as e:  # noqa: BLE001
            out.append(("seq-mapper-length", f"circuit {h}: seq_mapper with {len(bad)} values raised {type(e).__name__}, not ValueError", op_strs))
    # is_trivial_mapping
    triv = bool(c.has_trivial_parameter_mapping)
    fns = [g[4] for g in par_gates]
    uses_const = any("C" in f for f in fns)
    identity_like = (len(fns) == len(rc.params) and all(len(f) == 1 and "C" not in f and list(f.values()) == [Fraction(1)] for f in fns)
                     and len({next(iter(f)) for f in fns}) == len(fns))
    if identity_like and not triv:
        out.append(("trivial-mapping", f"circuit {h}: every gate uses its own parameter with coefficient 1 but has_trivial_parameter_mapping is False", op_strs))
    if triv and not uses_const and sorted(angles) != sorted("v" + rat_s(Fraction(x)) for x in real_vals):
        out.append(("trivial-mapping", f"circuit {h}: has_trivial_parameter_mapping is True but the gate angles {angles} are not the "
                    f"parameter values {real_vals}", op_strs))
    # binding without a value for a parameter that a gate uses must fail
    if rc.params and any(rc.params[-1] in f for f in fns):
        try:
            c.bind_parameters(real_vals[:-1])
            out.append(("bind-missing-value", f"circuit {h}: bind_parameters with {len(real_vals) - 1} values for {len(real_vals)} used "
                        f"parameters did not raise", op_strs))
        except Exception:  # noqa: BLE001
            pass
    return out


def oracle_transpile(ctx: Ctx, budget_s: float, min_cases: int):
    """(B) transpile-then-bind vs bind-then-transpile as unitaries (up to phase), in_params kept (objects, order)"""
    import quri_parts.circuit.transpile as T
    from oracle import dense
    from quri_parts.circuit import QuantumCircuit

    rng = ctx.rng
    t0 = time.time()
    n = 0
    worst = 0.0
    pairs = {
        "rx": (lambda r: r.ptrans("rx"), T.RX2RZHTranspiler),
        "ry": (lambda r: r.ptrans("ry"), T.RY2RZHTranspiler),
        "pauli": (lambda r: r.ptrans("pauli"), T.PauliRotationDecomposeTranspiler),
        "w.rx2rzh": (lambda r: r.ptrans("w.rx2rzh"), T.RX2RZHTranspiler),
        "w.ry2rzh": (lambda r: r.ptrans("w.ry2rzh"), T.RY2RZHTranspiler),
        "w.pauliRot": (lambda r: r.ptrans("w.pauliRot"), T.PauliRotationDecomposeTranspiler),
        "w.idInsert": (lambda r: r.ptrans("w.idInsert"), T.IdentityInsertionTranspiler),
        "w.RZSet": (lambda r: T.ParametricTranspiler(T.RZSetTranspiler()), T.RZSetTranspiler),
        "w.fuse": (lambda r: T.ParametricTranspiler(T.FuseRotationTranspiler()), T.FuseRotationTranspiler),
    }
    names = sorted(pairs)
    while n < min_cases or time.time() - t0 < budget_s:
        n += 1
        if n > min_cases * 40:
            break
        real = Real()
        ops, _ = gen_history(rng, real, rng.randint(3, 10), mode="oracle")
        cands = [h for h, c in enumerate(real.circs) if c.parameter_count > 0 and c.qubit_count <= 3]
        if not cands:
            continue
        h = rng.choice(cands)
        c = real.circs[h]
        chosen = [rng.choice(names) for _ in range(rng.choice([1, 1, 2, 3]))]
        pts = [pairs[x][0](real) for x in chosen]
        that = pts[0] if len(pts) == 1 else T.ParametricSequentialTranspiler(pts)
        tn = T.SequentialTranspiler([pairs[x][1]() for x in chosen])
        ctx.count("oracle_transpilers", "+".join(chosen) if len(chosen) == 1 else "sequential")
        hist = {"ops": [enc_op(o) for o in ops], "circuit": h, "transpilers": chosen}
        try:
            tc = that(c)
        except Exception as e:  # noqa: BLE001
            ctx.witness("transpile-raises:" + chosen[0], f"parametric transpiler raised {type(e).__name__}: {e}", hist)
            continue
        ip, tp = list(c.param_mapping.in_params), list(tc.param_mapping.in_params)
        if len(ip) != len(tp) or any(a != b for a, b in zip(ip, tp)) or tc.parameter_count != c.parameter_count:
            ctx.witness("in-params:" + "+".join(chosen), "parametric transpiler changed the parameter list or its order", hist)
            continue
        vals = [rng.uniform(-7, 7) for _ in range(c.parameter_count)]
        try:
            a = tc.bind_parameters(vals)
            b0 = c.bind_parameters(vals)
            b = tn(QuantumCircuit(c.qubit_count, gates=list(b0.gates)))
            ua = dense.circuit_unitary(c.qubit_count, a.gates)
            ub = dense.circuit_unitary(c.qubit_count, b.gates)
            u0 = dense.circuit_unitary(c.qubit_count, b0.gates)
        except Exception as e:  # noqa: BLE001
            ctx.witness("transpile-bind-raises:" + chosen[0], f"{type(e).__name__}: {e}", dict(hist, values=vals))
            continue
        d = max(dense.phase_dist(ua, ub), dense.phase_dist(ua, u0))
        worst = max(worst, d)
        if d > 1e-7:
            ctx.witness("transpile-bind:" + "+".join(chosen), f"bind∘T̂ and T∘bind differ by {d:.3g} up to phase", dict(hist, values=vals))
    o = ctx.extra.setdefault("oracle", {})
    o["transpile_cases"] = n
    o["worst_phase_dist"] = worst
    ctx.evaluations += n


def replay_f6(ctx: Ctx):
    """the witness of Props/C10.lean `combine_shared_counterexample`, on the real code"""
    ops = F6_HISTORY.split(" | ")
    real, opres, _ = real_run(ops, [])
    if [x.split(":")[0] for x in opres] != ["ok"] * len(ops):
        ctx.notes.append(f"F6 witness history no longer runs: {opres}")
        return
    c = real.circs[1]
    ip = list(c.param_mapping.in_params)
    dup = len(ip) == 2 and ip[0] == ip[1]
    g = [canon_real_gate(x) for x in c.bind_parameters([1.0, 3.0]).gates] if c.parameter_count == 2 else None
    ctx.extra["f6_replay"] = {"parameter_count": c.parameter_count, "in_params_duplicated": dup, "bind[1,3]": g}
    if dup:
        ctx.witness(KEY_F6, F6_TEXT, {"ops": ops, "request": request_line(ops, ["obs:1", "bind:1:1/1,3/1"])},
                    {"parameter_count": c.parameter_count, "bind([1.0, 3.0])": g})


# ---------------------------------------------------------------------------------------------
def gen(ctx: Ctx):
    with ctx.timed("translate"):
        txt, n, info = c10gen.emit()
        ctx.write_generated("C10Tables", txt)
        ctx.generated_entries += n
        ctx.extra["translator"] = {"unparsed": info["unparsed"], "rust_digests": info.get("rust_digests")}
        return info


def run_replay(ctx: Ctx, path: str):
    d = json.load(open(path))
    batch = []
    for x in d.get("disagreements", []):
        inp = x.get("input", {})
        if "ops" in inp:
            batch.append((inp["ops"], inp.get("queries", [])))
    compare_batch(ctx, batch, "replay")
    from oracle import c10ref

    for w in d.get("witnesses", []):
        inp = w.get("input", {})
        if "ops" in inp and "transpilers" not in inp:
            try:
                check_against_reference(ctx, c10ref, [dec_op(s) for s in inp["ops"]], ctx.rng)
            except Exception as e:  # noqa: BLE001
                ctx.notes.append(f"replay of witness failed: {e}")


def run(ctx: Ctx, replay=None) -> int:
    ctx.rule = ("case = one operation history (new / add_parameters / add_gate / add_Parametric*_gate / extend / + / radd / "
                "parametric transpilers) plus queries (observation of in/out params, mapping and raw gate list with parameter "
                "identities, bind list/dict, seq_mapper, is_trivial_mapping, parameter_count); real objects vs Lean model, "
                "compared exactly after renaming parameter identities by first appearance; distinct = distinct request lines "
                "containing at least one parametric gate and one combining/transpiling operation")
    ctx.trusted = TRUSTED
    ctx.assumptions = [
        "coefficients and parameter values are dyadic rationals of small height, so Python's float arithmetic is exact",
        "quri_parts.rust is the installed 0.27 binary (binary_is_not_built_from_repo: true)",
        "operation histories avoid measurement gates / classical bits and plain.extend(itself) (Rust borrow panic)",
    ]
    ctx.extra["binary_is_not_built_from_repo"] = True
    gen(ctx)
    ok = ctx.prove(LEAN_TARGETS + (["QuriVerif.Props.C10Deep"] if not ctx.quick() else []),
                   [PROPS, GENMOD] + (["QuriVerif.Props.C10Deep"] if not ctx.quick() else []))
    if ok:
        names = [f"QV.Props.C10.{n}" for _, n, _ in ctx.count_obligations([PROPS])]
        ctx.audit(names, [PROPS, "QuriVerif.Driver.C10"])
    driver_ok = ok or _driver_builds(ctx)
    if replay:
        run_replay(ctx, replay)
    with ctx.timed("correspond"):
        if driver_ok:
            correspond(ctx)
        else:
            ctx.notes.append("driver does not build: correspondence skipped, oracle search budget raised")
    broken = (not ok) or bool(ctx.disagreements)
    with ctx.timed("oracle"):
        replay_f6(ctx)
        scale = 4 if broken else 1
        ctx.search_budget_s = ctx.n(8, 90) * scale * 2
        oracle_bind(ctx, ctx.n(8, 90) * scale, ctx.n(150, 3000))
        oracle_transpile(ctx, ctx.n(8, 90) * scale, ctx.n(120, 2500))
    # the replay file keeps the first few witnesses: put the ones that are not the known F6 shape first
    ctx.witnesses.sort(key=lambda w: w["key"] == KEY_F6)
    ctx.extra["witness_keys"] = sorted({w["key"] for w in ctx.witnesses})
    return ctx.finish()


def _driver_builds(ctx: Ctx) -> bool:
    ok, _ = ctx.lake_build(["QuriVerif.Driver.C10"])
    return ok
