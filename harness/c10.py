"""C10 — Binding, mapping and transpiling parametric circuits commute."""
from __future__ import annotations

import json
import math
import os
import sys
import time
import zlib
import random as _random
from fractions import Fraction

sys.path.insert(0, os.path.dirname(os.path.dirname(os.path.abspath(__file__))))

from common import VERIF, Ctx, InfraError  # noqa: E402
from translate import c10gen  # noqa: E402

PROPS = "QuriVerif.Props.C10"
GENMOD = "QuriVerif.Generated.C10Tables"
ENTRY = "DriverC10.lean"
LIFT = "QuriVerif.Props.C10Lift"
LEAN_TARGETS = [PROPS, LIFT, "QuriVerif.Driver.C10"]
LEAN_TARGETS_THOROUGH = ["QuriVerif.Props.C10Deep"]

KEY_F6 = "combine-duplicates-shared-in-params"
F6_TEXT = ("LinearParameterMapping.combine concatenates in_params without de-duplication: for a circuit `sub` with one "
           "parameter x, `sub + sub` (or extend twice) has parameter_count 2 and in_params (x, x); bind_parameters([a, b]) "
           "silently uses b for every gate (dict(zip(in_params, params)) keeps the last value)")
# the witness history proved in Props/C10.lean (combine_shared_counterexample), replayed on the real code every run
F6_HISTORY = "newL:1 | addParams:0:1 | addPar:0:rx:0::P0.0 | plus:0:h0"

TRUSTED = [
    "Lean 4.33 kernel incl. `decide +kernel`; axioms audited ⊆ {propext, Classical.choice, Quot.sound}",
    "translator translate/c10gen.py: AST reader for the three rewriting parametric transpilers (branch → emitted gate "
    "sequence), AST-equality shape facts for ParametricTranspiler.__call__ / ParametricSequentialTranspiler / "
    "add_decomposed_gates / rot_gates / PauliRotationDecomposeTranspiler, token reader of the Rust "
    "bind_parameters_internal arms, digest catalogue of the transcribed Rust function bodies",
    "the installed quri_parts.rust 0.27 binary stands in for the working-tree Rust (cannot be rebuilt): correspondence runs "
    "exercise that binary; packages/rust/src/circuit/circuit_parametric.rs is tied by text only",
    "harness/c10.py interpreter of operation histories on the real objects + canonicalisation (parameter identities "
    "renamed by first appearance; floats converted exactly to fractions; ±π/2 constants recognised by float equality "
    "with the same expression the library evaluates)",
    "Found/Gate.lean restates the documented gate matrices (cross-checked against oracle/dense.py by C01)",
    "PhaseMonoid (Found/Proj.lean) is the abstract interface instantiated by unitaries modulo global phase; that `Template.check` "
    "(exact ring) implies proportionality of the complex operators for all angles is proved (Proof/MatSound, Props/Reflect, "
    "obligations of C01); instantiating PhaseMonoid itself by matrices modulo scalars is the unformalised step",
    "oracle/c10ref.py (reference semantics of parametric circuits) and oracle/dense.py (dense unitaries)",
    "harness/c10.py VariantReal: the listed alternative entry points / argument forms are taken to be specified as equivalent "
    "to the plain ones (same model answer); `c += x` rejecting with TypeError is identified with extend raising ValueError",
    "harness/c10.py restatements used by oracle (C): affine evaluation, one-to-one test for is_trivial_mapping (no opinion when a "
    "function is the constant 1 alone), derivative = coefficient",
]

ONE_Q = ["X", "Y", "Z", "H", "S", "Sdag", "SqrtX", "T", "Identity"]
BOUND = {"rx": "RX", "ry": "RY", "rz": "RZ", "prot": "PauliRotation"}
PNAME = {"ParametricRX": "rx", "ParametricRY": "ry", "ParametricRZ": "rz", "ParametricPauliRotation": "prot"}
HALF_PI = {q: q * math.pi / 2.0 for q in (-4, -3, -2, -1, 1, 2, 3, 4)}


# ---------------------------------------------------------------------------------------------
# op language (shared by the Lean driver, the real interpreter and the reference)
# ---------------------------------------------------------------------------------------------
def fr(s: str) -> Fraction:
    return Fraction(s)


def rat_s(x: Fraction) -> str:
    return f"{x.numerator}/{x.denominator}"


def enc_gate(g) -> str:
    _, kind, c, t, ps, ids = g
    p = ",".join(("v" + rat_s(v)) if k == "v" else f"h{v}" for k, v in ps)
    return f"{kind};{','.join(map(str, c))};{','.join(map(str, t))};{p};{','.join(map(str, ids))}"


def dec_gate(s: str):
    kind, c, t, ps, ids = s.split(";")
    li = lambda x: tuple(int(v) for v in x.split(",")) if x else ()
    pp = tuple(("v", fr(p[1:])) if p[0] == "v" else ("h", int(p[1:])) for p in ps.split(",")) if ps else ()
    return ("f", kind, li(c), li(t), pp, li(ids))


def enc_ref(r) -> str:
    return "C" if r == "C" else f"{r[0]}.{r[1]}"


def dec_ref(s: str):
    if s == "C":
        return "C"
    j, i = s.split(".")
    return (int(j), int(i))


def enc_src(s) -> str:
    if s[0] == "h":
        return f"h{s[1]}"
    if s[0] == "L":
        return "L" + "&".join(enc_gate(g) for g in s[1])
    return f"Q{s[1]}@" + "&".join(enc_gate(g) for g in s[2])


def dec_src(s: str):
    if s[0] == "h":
        return ("h", int(s[1:]))
    if s[0] == "L":
        return ("L", [dec_gate(x) for x in s[1:].split("&") if x])
    n, gs = s[1:].split("@")
    return ("Q", int(n), [dec_gate(x) for x in gs.split("&") if x])


def enc_ang(a) -> str:
    if a is None:
        return "-"
    if a[0] == "P":
        return "P" + enc_ref(a[1])
    return "F" + ",".join(f"{enc_ref(r)}*{rat_s(c)}" for r, c in a[1])


def dec_ang(s: str):
    if s == "-":
        return None
    if s[0] == "P":
        return ("P", dec_ref(s[1:]))
    out = []
    for t in s[1:].split(","):
        if t:
            r, c = t.split("*")
            out.append((dec_ref(r), fr(c)))
    return ("F", out)


def enc_op(op) -> str:
    t = op[0]
    if t in ("newL", "newP"):
        return f"{t}:{op[1]}"
    if t == "addParams":
        return f"addParams:{op[1]}:{op[2]}"
    if t == "addGate":
        return f"addGate:{op[1]}:{enc_gate(op[2])}"
    if t == "insGate":  # add_gate(gate, gate_index) — reference/oracle only (the Lean driver does not know it)
        return f"insGate:{op[1]}:{op[2]}:{enc_gate(op[3])}"
    if t == "addPar":
        return f"addPar:{op[1]}:{op[2]}:{','.join(map(str, op[3]))}:{','.join(map(str, op[4]))}:{enc_ang(op[5])}"
    if t in ("extend", "plus"):
        return f"{t}:{op[1]}:{enc_src(op[2])}"
    if t == "rplus":
        return f"rplus:{enc_src(op[1])}:{op[2]}"
    if t == "tr":
        return f"tr:{','.join(op[1])}:{op[2]}:{op[3]}"
    raise ValueError(op)


def dec_op(s: str):
    f = s.strip().split(":")
    t = f[0]
    li = lambda x: tuple(int(v) for v in x.split(",")) if x else ()
    if t in ("newL", "newP"):
        return (t, int(f[1]))
    if t == "addParams":
        return (t, int(f[1]), int(f[2]))
    if t == "addGate":
        return (t, int(f[1]), dec_gate(f[2]))
    if t == "insGate":
        return (t, int(f[1]), int(f[2]), dec_gate(f[3]))
    if t == "addPar":
        return (t, int(f[1]), f[2], li(f[3]), li(f[4]), dec_ang(f[5]))
    if t in ("extend", "plus"):
        return (t, int(f[1]), dec_src(f[2]))
    if t == "rplus":
        return (t, dec_src(f[1]), int(f[2]))
    if t == "tr":
        return (t, [x for x in f[1].split(",") if x], int(f[2]), int(f[3]) if len(f) > 3 else 0)
    raise ValueError(s)


def lean_op(s: str) -> str:
    """the Lean driver does not see the nesting flag of `tr`"""
    f = s.split(":")
    return ":".join(f[:3]) if f[0] == "tr" else s


# ---------------------------------------------------------------------------------------------
# interpreter on the REAL implementation
# ---------------------------------------------------------------------------------------------
class Real:
    def __init__(self):
        from quri_parts.circuit import CONST

        self.circs = []
        self.CONST = CONST
        self.keep = []
        # identity of a Parameter is the library's own `==` / `hash` (the installed binary hands out a new
        # Python wrapper object per access, so `is` / id() are not usable)
        self.ids = {}

    # -- construction ------------------------------------------------------------------------
    def gate(self, g):
        from quri_parts.circuit import QuantumGate

        _, kind, c, t, ps, ids = g
        return QuantumGate(name=kind, target_indices=tuple(t), control_indices=tuple(c),
                           params=tuple(float(v) if k == "v" else HALF_PI[v] for k, v in ps), pauli_ids=tuple(ids))

    def ref(self, r):
        if r == "C":
            return self.CONST
        return self.circs[r[0]].param_mapping.in_params[r[1]]

    def src(self, s):
        from quri_parts.circuit import QuantumCircuit

        if s[0] == "h":
            return self.circs[s[1]]
        if s[0] == "L":
            return [self.gate(g) for g in s[1]]
        return QuantumCircuit(s[1], gates=[self.gate(g) for g in s[2]])

    def inner(self, name):
        import quri_parts.circuit.transpile as T
        from quri_parts.circuit import QuantumCircuit, gates

        if name == "id":
            return lambda c: c
        if name == "reverse":
            return lambda c: QuantumCircuit(c.qubit_count, gates=list(reversed(c.gates)))
        if name == "mark":
            return lambda c: QuantumCircuit(c.qubit_count, gates=list(c.gates) + [gates.Z(0)])
        return {"idInsert": T.IdentityInsertionTranspiler, "rx2rzh": T.RX2RZHTranspiler, "ry2rzh": T.RY2RZHTranspiler,
                "pauliRot": T.PauliRotationDecomposeTranspiler}[name]()

    def ptrans(self, name):
        import quri_parts.circuit.transpile as T

        if name.startswith("w."):
            return T.ParametricTranspiler(self.inner(name[2:]))
        return {"rx": T.ParametricRX2RZHTranspiler, "ry": T.ParametricRY2RZHTranspiler,
                "pauli": T.ParametricPauliRotationDecomposeTranspiler}[name]()

    def transpiler(self, names, nest):
        import quri_parts.circuit.transpile as T

        ts = [self.ptrans(x) for x in names]
        if nest == 0:
            return ts[0] if len(ts) == 1 else T.ParametricSequentialTranspiler(ts)
        if nest == 1 or len(ts) == 1:
            return T.ParametricSequentialTranspiler(ts)
        k = len(ts) // 2
        return T.ParametricSequentialTranspiler(
            [T.ParametricSequentialTranspiler(ts[:k]), T.ParametricSequentialTranspiler(ts[k:])])

    def apply(self, op):
        """returns ('ok', created parameters) or ('err', ExceptionClassName)"""
        try:
            return "ok", self._apply(op)
        except Exception as e:  # noqa: BLE001 — exceptions of the real code are outputs
            return "err", type(e).__name__

    def result_str(self, op, st, v):
        """op result as the driver prints it: `ok`, `ok:<positions of the returned parameters in the circuit's
        parameter list>` (add_parameters; plain add_Parametric*_gate), or the exception class"""
        if st != "ok":
            return v
        if op[0] == "addParams" or (op[0] == "addPar" and op[5] is None):
            plist = list(self.circs[op[1]].param_mapping.in_params)
            pos = []
            for p in v:
                idx = [i for i, q in enumerate(plist) if q == p]
                pos.append(str(idx[-1]) if idx else "?")
            return "ok:" + ",".join(pos)
        return "ok"

    def _apply(self, op):
        from quri_parts.circuit import LinearMappedParametricQuantumCircuit, ParametricQuantumCircuit

        t = op[0]
        if t == "newL":
            self.circs.append(LinearMappedParametricQuantumCircuit(op[1]))
            return []
        if t == "newP":
            self.circs.append(ParametricQuantumCircuit(op[1]))
            return []
        if t == "addParams":
            c = self.circs[op[1]]
            # equal names on purpose: identity, not the name, distinguishes parameters
            new = list(c.add_parameters(*["p" for _ in range(op[2])]))
            self.keep += new
            return new
        if t == "addGate":
            self.circs[op[1]].add_gate(self.gate(op[2]))
            return []
        if t == "insGate":
            self.circs[op[1]].add_gate(self.gate(op[3]), op[2])
            return []
        if t == "addPar":
            _, h, pk, ts, ids, ang = op
            c = self.circs[h]
            args = [list(ts), list(ids)] if pk == "prot" else [ts[0]]
            meth = getattr(c, {"rx": "add_ParametricRX_gate", "ry": "add_ParametricRY_gate", "rz": "add_ParametricRZ_gate",
                               "prot": "add_ParametricPauliRotation_gate"}[pk])
            if ang is None:
                p = meth(*args)
                self.keep.append(p)
                return [p]
            if ang[0] == "P":
                meth(*args, self.ref(ang[1]))
            else:
                d = {}
                for r, coef in ang[1]:
                    d[self.ref(r)] = float(coef)
                try:
                    meth(*args, d)
                finally:
                    d.clear()  # the circuit must not alias the caller's dictionary
            self.keep += list(c.param_mapping.out_params[-1:])
            return []
        if t == "extend":
            self.circs[op[1]].extend(self.src(op[2]))
            return []
        if t == "plus":
            r = self.circs[op[1]] + self.src(op[2])
            self.circs.append(r)
            return []
        if t == "rplus":
            r = self.src(op[1]) + self.circs[op[2]]
            self.circs.append(r)
            return []
        if t == "tr":
            r = self.transpiler(op[1], op[3])(self.circs[op[2]])
            self.keep += list(r.param_mapping.out_params)
            self.circs.append(r)
            return []
        raise InfraError(f"unknown op {op}")

    # -- observation -------------------------------------------------------------------------
    def pid(self, p):
        if p == self.CONST:
            return "C"
        if p not in self.ids:
            self.ids[p] = len(self.ids) + 1
        return ("#", self.ids[p])

    def is_lin(self, c):
        return type(c).__name__ == "LinearMappedParametricQuantumCircuit"

    def obs(self, h):
        return self.obs_of(self.circs[h])

    def obs_of(self, c):
        pm = c.param_mapping
        self.keep += list(pm.in_params) + list(pm.out_params)
        gs = []
        for g, p in c.primitive_circuit().gates_and_params:
            if p is None:
                gs.append(canon_real_gate(g))
            else:
                self.keep.append(p)
                gs.append(["p", PNAME[g.name], list(g.target_indices), list(g.pauli_ids), self.pid(p)])
        mp = []
        for k, v in pm.mapping.items():
            if hasattr(v, "items"):
                mp.append([self.pid(k), ["f", sorted([[self.pid(p), rat_s(Fraction(x))] for p, x in v.items()], key=repr)]])
            else:
                mp.append([self.pid(k), ["p", self.pid(v)]])
        return ["L" if self.is_lin(c) else "P", c.qubit_count, [self.pid(p) for p in pm.in_params],
                [self.pid(p) for p in pm.out_params], gs, mp]

    def query(self, q):
        f = q.split(":")
        t = f[0]
        try:
            c = self.q_obj(self.circs[int(f[1])], q)
            if t == "obs":
                return self.obs_of(c)
            if t == "bind":
                vals = self.q_vals([float(fr(x)) for x in f[2].split(",") if x], q)
                return ["ok", [canon_real_gate(g) for g in c.bind_parameters(vals).gates]]
            if t == "bindDict":
                d = {}
                for kv in f[2].split(","):
                    if kv:
                        r, v = kv.split("=")
                        d[self.ref(dec_ref(r))] = float(fr(v))
                return ["ok", [canon_real_gate(g) for g in c.bind_parameters_by_dict(d).gates]]
            if t == "seqmap":
                vals = self.q_vals([float(fr(x)) for x in f[2].split(",") if x], q)
                return ["ok", [rat_s(Fraction(x)) for x in c.param_mapping.seq_mapper(vals)]]
            if t == "trivial":
                return ["ok", bool(c.has_trivial_parameter_mapping)]
            if t == "count":
                return c.parameter_count
        except Exception as e:  # noqa: BLE001
            return ["err", type(e).__name__]
        raise InfraError(f"unknown query {q}")

    # hooks (argument forms / entry points), overridden by VariantReal
    def q_obj(self, c, q):
        return c

    def q_vals(self, vals, q):
        return vals

    def final_issues(self):
        return []


NAMED_ADDERS = {"X", "Y", "Z", "H", "S", "Sdag", "SqrtX", "T", "Identity"}


class VariantReal(Real):
    """Same operation language and the same specified meaning, but every operation / query goes through a
    (deterministically, per `vseed` and op text) chosen *equivalent* public entry point or argument form:
    deprecated aliases and explicit optional arguments of the constructors, add_parameter one at a time, add_<Name>_gate
    / add_gate with explicit (None / end) index, keyword arguments, Mapping / tuple / numpy argument containers, integer
    coefficients and values, `+=`, combine(), frozen (immutable) operands on either side of + / extend / transpilers,
    queries on freeze() / get_mutable_copy() of the circuit.  A mutation may be redirected to get_mutable_copy() of the
    circuit (which then replaces it in the store); the replaced original must stay as it was (`final_issues`)."""

    def __init__(self, vseed):
        super().__init__()
        self.vseed = vseed
        self.shadows = []
        self.used = []

    def _vr(self, tag):
        return _random.Random(zlib.crc32(f"{self.vseed}|{tag}".encode()))

    def note(self, what):
        self.used.append(what)

    def target(self, h, r):
        """the circuit a mutating operation acts on"""
        c = self.circs[h]
        x = r.random()
        if x < 0.15:
            snap = self.snap_of(c)
            m = c.get_mutable_copy()
            self.shadows.append((h, c, snap, "get_mutable_copy() was taken and only the copy was modified afterwards, but the original"))
            self.circs[h] = m
            self.note("get_mutable_copy-then-mutate")
            return m
        if x < 0.3:
            fz = c.freeze()
            self.shadows.append((h, fz, self.snap_of(fz), "freeze() was taken before the circuit was modified further, but the frozen circuit"))
            self.note("freeze-then-mutate")
        return c

    def frozen(self, c, r, p=0.4):
        if r.random() < p:
            self.note("frozen-operand")
            return c.freeze()
        return c

    def src(self, s, r=None):
        from quri_parts.circuit import QuantumCircuit

        r = r or self._vr("src")
        if s[0] == "h":
            return self.frozen(self.circs[s[1]], r)
        if s[0] == "L":
            gs = [self.gate(g) for g in s[1]]
            if r.random() < 0.4:
                self.note("gate-tuple")
                return tuple(gs)
            return gs
        qc = QuantumCircuit(s[1], gates=[self.gate(g) for g in s[2]])
        return self.frozen(qc, r)

    def _apply(self, op):
        import quri_parts.circuit as QC

        t = op[0]
        r = self._vr(enc_op(op))
        if t in ("newL", "newP"):
            cls = {"newL": [QC.LinearMappedParametricQuantumCircuit, QC.LinearMappedUnboundParametricQuantumCircuit],
                   "newP": [QC.ParametricQuantumCircuit, QC.UnboundParametricQuantumCircuit]}[t][r.randrange(2)]
            k = r.randrange(3)
            self.note(f"ctor-form{k}")
            self.circs.append(cls(op[1]) if k == 0 else cls(op[1], 0) if k == 1 else cls(qubit_count=op[1], cbit_count=0))
            return []
        if t == "addParams":
            c = self.target(op[1], r)
            if op[2] >= 1 and r.random() < 0.6:
                self.note("add_parameter")
                new = [c.add_parameter("p") for _ in range(op[2])]
            else:
                new = list(c.add_parameters(*["p" for _ in range(op[2])]))
            self.keep += new
            return new
        if t == "addGate":
            c = self.target(op[1], r)
            _, kind, ctrl, tgt, ps, ids = op[2]
            x = r.random()
            angle = [float(v) if k == "v" else HALF_PI[v] for k, v in ps]
            meth = getattr(c, f"add_{kind}_gate", None)
            if x < 0.45 and meth is not None:
                self.note("named-adder")
                if kind in NAMED_ADDERS:
                    meth(tgt[0])
                elif kind in ("RX", "RY", "RZ"):
                    meth(tgt[0], angle[0])
                elif kind in ("CNOT", "CZ"):
                    meth(ctrl[0], tgt[0])
                elif kind == "SWAP":
                    meth(tgt[0], tgt[1])
                elif kind == "Pauli":
                    meth(list(tgt), list(ids))
                elif kind == "PauliRotation":
                    meth(tuple(tgt), tuple(ids), angle[0])
                else:
                    c.add_gate(self.gate(op[2]))
            elif x < 0.6:
                self.note("add_gate-index-None")
                c.add_gate(self.gate(op[2]), None)
            elif x < 0.8:
                self.note("add_gate-index-end")
                c.add_gate(self.gate(op[2]), gate_index=len(c.primitive_circuit().gates))
            else:
                c.add_gate(self.gate(op[2]))
            return []
        if t == "addPar":
            from types import MappingProxyType
            from collections import OrderedDict

            _, h, pk, ts, ids, ang = op
            c = self.target(h, r)
            name = {"rx": "add_ParametricRX_gate", "ry": "add_ParametricRY_gate", "rz": "add_ParametricRZ_gate",
                    "prot": "add_ParametricPauliRotation_gate"}[pk]
            meth = getattr(c, name)
            lin = self.is_lin(c)
            kw = lin and r.random() < 0.3
            if pk == "prot":
                cont = tuple if r.random() < 0.5 else list
                args, kwargs = ([], {"qubit_indices": cont(ts), "pauli_ids": cont(ids)}) if kw else ([cont(ts), cont(ids)], {})
            else:
                args, kwargs = ([], {"qubit_index": ts[0]}) if kw or (not lin and r.random() < 0.3) else ([ts[0]], {})
            if kw:
                self.note("keyword-arguments")
            if ang is None:
                p = meth(*args, **kwargs)
                self.keep.append(p)
                return [p]
            if ang[0] == "P":
                a, d = self.ref(ang[1]), None
            else:
                d = OrderedDict() if r.random() < 0.3 else {}
                ints = r.random() < 0.5
                for rf, coef in ang[1]:
                    d[self.ref(rf)] = int(coef) if (ints and coef.denominator == 1) else float(coef)
                a = d
                if r.random() < 0.35:
                    self.note("MappingProxy-angle")
                    a = MappingProxyType(d)
            try:
                if kw:
                    meth(**kwargs, angle=a)
                else:
                    meth(*args, a)
            finally:
                if d is not None:
                    d.clear()
            self.keep += list(c.param_mapping.out_params[-1:])
            return []
        if t == "extend":
            c = self.target(op[1], r)
            src = self.src(op[2], r)
            s0 = op[2]
            if self.is_lin(c) and r.random() < 0.4 and (s0[0] == "L" or (s0[0] == "h" and self.is_lin(self.circs[s0[1]]))):
                self.note("iadd")
                try:
                    c += src
                except TypeError:
                    # `+=` turns the ValueError of extend into NotImplemented, hence (no reflected fallback for these
                    # operands) a TypeError: the same rejection
                    raise ValueError("+= rejected")
            else:
                c.extend(src)
            return []
        if t == "plus":
            c = self.frozen(self.circs[op[1]], r)
            src = self.src(op[2], r)
            res = NotImplemented
            if self.is_lin(self.circs[op[1]]) and r.random() < 0.3:
                self.note("combine")
                res = c.combine(src)
            if res is NotImplemented:
                res = c + src
            self.circs.append(res)
            return []
        if t == "rplus":
            res = self.src(op[1], r) + self.frozen(self.circs[op[2]], r)
            self.circs.append(res)
            return []
        if t == "tr":
            res = self.transpiler(op[1], op[3])(self.frozen(self.circs[op[2]], r))
            self.keep += list(res.param_mapping.out_params)
            self.circs.append(res)
            return []
        return super()._apply(op)

    def is_lin(self, c):
        return type(c).__name__ in ("LinearMappedParametricQuantumCircuit", "ImmutableLinearMappedParametricQuantumCircuit")

    def q_obj(self, c, q):
        x = self._vr("obj|" + q).random()
        if x < 0.35:
            self.note("query-on-freeze")
            return c.freeze()
        if x < 0.55:
            self.note("query-on-mutable-copy")
            return c.get_mutable_copy()
        return c

    def q_vals(self, vals, q):
        import numpy as np

        x = self._vr("vals|" + q).random()
        if x < 0.25:
            return tuple(vals)
        if x < 0.5:
            self.note("numpy-values")
            return np.array(vals, dtype=float)
        if x < 0.7 and all(float(v).is_integer() for v in vals):
            self.note("int-values")
            return [int(v) for v in vals]
        return vals

    def snap_of(self, c):
        """observation with the (unordered) mapping dictionary in a canonical order"""
        o = self.obs_of(c)
        return o[:5] + [sorted(o[5], key=repr)]

    def final_issues(self):
        out = []
        for h, old, snap, what in self.shadows:
            try:
                now = self.snap_of(old)
            except Exception as e:  # noqa: BLE001
                now = ["err", type(e).__name__]
            if now != snap:
                out.append(f"circuit {h}: {what} changed from {snap} to {now}")
        return out


def canon_param(x: float):
    for q, v in HALF_PI.items():
        if x == v:
            return f"h{q}"
    return "v" + rat_s(Fraction(x))


def canon_real_gate(g):
    return ["f", g.name, list(g.control_indices), list(g.target_indices), [canon_param(float(x)) for x in g.params],
            list(g.pauli_ids)]


# ---------------------------------------------------------------------------------------------
# canonicalisation: parameter identities renamed by first appearance
# ---------------------------------------------------------------------------------------------
def model_obs(o):
    """driver JSON of `obs` → same shape as Real.obs (ids tagged)"""
    kind, n, inp, outp, mp, gs = o
    tag = lambda i: "C" if i == 0 else ("#", i)
    g2 = []
    for g in gs:
        g2.append(g if g[0] == "f" else ["p", g[1], g[2], g[3], tag(g[4])])
    m2 = []
    for k, a in mp:
        if a[0] == "p":
            m2.append([tag(k), ["p", tag(a[1])]])
        else:
            m2.append([tag(k), ["f", sorted([[tag(p), c] for p, c in a[1]], key=repr)]])
    return [kind, n, [tag(i) for i in inp], [tag(i) for i in outp], g2, m2]


class Renamer:
    def __init__(self):
        self.tab = {}

    def name(self, x):
        if isinstance(x, tuple) and len(x) == 2 and x[0] == "#":
            if x[1] not in self.tab:
                self.tab[x[1]] = len(self.tab) + 1
            return f"#{self.tab[x[1]]}"
        if isinstance(x, list):
            return [self.name(y) for y in x]
        if isinstance(x, tuple):
            return [self.name(y) for y in x]
        return x

    def obs(self, o):
        kind, n, inp, outp, gs, mp = o
        head = self.name([kind, n, inp, outp, gs])
        # every key of the mapping is an out-param (already named); order of the dictionary is immaterial
        m2 = []
        for k, a in mp:
            kk = self.name(k)
            if a[0] == "f":
                terms = sorted(self.name(a[1]), key=lambda t: (str(t[0]), t[1]))
                m2.append([kk, ["f", terms]])
            else:
                m2.append([kk, self.name(a)])
        m2.sort(key=lambda e: json.dumps(e[0]))
        return head + [m2]


def canon_response(opres, qres, queries, is_model):
    """both sides in the same shape ([kind, n, in, out, gates, map] for `obs`), one renaming table per response"""
    rn = Renamer()
    out = []
    for q, r in zip(queries, qres):
        if q.startswith("obs") and isinstance(r, list) and len(r) == 6:
            out.append(rn.obs(model_obs(r) if is_model else r))
        else:
            out.append(rn.name(r))
    return [list(opres), out]


# ---------------------------------------------------------------------------------------------
# history generation (adaptive: the real interpreter is run while the history is drawn)
# ---------------------------------------------------------------------------------------------
def rnd_frac(rng, small=False):
    j = rng.choice([0, 0, 1, 2, 3])
    k = rng.randint(-8, 8) if small else rng.randint(-24, 24)
    return Fraction(k, 2 ** j)


def rnd_fixed_gate(rng, n, allow_bad=False):
    hi = n + (1 if allow_bad and rng.random() < 0.15 else 0)
    q = lambda: rng.randrange(max(1, hi))
    k = rng.random()
    if k < 0.4 or n < 2:
        if rng.random() < 0.35:
            return ("f", rng.choice(["RX", "RY", "RZ"]), (), (q(),), (("v", rnd_frac(rng)),), ())
        return ("f", rng.choice(ONE_Q), (), (q(),), (), ())
    if k < 0.7:
        a, b = rng.sample(range(max(2, hi)), 2)
        return ("f", rng.choice(["CNOT", "CZ"]), (a,), (b,), (), ())
    if k < 0.8:
        a, b = rng.sample(range(max(2, hi)), 2)
        return ("f", "SWAP", (), (a, b), (), ())
    m = rng.randint(1, min(n, 3))
    ts = tuple(rng.sample(range(n), m))
    ids = tuple(rng.randint(1, 3) for _ in ts)
    if rng.random() < 0.5:
        return ("f", "PauliRotation", (), ts, (("v", rnd_frac(rng)),), ids)
    return ("f", "Pauli", (), ts, (), ids)


def gen_history(rng, real: Real, n_ops: int, mode="full"):
    """draws ops one at a time, applying each to `real`; returns (ops, results).
    mode 'oracle': only operations on which the reference semantics has an opinion"""
    ops, res = [], []
    oracle = mode == "oracle"

    def push(op):
        r = real.apply(op)
        ops.append(op)
        res.append(r)
        return r

    base_n = rng.randint(1, 3)
    for _ in range(rng.randint(2, 3)):
        n = base_n if rng.random() < 0.8 else rng.randint(1, 3)
        push(("newL" if rng.random() < 0.75 else "newP", n))
    if not any(real.is_lin(c) for c in real.circs):
        push(("newL", base_n))
    for _ in range(n_ops):
        h = rng.randrange(len(real.circs))
        c = real.circs[h]
        lin = real.is_lin(c)
        n = c.qubit_count
        r = rng.random()
        if r < 0.14 and lin:
            push(("addParams", h, rng.choice([1, 1, 2, 2, 3, 0])))
        elif r < 0.28:
            if oracle and rng.random() < 0.4:
                # add_gate(gate, gate_index): any position of the present gate list (sometimes one past the end: rejected)
                ng = len(c.primitive_circuit().gates)
                push(("insGate", h, rng.randint(0, ng + (1 if rng.random() < 0.1 else 0)), rnd_fixed_gate(rng, n)))
            else:
                push(("addGate", h, rnd_fixed_gate(rng, n, allow_bad=not oracle)))
        elif r < 0.56:
            pk = rng.choice(["rx", "ry", "rz", "prot"])
            if pk == "prot":
                m = rng.randint(1, min(n, 3))
                ts = tuple(rng.sample(range(n), m))
                ids = tuple(rng.randint(1, 3) for _ in ts)
            else:
                ts, ids = (rng.randrange(n),), ()
            if not oracle and rng.random() < 0.06:
                ts = ts[:-1] + (n,)  # out of range
            if not lin:
                push(("addPar", h, pk, ts, ids, None))
                continue

            def pick_ref():
                x = rng.random()
                own = len(c.param_mapping.in_params)
                if x < 0.08:
                    return "C"
                if x < 0.2 or own == 0:
                    cand = [(j, i) for j, o in enumerate(real.circs) for i in range(len(o.param_mapping.in_params))]
                    return rng.choice(cand) if cand else "C"
                return (h, rng.randrange(own))

            if rng.random() < 0.3:
                ang = ("P", pick_ref())
            else:
                terms, seen = [], set()
                for _ in range(rng.choice([0, 1, 1, 2, 2, 3])):
                    rf = pick_ref()
                    key = "C" if rf == "C" else real.pid(real.ref(rf))
                    if key in seen:
                        continue
                    seen.add(key)
                    terms.append((rf, Fraction(1) if rng.random() < 0.25 else rnd_frac(rng, small=True)))
                ang = ("F", terms)
            push(("addPar", h, pk, ts, ids, ang))
        elif r < 0.9:
            kind = rng.choice(["extend", "extend", "plus", "plus", "rplus"])
            x = rng.random()
            if x < 0.6:
                j = rng.randrange(len(real.circs))
                if rng.random() < 0.25:
                    j = h
                src = ("h", j)
            elif x < 0.8:
                gs = [rnd_fixed_gate(rng, n) for _ in range(rng.randint(0, 3))]
                if not oracle and rng.random() < 0.2:
                    gs.insert(rng.randint(0, len(gs)), ("f", "X", (), (n,), (), ()))
                src = ("L", gs)
            else:
                nq = n if rng.random() < 0.75 or oracle else n + rng.choice([-1, 1])
                nq = max(1, nq)
                src = ("Q", nq, [rnd_fixed_gate(rng, nq) for _ in range(rng.randint(0, 3))])
            if src[0] == "h":
                o = real.circs[src[1]]
                if not lin and not real.is_lin(o):
                    if kind == "extend" and src[1] == h:
                        continue  # plain.extend(itself): Rust "already borrowed" panic, outside the property
                    if oracle:
                        continue
                if kind == "rplus":
                    kind = "plus"
                    if not lin and real.is_lin(o):
                        pass  # plain + linear-mapped → o.__radd__(plain)
                if kind == "extend" and not lin and real.is_lin(o) and oracle:
                    continue
            else:
                if not lin:
                    if kind == "plus" and src[0] == "Q":
                        kind = "extend"
                    if kind == "rplus" and src[0] == "Q":
                        kind = "extend"
            if kind == "rplus":
                push(("rplus", src, h))
            else:
                push((kind, h, src))
        else:
            if oracle:
                continue
            names = []
            for _ in range(rng.choice([1, 1, 2, 3])):
                names.append(rng.choice(["rx", "ry", "pauli", "w.id", "w.reverse", "w.mark", "w.idInsert", "w.rx2rzh",
                                         "w.ry2rzh", "w.pauliRot"]))
            push(("tr", names, h, rng.randint(0, 2)))
    return ops, res


def gen_queries(rng, real: Real, oracle=False):
    qs = []
    for h, c in enumerate(real.circs):
        qs.append(f"obs:{h}")
        k = c.parameter_count
        for _ in range(2):
            m = k
            x = rng.random()
            if not oracle and x < 0.15 and k > 0:
                m = k - 1
            elif not oracle and x < 0.25:
                m = k + 1
            qs.append(f"bind:{h}:" + ",".join(rat_s(rnd_frac(rng)) for _ in range(m)))
        if oracle:
            continue
        if real.is_lin(c):
            pairs = [f"{h}.{i}={rat_s(rnd_frac(rng))}" for i in range(len(c.param_mapping.in_params))]
            if pairs and rng.random() < 0.2:
                pairs.pop(rng.randrange(len(pairs)))
            qs.append(f"bindDict:{h}:" + ",".join(pairs))
        else:
            pairs = [f"{h}.{i}={rat_s(rnd_frac(rng))}" for i in range(k)]
            if pairs and rng.random() < 0.2:
                pairs.pop(rng.randrange(len(pairs)))
            qs.append(f"bindDict:{h}:" + ",".join(pairs))
        m = k if rng.random() < 0.8 else k + rng.choice([-1, 1])
        qs.append(f"seqmap:{h}:" + ",".join(rat_s(rnd_frac(rng)) for _ in range(max(0, m))))
        qs.append(f"trivial:{h}")
        qs.append(f"count:{h}")
    return qs


def request_line(op_strs, queries):
    return " | ".join(lean_op(o) for o in op_strs) + " || " + " | ".join(queries)


def real_run(op_strs, queries, vseed=None):
    """replay a history given as strings on a fresh real interpreter (`vseed`: through equivalent entry points)"""
    real = Real() if vseed is None else VariantReal(vseed)
    opres = []
    for s in op_strs:
        op = dec_op(s)
        st, v = real.apply(op)
        opres.append(real.result_str(op, st, v))
    qres = [real.query(q) for q in queries]
    return real, opres, qres


def first_diff(a, b, path=""):
    if type(a) != type(b):
        return f"{path}: {a!r} vs {b!r}"
    if isinstance(a, list):
        if len(a) != len(b):
            return f"{path}: length {len(a)} vs {len(b)}"
        for i, (x, y) in enumerate(zip(a, b)):
            d = first_diff(x, y, f"{path}[{i}]")
            if d:
                return d
        return None
    return None if a == b else f"{path}: {a!r} vs {b!r}"


KEY_COPY = "copy-or-frozen-circuit-aliases-original"


def compare_batch(ctx: Ctx, batch, what="history"):
    """batch: list of (op_strs, queries[, vseed]); runs the Lean driver once (per distinct request) and the real code per
    entry — directly, or (vseed given) through equivalent public entry points / argument forms"""
    if not batch:
        return
    batch = [(b[0], b[1], b[2] if len(b) > 2 else None) for b in batch]
    lines = [request_line(o, q) for o, q, _ in batch]
    uniq = list(dict.fromkeys(lines))
    resp_of = dict(zip(uniq, ctx.driver(uniq, entry=ENTRY)))
    for (op_strs, queries, vseed), line in zip(batch, lines):
        r = resp_of[line]
        try:
            mj = json.loads(r)
        except json.JSONDecodeError:
            raise InfraError(f"driver output is not JSON: {r[:200]}")
        real, ropres, rqres = real_run(op_strs, queries, vseed)
        rc = canon_response(ropres, rqres, queries, False)
        if mj == "bad-request" or any(x == "bad-query" for x in (mj[1] if isinstance(mj, list) else [])):
            # a parameter / circuit reference of the history does not resolve in the model's store: the stores have
            # diverged (the request itself is generated from the real run, so on agreeing stores this cannot happen)
            mc = ["model-cannot-resolve-a-reference", mj if isinstance(mj, str) else mj[0]]
        else:
            mc = canon_response(mj[0], mj[1], queries, True)
        ctx.traces += 1
        kinds = [o.split(":")[0] for o in op_strs]
        for k in kinds:
            ctx.count("ops", k)
        for x in ropres:
            ctx.count("op_outcome", x.split(":")[0])
        for q, x in zip(queries, rqres):
            if isinstance(x, list) and x and x[0] == "err":
                ctx.count("query_outcome", f"{q.split(':')[0]}:{x[1]}")
            else:
                ctx.count("query_outcome", f"{q.split(':')[0]}:ok")
        for u in getattr(real, "used", []):
            ctx.count("entry_point_variant", u)
        nontrivial = any(k in ("extend", "plus", "rplus", "tr") for k in kinds) and any(k == "addPar" for k in kinds)
        ctx.case(line if vseed is None else f"{line} ## variant {vseed}", nontrivial,
                 sample={"request": line[:400], "model": r[:300]})
        for issue in real.final_issues():
            ctx.witness(KEY_COPY, issue[:900], {"ops": op_strs, "entry_point_variant_seed": vseed}, None)
        d = first_diff(rc, mc)
        if d:
            small_o, small_q = shrink(ctx, op_strs, queries, vseed) if len(ctx.disagreements) < 3 else (op_strs, queries)
            ctx.disagree(what if vseed is None else what + " (through equivalent entry points / argument forms)",
                         {"request": request_line(small_o, small_q), "ops": small_o, "queries": small_q,
                          "entry_point_variant_seed": vseed,
                          "forms_used": sorted(set(getattr(real_run(small_o, small_q, vseed)[0], "used", [])))},
                         f"real differs at {d}"[:600], r[:600])


def disagrees(ctx, op_strs, queries, vseed=None):
    try:
        line = request_line(op_strs, queries)
        r = ctx.driver([line], entry=ENTRY)[0]
        mj = json.loads(r)
        if not isinstance(mj, list) or any(x == "bad-query" for x in mj[1]):
            return False
        _, ropres, rqres = real_run(op_strs, queries, vseed)
        return first_diff(canon_response(ropres, rqres, queries, False), canon_response(mj[0], mj[1], queries, True)) is not None
    except Exception:  # noqa: BLE001 — a shrink candidate that is not a valid history
        return False


def shrink(ctx, op_strs, queries, vseed=None, budget=14):
    """greedy delta-debugging on queries then ops (bounded number of driver calls)"""
    ops, qs = list(op_strs), list(queries)
    calls = 0
    for seq in ("q", "o"):
        i = 0
        while calls < budget:
            cur = qs if seq == "q" else ops
            if i >= len(cur):
                break
            cand = cur[:i] + cur[i + 1:]
            calls += 1
            if (seq == "q" and cand and disagrees(ctx, ops, cand, vseed)) or (seq == "o" and disagrees(ctx, cand, qs, vseed)):
                if seq == "q":
                    qs = cand
                else:
                    ops = cand
            else:
                i += 1
    return ops, qs


# ---------------------------------------------------------------------------------------------
# correspondence
# ---------------------------------------------------------------------------------------------
FIXED_HISTORIES = [
    # (ops, queries) — hand-written corner cases, always run
    (F6_HISTORY.split(" | "), ["obs:0", "obs:1", "bind:1:1/1,3/1", "bind:1:1/1", "count:1", "bindDict:1:0.0=2/1"]),
    (["newL:2", "addParams:0:2", "addPar:0:rx:0::F0.0*2/1,C*1/2", "addPar:0:prot:0,1:1,2:P0.1", "newP:2", "addPar:1:ry:1::-",
      "extend:0:h1", "extend:0:h1", "tr:pauli,rx,w.mark:0:2", "plus:1:h0"],
     ["obs:0", "obs:1", "obs:2", "obs:3", "bind:2:1/2,3/1,1/4,5/1", "bind:3:1/1,2/1,3/1,4/1,5/1", "trivial:1", "trivial:0",
      "seqmap:0:1/1,2/1,3/1,4/1", "seqmap:0:1/1"]),
    (["newL:2", "addParams:0:1", "newL:3", "extend:0:h1", "plus:0:h1", "rplus:Q3@:0", "rplus:L X;;2;;:0",
      "extend:0:LH;;0;;&X;;2;;&Y;;1;;", "addPar:0:rz:0::PC", "addPar:0:rz:0::F"],
     ["obs:0", "bind:0:1/1", "bind:0:", "trivial:0"]),
    (["newP:2", "addPar:0:rx:0::-", "addGate:0:H;;1;;", "newP:3", "addPar:1:prot:0,2:1,3:-", "extend:0:h1", "plus:0:h1",
      "plus:1:h0", "rplus:LX;;0;;:0", "tr:w.reverse:0:0", "tr:ry,w.idInsert:3:1"],
     ["obs:0", "obs:1", "obs:2", "obs:3", "obs:4", "bind:0:1/2", "bind:0:", "bind:2:1/1,2/1", "bindDict:0:0.0=1/4", "bindDict:0:"]),
]


def correspond(ctx: Ctx):
    rng = ctx.rng
    batch = []
    corpus_dir = os.path.join(VERIF, "corpus", "C10")
    if os.path.isdir(corpus_dir):
        for fn in sorted(os.listdir(corpus_dir)):
            if fn.endswith(".json"):
                d = json.load(open(os.path.join(corpus_dir, fn)))
                batch.append((d["ops"], d["queries"]))
                for v in range(3):
                    batch.append((d["ops"], d["queries"], v))
                ctx.count("source", "corpus")
    for o, q in FIXED_HISTORIES:
        batch.append((list(o), list(q)))
        for v in range(3):
            batch.append((list(o), list(q), v))
        ctx.count("source", "fixed")
    N = ctx.n(260, 6000)
    for i in range(N):
        real = Real()
        ops, _ = gen_history(rng, real, rng.randint(3, 14) if i % 7 else rng.randint(15, 28))
        qs = gen_queries(rng, real)
        batch.append(([enc_op(o) for o in ops], qs))
        ctx.count("source", "random")
        if i % 5 != 4:
            # the same history through equivalent public entry points / argument forms (same model answer)
            batch.append(([enc_op(o) for o in ops], qs, rng.randrange(1 << 30)))
            ctx.count("source", "random-variant")
        if len(batch) >= 400:
            compare_batch(ctx, batch)
            batch = []
    compare_batch(ctx, batch)
    if not ctx.quick():
        exhaustive_small(ctx)


def exhaustive_small(ctx: Ctx):
    """thorough: every history of length ≤ 3 over a small alphabet appended to a fixed two-circuit prefix"""
    prefix = ["newL:2", "addParams:0:1", "addPar:0:rx:0::P0.0", "newL:2", "addParams:1:1", "addPar:1:prot:0,1:3,1:F1.0*1/2,C*1/1"]
    alpha = ["extend:0:h1", "extend:0:h0", "extend:1:h0", "plus:0:h0", "plus:0:h1", "rplus:LH;;0;;:1", "addPar:0:rz:1::F0.0*2/1",
             "addPar:1:ry:0::P0.0", "addParams:1:1", "tr:rx:0:0", "tr:pauli:1:0", "tr:w.mark:0:0", "addGate:0:CNOT;0;1;;",
             "extend:0:LX;;2;;"]
    batch = []
    import itertools

    for k in (1, 2, 3):
        for combo in itertools.product(alpha, repeat=k):
            ops = prefix + list(combo)
            real, opres, _ = real_run(ops, [])
            qs = []
            for h, c in enumerate(real.circs):
                qs.append(f"obs:{h}")
                qs.append(f"bind:{h}:" + ",".join(f"{i + 1}/2" for i in range(c.parameter_count)))
            batch.append((ops, qs))
            ctx.count("source", "exhaustive")
            if len(batch) >= 500:
                compare_batch(ctx, batch, "exhaustive-history")
                batch = []
    compare_batch(ctx, batch, "exhaustive-history")


# ---------------------------------------------------------------------------------------------
# oracle validation / failing-input search on the REAL code
# ---------------------------------------------------------------------------------------------
def oracle_bind(ctx: Ctx, budget_s: float, min_cases: int):
    """(A) reference semantics vs the real bind, random histories (shared and disjoint parameters)"""
    from oracle import c10ref

    rng = ctx.rng
    t0 = time.time()
    n = 0
    while n < min_cases or time.time() - t0 < budget_s:
        n += 1
        if n > min_cases * 40:
            break
        real = Real()
        ops, res = gen_history(rng, real, rng.randint(3, 12), mode="oracle")
        check_against_reference(ctx, c10ref, ops, rng, vseed=rng.randrange(1 << 30) if n % 5 < 2 else None)
    ctx.extra.setdefault("oracle", {})["bind_histories"] = n
    ctx.evaluations += n


def _value_form(rng, vals):
    """the same parameter values in another container / number type"""
    import numpy as np

    x = rng.random()
    if x < 0.25:
        return tuple(vals), "tuple"
    if x < 0.5:
        return np.array(vals, dtype=float), "numpy array"
    if x < 0.65 and all(float(v).is_integer() for v in vals):
        return [int(v) for v in vals], "list of int"
    return list(vals), "list"


def _object_form(rng, c):
    """the circuit itself or an object that is specified to denote the same circuit"""
    x = rng.random()
    if x < 0.3:
        return c.freeze(), "c.freeze()"
    if x < 0.45:
        return c.get_mutable_copy(), "c.get_mutable_copy()"
    if x < 0.55:
        return c.freeze().get_mutable_copy().freeze(), "c.freeze().get_mutable_copy().freeze()"
    if x < 0.65:
        return c.freeze().freeze(), "c.freeze().freeze()"
    return c, "c"


def check_circuit(real, ref, ident, h, rng, op_strs, full=True):
    """the real circuit `h` against the reference circuit `h`, at the present point of the history: parameter list, gate
    list, three bindings (plain list; *other* values through another container / object / bind_parameters_by_dict; the first
    values again — a result remembered per object or per call would show), depth; `full` adds the mapping rules"""
    found = []
    c, rc = real.circs[h], ref.circs[h]
    lin = real.is_lin(c)
    if lin:
        inp = list(c.param_mapping.in_params)
        mapped = [ident.get(p) for p in inp]
        if None in mapped:
            return [("in-params-unknown", f"circuit {h}: in_params contains a parameter nobody created", op_strs)]
        dedup = list(dict.fromkeys(mapped))
        if dedup != rc.params:
            return [("in-params-order", f"circuit {h}: in_params {mapped} but the parameters in order of first "
                     f"appearance are {rc.params}", op_strs)]
        if len(mapped) != len(dedup):
            found.append((KEY_F6, f"circuit {h}: parameter_count {len(mapped)} for {len(dedup)} distinct parameters "
                          f"(in_params as reference ids: {mapped})", op_strs))
        order = mapped
    else:
        if c.parameter_count != len(rc.params):
            return [("plain-count", f"circuit {h}: parameter_count {c.parameter_count} vs {len(rc.params)}", op_strs)]
        order = list(rc.params)
        mapped = dedup = order

    def draw():
        vals = {p: rnd_frac(rng) for p in rc.params}
        return vals, [float(vals[p]) for p in order]

    def want_of(vals):
        return [["f", g[1], list(g[2]), list(g[3]), [("v" + rat_s(x[1])) if x[0] == "v" else f"h{x[1]}" for x in g[4]], list(g[5])]
                for g in ref.bind(h, vals)]

    # the unbound gate list (`gates` property) — of the circuit and of its frozen form
    want_gates = [[g[1][1], list(g[1][2]), list(g[1][3]), list(g[1][5])] if g[0] == "f"
                  else ["Parametric" + BOUND[g[1]], [], list(g[2]), list(g[3])] for g in rc.gates]
    for label, get in (("c.gates", lambda: c.gates), ("c.freeze().gates", lambda: c.freeze().gates)):
        try:
            got_gates = [[g.name, list(g.control_indices), list(g.target_indices), list(g.pauli_ids)] for g in get()]
        except Exception as e:  # noqa: BLE001
            got_gates = f"raised {type(e).__name__}"
        if got_gates != want_gates:
            found.append(("gates-property", f"circuit {h}: {label} = {got_gates} but the circuit was built as {want_gates}", op_strs))
            return found

    vals, real_vals = draw()
    want = want_of(vals)
    try:
        bound = c.bind_parameters(real_vals)
        got = [canon_real_gate(g) for g in bound.gates]
    except Exception as e:  # noqa: BLE001
        found.append(("bind-raises", f"circuit {h}: bind_parameters({real_vals}) raised {type(e).__name__}", op_strs))
        return found
    if got != want:
        found.append(("bind-spec", f"circuit {h}: bind_parameters({real_vals}) = {got} but every parametric gate should carry "
                      f"its function's value: {want}", op_strs))
        return found
    try:
        dp = (c.depth, bound.depth, c.freeze().depth)
        if len(set(dp)) != 1:
            found.append(("depth", f"circuit {h}: depth of the circuit / its binding / its frozen form differ: {dp}", op_strs))
    except Exception as e:  # noqa: BLE001
        found.append(("depth", f"circuit {h}: depth raised {type(e).__name__}", op_strs))

    # other values, through another argument form / object / entry point
    vals2, real_vals2 = draw()
    want2 = want_of(vals2)
    try:
        obj, oform = _object_form(rng, c)
        if rng.random() < 0.35:
            d = dict(zip(list(obj.param_mapping.in_params), real_vals2))
            got2 = [canon_real_gate(g) for g in obj.bind_parameters_by_dict(d).gates]
            form = f"{oform}.bind_parameters_by_dict({{in_params[i]: v[i]}}), v = {real_vals2}"
        else:
            v2, vform = _value_form(rng, real_vals2)
            got2 = [canon_real_gate(g) for g in obj.bind_parameters(v2).gates]
            form = f"{oform}.bind_parameters({vform} {real_vals2})"
    except Exception as e:  # noqa: BLE001
        got2, form = f"raised {type(e).__name__}", "second binding"
    if got2 != want2:
        found.append(("bind-spec-form", f"circuit {h}: after bind_parameters({real_vals}), {form} = {got2} but every parametric "
                      f"gate should carry its function's value: {want2}", op_strs))
        return found
    try:
        got3 = [canon_real_gate(g) for g in c.bind_parameters(real_vals).gates]
        got1 = [canon_real_gate(g) for g in bound.gates]
    except Exception as e:  # noqa: BLE001
        got3 = got1 = f"raised {type(e).__name__}"
    if got3 != want or got1 != want:
        found.append(("bind-repeat", f"circuit {h}: binding {real_vals}, then {real_vals2}, then {real_vals} again gives {got3} "
                      f"(first result now reads {got1}); expected {want} both times", op_strs))
        return found
    if full and lin and len(mapped) == len(dedup):
        found += mapping_rules(h, c, rc, vals, real_vals, want, op_strs)
    return found


def check_against_reference(ctx: Ctx, c10ref, ops, rng, report=True, probe_p=0.3, vseed=None):
    """replays `ops` on a fresh real interpreter (`vseed`: through equivalent public entry points / argument forms) and on
    the reference; returns a list of (key, what, detail).
    After a successful operation the touched circuit is (with probability probe_p) checked at once — bindings interleaved
    with later mutations — and every circuit is checked at the end."""
    real = Real() if vseed is None else VariantReal(vseed)
    ref = c10ref.Ref()
    ident = {}  # real Parameter (library equality) -> reference parameter
    found = []
    op_strs = [enc_op(o) for o in ops]

    def resolve(r):
        if r == "C":
            return "C"
        try:
            return ident.get(real.ref(r), ("?", r))
        except Exception:  # noqa: BLE001 — the real store no longer has that parameter: the operation will fail there too
            return ("?", r)

    for k, op in enumerate(ops):
        refs = None
        if op[0] == "addPar" and op[5] is not None:
            refs = [resolve(op[5][1])] if op[5][0] == "P" else [resolve(r) for r, _ in op[5][1]]
        before = [c.parameter_count for c in real.circs]
        st, v = real.apply(op)
        try:
            new = ref.apply(op, refs)
            ref_ok = True
        except c10ref.RefError as e:
            ref_ok, new = False, str(e)
        if ref_ok != (st == "ok"):
            found.append(("op-acceptance", f"op {k} `{op_strs[k]}`: real {'accepts' if st == 'ok' else 'raises ' + str(v)}, "
                          f"reference {'accepts' if ref_ok else 'rejects (' + str(new) + ')'}", op_strs[: k + 1]))
            break
        if st == "ok":
            for rp, p in zip(v, new):
                ident[rp] = p
            if rng.random() < probe_p and len(real.circs) == len(ref.circs):
                h = op[1] if op[0] in ("addParams", "addGate", "insGate", "addPar", "extend") else len(real.circs) - 1
                step = check_circuit(real, ref, ident, h, rng, op_strs[: k + 1], full=False)
                step = [f for f in step if f[0] != KEY_F6]  # reported once, at the end
                if step:
                    found += step
                    break
        else:
            if [c.parameter_count for c in real.circs] != before:
                found.append(("failed-op-mutates", f"op {k} `{op_strs[k]}` raised {v} but changed a circuit", op_strs[: k + 1]))
                break
    else:
        for h in range(min(len(real.circs), len(ref.circs))):
            found += check_circuit(real, ref, ident, h, rng, op_strs, full=True)
    for issue in real.final_issues():
        found.append((KEY_COPY, issue[:900], op_strs))
    if report:
        for key, what, hist in found:
            inp = {"ops": hist}
            if vseed is not None:
                inp["entry_point_variant_seed"] = vseed
                inp["forms_used"] = sorted(set(real.used))
            ctx.witness(key, what, inp, None)
    return found


def mapping_rules(h, c, rc, vals, real_vals, want, op_strs):
    """documented behaviour of seq_mapper / is_trivial_mapping / binding with a missing value, for a linearly
    mapped circuit whose parameter list has no repetition (reference circuit `rc`, bound reference gates `want`)"""
    out = []
    pm = c.param_mapping
    par_gates = [g for g in rc.gates if g[0] == "p"]
    angles = [g[4][0] for g, src in zip(want, rc.gates) if src[0] == "p"]
    # seq_mapper: one value per parametric gate, in gate order; wrong count is a ValueError
    try:
        got = ["v" + rat_s(Fraction(x)) for x in pm.seq_mapper(real_vals)]
        if got != angles:
            out.append(("seq-mapper-values", f"circuit {h}: seq_mapper({real_vals}) = {got}, expected the gate angles {angles}", op_strs))
    except Exception as e:  # noqa: BLE001
        out.append(("seq-mapper-values", f"circuit {h}: seq_mapper({real_vals}) raised {type(e).__name__}", op_strs))
    for bad in (real_vals + [0.5], real_vals[:-1]):
        if len(bad) == len(real_vals):
            continue
        try:
            pm.seq_mapper(bad)
            out.append(("seq-mapper-length", f"circuit {h}: seq_mapper accepted {len(bad)} values for {len(real_vals)} parameters", op_strs))
        except ValueError:
            pass
        except Exception as e:  # noqa: BLE001
            out.append(("seq-mapper-length", f"circuit {h}: seq_mapper with {len(bad)} values raised {type(e).__name__}, not ValueError", op_strs))
    # is_trivial_mapping
    triv = bool(c.has_trivial_parameter_mapping)
    fns = [g[4] for g in par_gates]
    uses_const = any("C" in f for f in fns)
    identity_like = (len(fns) == len(rc.params) and all(len(f) == 1 and "C" not in f and list(f.values()) == [Fraction(1)] for f in fns)
                     and len({next(iter(f)) for f in fns}) == len(fns))
    if identity_like and not triv:
        out.append(("trivial-mapping", f"circuit {h}: every gate uses its own parameter with coefficient 1 but has_trivial_parameter_mapping is False", op_strs))
    if triv and not uses_const and sorted(angles) != sorted("v" + rat_s(Fraction(x)) for x in real_vals):
        out.append(("trivial-mapping", f"circuit {h}: has_trivial_parameter_mapping is True but the gate angles {angles} are not the "
                    f"parameter values {real_vals}", op_strs))
    # binding without a value for a parameter that a gate uses must fail
    if rc.params and any(rc.params[-1] in f for f in fns):
        try:
            c.bind_parameters(real_vals[:-1])
            out.append(("bind-missing-value", f"circuit {h}: bind_parameters with {len(real_vals) - 1} values for {len(real_vals)} used "
                        f"parameters did not raise", op_strs))
        except Exception:  # noqa: BLE001
            pass
    return out


GATESETS = [
    ("H", "RZ", "CNOT"), ("RX", "RY", "RZ", "CZ"), ("SqrtX", "RZ", "CNOT"), ("X", "SqrtX", "RZ", "CNOT"),
    ("H", "S", "T", "RZ", "CNOT", "Identity"), ("RX", "RZ", "CNOT"), ("RY", "RZ", "CZ"), ("RX", "RY", "CNOT"),
]


def transpiler_pairs():
    """name -> (factory of the parametric transpiler T̂, factory of its non-parametric counterpart T, T may reject a circuit)"""
    import quri_parts.circuit.transpile as T
    import quri_parts.circuit.transpile.gateset as G

    P = T.ParametricTranspiler
    pairs = {}
    missing = []

    def reg(name, mk_hat, mk, rejects=False, eps=0.0):
        """eps: the documented `epsilon` of the circuit transpiler (angle window inside which it may replace / drop a
        rotation); 0 for transpilers documented as exact"""
        try:  # a renamed / removed class must not crash the check: it is reported and the pair is left out
            mk_hat(), mk()
            pairs[name] = (mk_hat, mk, rejects, eps)
        except AttributeError as e:
            missing.append(f"{name}: {e}")

    reg("rx", lambda: T.ParametricRX2RZHTranspiler(), lambda: T.RX2RZHTranspiler())
    reg("ry", lambda: T.ParametricRY2RZHTranspiler(), lambda: T.RY2RZHTranspiler())
    reg("pauli", lambda: T.ParametricPauliRotationDecomposeTranspiler(), lambda: T.PauliRotationDecomposeTranspiler())

    def wrap(name, mk, rejects=False, eps=0.0):
        reg("w." + name, (lambda mk=mk: P(mk())), mk, rejects, eps)

    wrap("rx2rzh", lambda: T.RX2RZHTranspiler())
    wrap("ry2rzh", lambda: T.RY2RZHTranspiler())
    wrap("pauliRot", lambda: T.PauliRotationDecomposeTranspiler())
    wrap("pauli", lambda: T.PauliDecomposeTranspiler())
    wrap("idInsert", lambda: T.IdentityInsertionTranspiler())
    wrap("idElim", lambda: T.IdentityEliminationTranspiler())
    wrap("RZSet", lambda: T.RZSetTranspiler())
    wrap("fuse", lambda: T.FuseRotationTranspiler())
    # the circuit transpilers of transpile/gateset.py (and the generic combinators of transpile/transpiler.py) as wrapped
    # transpilers: "wrapper of any circuit transpiler"
    wrap("rz2rxry", lambda: T.RZ2RXRYTranspiler())
    wrap("ry2rxrz", lambda: T.RY2RXRZTranspiler())
    wrap("rx2ryrz", lambda: T.RX2RYRZTranspiler())
    wrap("identity", lambda: G.IdentityTranspiler())
    wrap("seq", lambda: T.SequentialTranspiler([T.RX2RZHTranspiler(), T.RY2RZHTranspiler()]))
    wrap("par", lambda: T.ParallelDecomposer([T.RX2RZHTranspiler(), T.RY2RZHTranspiler(), T.PauliRotationDecomposeTranspiler()]))
    wrap("cliff(H,S)", lambda: T.CliffordConversionTranspiler(["H", "S"]))
    wrap("cliff(SqrtX,S,Z)", lambda: T.CliffordConversionTranspiler(("SqrtX", "S", "Z")))
    wrap("cliff(X,SqrtY)", lambda: T.CliffordConversionTranspiler({"X", "SqrtY"}))
    wrap("rot(RZ)", lambda: T.RotationConversionTranspiler(["RZ"]), True)
    wrap("rot(RZ|SqrtX)", lambda: T.RotationConversionTranspiler(["RZ"], ["SqrtX"]), True)
    wrap("rot(RX,RZ)", lambda: T.RotationConversionTranspiler(("RX", "RZ")), True)
    wrap("rot(RX,RY)", lambda: T.RotationConversionTranspiler({"RX", "RY"}), True)
    wrap("rot(RY,RZ)", lambda: T.RotationConversionTranspiler(["RY", "RZ"], ["H"]), True)
    wrap("rot(RX)", lambda: T.RotationConversionTranspiler(["RX"]), True)
    for gs in GATESETS:
        wrap("gateset(" + ",".join(gs) + ")", lambda gs=gs: T.GateSetConversionTranspiler(gs), True, 1.0e-9)
    wrap("gateset(RX,CNOT)", lambda: T.GateSetConversionTranspiler(["RX", "CNOT"]), True, 1.0e-9)  # not universal: may reject
    wrap("gateset(H,RZ,CNOT;validation=False)", lambda: T.GateSetConversionTranspiler(["H", "RZ", "CNOT"], 1.0e-9, False), False, 1.0e-9)
    wrap("gateset(RX,RY,RZ,CZ;epsilon=,validation=)", lambda: T.GateSetConversionTranspiler(
        {"RX", "RY", "RZ", "CZ"}, epsilon=1.0e-10, validation=True), True, 1.0e-10)
    # transpilers that replace / drop a rotation whose angle is within their documented epsilon (default 1e-9) of a special
    # angle — alone and inside the preset pipelines, with default and explicit epsilon
    wrap("rot2named", lambda: T.Rotation2NamedTranspiler(), False, 1.0e-9)
    wrap("rot2named(1e-6)", lambda: T.Rotation2NamedTranspiler(1.0e-6), False, 1.0e-6)
    wrap("rot2named(epsilon=1e-12)", lambda: T.Rotation2NamedTranspiler(epsilon=1.0e-12), False, 1.0e-12)
    wrap("rx2named", lambda: T.RX2NamedTranspiler(), False, 1.0e-9)
    wrap("ry2named", lambda: T.RY2NamedTranspiler(), False, 1.0e-9)
    wrap("rz2named", lambda: T.RZ2NamedTranspiler(), False, 1.0e-9)
    wrap("rz2named(1e-7,noT)", lambda: T.RZ2NamedTranspiler(1.0e-7, allow_t_tdag=False), False, 1.0e-7)
    wrap("zeroElim", lambda: T.ZeroRotationEliminationTranspiler(), False, 1.0e-9)
    wrap("zeroElim(1e-6)", lambda: T.ZeroRotationEliminationTranspiler(epsilon=1.0e-6), False, 1.0e-6)
    wrap("normalize", lambda: T.NormalizeRotationTranspiler())
    wrap("cliffRZ", lambda: T.CliffordRZSetTranspiler(), False, 1.0e-9)
    wrap("cliffRZ(1e-7)", lambda: T.CliffordRZSetTranspiler(1.0e-7), False, 1.0e-7)
    wrap("STARSet", lambda: T.STARSetTranspiler(), True, 1.0e-9)
    wrap("gateset(H,S,T,RZ,CNOT;epsilon=1e-6)", lambda: T.GateSetConversionTranspiler(
        ("H", "S", "T", "RZ", "CNOT"), epsilon=1.0e-6), True, 1.0e-6)
    wrap("gateset(X,Y,Z,SqrtX,SqrtY,S,RZ,CZ)", lambda: T.GateSetConversionTranspiler(
        ["X", "Y", "Z", "SqrtX", "SqrtY", "S", "RZ", "CZ"]), True, 1.0e-9)
    return pairs, missing


def fixed_segments(c):
    """maximal runs of non-parametric gates of a parametric circuit (what ParametricTranspiler hands to the wrapped transpiler)"""
    from quri_parts.circuit import QuantumCircuit

    segs, cur = [], []
    for g, p in c.primitive_circuit().gates_and_params:
        if p is None:
            cur.append(g)
        elif cur:
            segs.append(cur)
            cur = []
    if cur:
        segs.append(cur)
    return [QuantumCircuit(c.qubit_count, gates=gs) for gs in segs]


def gate_functions(real, c):
    """the linear function of every parametric gate, in gate order, as {parameter id | 'C': coefficient}"""
    pm = c.param_mapping
    mp = pm.mapping
    out = []
    for g, p in c.primitive_circuit().gates_and_params:
        if p is None:
            continue
        f = mp[p]
        if hasattr(f, "items"):
            out.append({repr(real.pid(q)): Fraction(x) for q, x in f.items() if x != 0})
        else:
            out.append({repr(real.pid(f)): Fraction(1)})
    return out


ROUNDED = [1.5708, 1.570796, 3.1416, 3.14159, 3.141593, 0.7854, 0.785398, 2.3562, 2.356194, 4.7124, 4.712389, 3.927, 3.926991,
           5.4978, 5.497787, 6.2832, 6.283185, -1.5708, -3.14159, -0.7854, 7.854, 7.853982, 9.42478]


def op_dist(a, b):
    """spectral norm of a − e^{iφ}·b for the phase φ that aligns the two operators"""
    import numpy as np

    a, b = np.asarray(a), np.asarray(b)
    t = np.trace(b.conj().T @ a)
    ph = t / abs(t) if abs(t) > 1e-12 else 1.0
    return float(np.linalg.norm(a - ph * b, 2))


def steer_near_special(real, c, ip, vals, rng, eps_floor):
    """changes ONE parameter value so that the linear function of one parametric gate evaluates to an angle that is close
    to — but not at — a multiple of π/4 (RZ, Pauli rotation) or π/2 (RX, RY): offset log-uniform in max(1e-7, 3·epsilon) … 3e-5
    (absolute) or 1e-7 … 1e-5 relative to the special angle, or a hand-rounded constant (1.5708, 3.14159, …).
    Returns (vals, description) or (vals, None) when no gate can be steered."""
    try:
        mp = c.param_mapping.mapping
        pgs = [(g, p) for g, p in c.primitive_circuit().gates_and_params if p is not None]
        rng.shuffle(pgs)
        for g, p in pgs:
            f = mp[p]
            terms = list(f.items()) if hasattr(f, "items") else [(f, 1.0)]
            steerable = [(q, float(x)) for q, x in terms if q != real.CONST and float(x) != 0.0 and any(q == r_ for r_ in ip)]
            if not steerable:
                continue
            q, coef = rng.choice(steerable)
            pos = [i for i, r_ in enumerate(ip) if r_ == q]
            cur = sum(float(x) * (1.0 if r_ == real.CONST else vals[[i for i, z in enumerate(ip) if z == r_][-1]]) for r_, x in terms)
            rest = cur - coef * vals[pos[-1]]
            unit = math.pi / 4 if g.name in ("ParametricRZ", "ParametricPauliRotation") else math.pi / 2
            k = rng.choice([j for j in range(-9, 14) if j != 0] + [0])
            base = k * unit
            x = rng.random()
            if x < 0.2:
                target, how = rng.choice(ROUNDED), "hand-rounded constant"
            else:
                lo = max(1.0e-7, 3.0 * eps_floor)
                if x < 0.75 or k == 0:
                    off = math.exp(rng.uniform(math.log(lo), math.log(max(3.0e-5, 2 * lo))))
                    how = "absolute offset"
                else:
                    off = abs(base) * math.exp(rng.uniform(math.log(1.0e-7), math.log(1.0e-5)))
                    how = "relative offset"
                off = off if rng.random() < 0.5 else -off
                target = base + off
            v = (target - rest) / coef
            out = list(vals)
            for i in pos:
                out[i] = v
            return out, f"{g.name} on {list(g.target_indices)} steered to the angle {target!r} ({how}; nearest special angle " \
                        f"{round(target / unit)}·π/{4 if unit < 1 else 2}, off by {target - round(target / unit) * unit:.3g})"
    except Exception:  # noqa: BLE001 — the search just falls back to generic values
        pass
    return vals, None


def oracle_transpile(ctx: Ctx, budget_s: float, min_cases: int):
    """(B) transpile-then-bind vs bind-then-transpile as unitaries (up to phase), in_params kept (objects, order), every
    parametric gate keeps its linear function, the input circuit is left as it was.  Transpiler objects are created once
    and reused for all cases (state carried between calls); inputs are also given frozen."""
    import quri_parts.circuit.transpile as T
    from oracle import dense
    from quri_parts.circuit import QuantumCircuit

    rng = ctx.rng
    t0 = time.time()
    n = 0
    worst = 0.0
    pairs, missing = transpiler_pairs()
    for m in missing:
        ctx.notes.append("transpiler not available, left out of the oracle search: " + m)
    names = sorted(pairs)
    inst = {}
    if not names:
        ctx.notes.append("no parametric transpiler could be constructed: transpile oracle skipped")
        return

    def get(name):
        if name not in inst or rng.random() < 0.1:
            inst[name] = (pairs[name][0](), pairs[name][1]())
        return inst[name]

    while n < min_cases or time.time() - t0 < budget_s:
        n += 1
        if n > min_cases * 40:
            break
        real = Real()
        ops, _ = gen_history(rng, real, rng.randint(3, 10), mode="oracle")
        cands = [h for h, c in enumerate(real.circs) if c.parameter_count > 0 and c.qubit_count <= 4]
        if not cands:
            continue
        h = rng.choice(cands)
        c = real.circs[h]
        core = [x for x in ("rx", "ry", "pauli") if x in pairs] or names
        eps_names = [x for x in names if pairs[x][3] > 0]
        near = bool(eps_names) and rng.random() < 0.4
        if near:
            # values near special angles × transpilers that carry an epsilon (alone, or after one of the rewriting ones)
            chosen = [rng.choice(eps_names)]
            if rng.random() < 0.35:
                chosen.insert(0, rng.choice(core + [x for x in ("w.fuse", "w.normalize", "w.rz2rxry", "w.rx2ryrz") if x in pairs]))
            if rng.random() < 0.15:
                chosen.append(rng.choice(names))
        else:
            chosen = [rng.choice(core) if rng.random() < 0.3 else rng.choice(names) for _ in range(rng.choice([1, 1, 2, 3]))]
        pts = [get(x)[0] for x in chosen]
        nest = rng.randrange(3)
        if len(pts) == 1 and nest == 0:
            that = pts[0]
        elif nest < 2 or len(pts) < 2:
            that = T.ParametricSequentialTranspiler(pts if rng.random() < 0.5 else tuple(pts))
        else:
            that = T.ParametricSequentialTranspiler([T.ParametricSequentialTranspiler(pts[:1]), T.ParametricSequentialTranspiler(pts[1:])])
        tn = T.SequentialTranspiler([get(x)[1] for x in chosen])
        may_reject = any(pairs[x][2] for x in chosen)
        ctx.count("oracle_transpilers", chosen[0].split("(")[0] if len(chosen) == 1 else "sequential")
        hist = {"ops": [enc_op(o) for o in ops], "circuit": h, "transpilers": chosen}
        frozen = rng.random() < 0.35
        arg = c.freeze() if frozen else c
        hist["input"] = "circuit.freeze()" if frozen else "circuit"

        def snap():
            try:
                o = real.obs_of(c)
                return o[:5] + [sorted(o[5], key=repr)]
            except Exception as e:  # noqa: BLE001
                return ["err", type(e).__name__]

        before = snap()
        try:
            tc = that(arg)
        except Exception as e:  # noqa: BLE001
            if may_reject and len(chosen) == 1:
                # a wrapped transpiler that validates its output may reject: then it must reject one of the fixed segments
                def rejects(seg):
                    try:
                        pairs[chosen[0]][1]()(seg)
                        return False
                    except Exception:  # noqa: BLE001
                        return True
                try:
                    legit = any(rejects(sg) for sg in fixed_segments(c))
                except Exception:  # noqa: BLE001
                    legit = False
                if legit:
                    ctx.count("oracle_transpilers", "rejected-segment")
                    continue
            elif may_reject:
                continue  # a later stage sees the output of the earlier ones: no independent opinion
            ctx.witness("transpile-raises:" + chosen[0], f"parametric transpiler raised {type(e).__name__}: {e}", hist)
            continue
        after = snap()
        if after != before:
            ctx.witness("transpile-mutates-input:" + "+".join(chosen), f"the transpiled circuit changed from {before} to {after}", hist)
            continue
        ip, tp = list(c.param_mapping.in_params), list(tc.param_mapping.in_params)
        if len(ip) != len(tp) or any(a != b for a, b in zip(ip, tp)) or tc.parameter_count != c.parameter_count:
            ctx.witness("in-params:" + "+".join(chosen), "parametric transpiler changed the parameter list or its order", hist)
            continue
        if tc.qubit_count != c.qubit_count:
            ctx.witness("in-params:" + "+".join(chosen), f"qubit_count {c.qubit_count} became {tc.qubit_count}", hist)
            continue
        try:
            f0, f1 = gate_functions(real, c), gate_functions(real, tc)
        except Exception as e:  # noqa: BLE001
            f0, f1 = "functions of the input", f"raised {type(e).__name__}"
        if f0 != f1:
            ctx.witness("transpile-functions:" + "+".join(chosen), f"the linear functions of the parametric gates (in gate order) "
                        f"changed from {f0} to {f1}", hist)
            continue
        vals = [rng.uniform(-7, 7) for _ in range(c.parameter_count)]
        if len(set(map(repr, ip))) != len(ip) or len({real.pid(p_) if p_ != real.CONST else 0 for p_ in ip}) != len(ip):
            # a repeated entry of in_params (known finding): the same value for the same parameter
            byp = {}
            vals = [byp.setdefault(repr(real.pid(p_)), v) for p_, v in zip(ip, vals)]
        eps_total = sum(pairs[x][3] for x in chosen)
        if near or (eps_total > 0 and rng.random() < 0.3):
            vals, steered = steer_near_special(real, c, ip, vals, rng, max(pairs[x][3] for x in chosen))
            if steered:
                hist = dict(hist, near_special=steered)
                ctx.count("oracle_transpilers", "near-special-angle")
        try:
            a = (tc.freeze() if rng.random() < 0.3 else tc).bind_parameters(vals)
            b0 = c.bind_parameters(vals)
            ua = dense.circuit_unitary(c.qubit_count, a.gates)
            u0 = dense.circuit_unitary(c.qubit_count, b0.gates)
        except Exception as e:  # noqa: BLE001
            ctx.witness("transpile-bind-raises:" + chosen[0], f"{type(e).__name__}: {e}", dict(hist, values=vals))
            continue
        d = dense.phase_dist(ua, u0)
        try:
            b = tn(QuantumCircuit(c.qubit_count, gates=list(b0.gates)))
            ub = dense.circuit_unitary(c.qubit_count, b.gates)
            d = max(d, dense.phase_dist(ua, ub))
        except Exception as e:  # noqa: BLE001
            if not may_reject:
                ctx.witness("transpile-bind-raises:" + chosen[0], f"{type(e).__name__}: {e}", dict(hist, values=vals))
                continue
        # a transpiler with a documented epsilon may move each rotation it meets by less than epsilon (operator distance
        # < epsilon/2 per replacement); nothing else is allowed to differ
        tol = 1e-7 + 2.0 * eps_total * (len(a.gates) + len(b0.gates) + 4)
        if eps_total == 0:
            worst = max(worst, d)
        if d > tol:
            ctx.witness("transpile-bind:" + "+".join(chosen), f"bind∘T̂ and T∘bind differ by {d:.3g} up to phase "
                        f"(documented epsilon of the transpilers: {eps_total:.3g} in total)", dict(hist, values=vals))
            continue
        # the sharp form, gate by gate: T̂ leaves every parametric gate alone, so T applied to the bound gate on its own
        # must reproduce that gate up to the documented epsilon (10·epsilon: a pipeline re-visits a rotation a few times)
        tol1 = 1e-10 + 10.0 * eps_total
        try:
            bound_par = [bg for bg, (_, p_) in zip(b0.gates, c.primitive_circuit().gates_and_params) if p_ is not None]
        except Exception:  # noqa: BLE001
            bound_par = []
        for bg in bound_par[:6]:
            try:
                one = QuantumCircuit(c.qubit_count, gates=[bg])
                u1 = dense.circuit_unitary(c.qubit_count, one.gates)
                u2 = dense.circuit_unitary(c.qubit_count, tn(one).gates)
            except Exception:  # noqa: BLE001 — a validating transpiler may reject the lone gate
                continue
            d1 = op_dist(u1, u2)
            if d1 > tol1:
                ctx.witness("transpile-bind-epsilon:" + "+".join(chosen),
                            f"the parametric gate bound to {bg.name}{list(bg.target_indices)}(angle {bg.params[0]!r}) is kept with exactly "
                            f"that angle by bind∘T̂, but T∘bind turns it into {[(x.name, list(x.params)) for x in tn(one).gates]}: "
                            f"operator distance {d1:.3g} up to phase, although the documented epsilon of the transpilers is "
                            f"{eps_total:.3g} (angle window) — the two orders differ by more than the documented tolerance",
                            dict(hist, values=vals))
                break
    o = ctx.extra.setdefault("oracle", {})
    o["transpile_cases"] = n
    o["worst_phase_dist"] = worst
    ctx.evaluations += n


# ---------------------------------------------------------------------------------------------
# (C) LinearParameterMapping used directly (public constructor / with_data_updated / combine / mapper / seq_mapper /
#     is_trivial_mapping) against a restatement with exact fractions
# ---------------------------------------------------------------------------------------------
def _spec_eval(fn, vals):
    """fn: ('P', i) | ('F', {i | 'C': Fraction}); vals: list of Fractions"""
    if fn[0] == "P":
        return vals[fn[1]]
    return sum((c * (Fraction(1) if k == "C" else vals[k]) for k, c in fn[1].items()), Fraction(0))


def _spec_trivial(kin, fns):
    """True / False / None (no opinion: a function that is the constant 1 alone)"""
    if any(f[0] == "F" and list(f[1].items()) == [("C", Fraction(1))] for f in fns):
        return None
    if kin != len(fns):
        return False
    used = []
    for f in fns:
        if f[0] == "P":
            k = f[1]
        elif len(f[1]) == 1 and "C" not in f[1] and list(f[1].values()) == [Fraction(1)]:
            k = next(iter(f[1]))
        else:
            return False
        if k in used:
            return False
        used.append(k)
    return True


def _rnd_fn(rng, kin, allow_p=True):
    if kin and allow_p and rng.random() < 0.3:
        return ("P", rng.randrange(kin))
    keys = [k for k in list(range(kin)) + ["C"] if rng.random() < 0.5][:3]
    d = {}
    for k in keys:
        c = rnd_frac(rng, small=True)
        d[k] = c if c != 0 else Fraction(1)
    return ("F", d)


def check_mapping(m, ins, outs, fns, rng, label):
    """list of discrepancies between the real mapping object `m` and (ins, outs, fns)"""
    from quri_parts.circuit import CONST

    bad = []
    try:
        gi, go = list(m.in_params), list(m.out_params)
        if len(gi) != len(ins) or any(a != b for a, b in zip(gi, ins)):
            bad.append(f"{label}: in_params are not the {len(ins)} given parameters in the given order (got {len(gi)})")
        if len(go) != len(outs) or any(a != b for a, b in zip(go, outs)):
            bad.append(f"{label}: out_params are not the {len(outs)} given parameters in the given order (got {len(go)})")
        if bad:
            return bad
        keys = list(m.mapping.keys())
        if len(keys) != len(outs) or any(not any(k == o for k in keys) for o in outs):
            bad.append(f"{label}: mapping has {len(keys)} keys, expected exactly the {len(outs)} output parameters")
            return bad
        vals = [rnd_frac(rng) for _ in ins]
        fv = [float(v) for v in vals]
        want = [_spec_eval(f, vals) for f in fns]
        extra = {CONST: 5.0} if rng.random() < 0.2 else {}  # a caller-supplied value for CONST is not a parameter value
        d = m.mapper({**dict(zip(ins, fv)), **extra})
        got = [Fraction(d[o]) for o in outs]
        if got != want or len(d) != len(outs):
            bad.append(f"{label}: mapper at {fv} gives {[str(x) for x in got]} ({len(d)} entries), expected {[str(x) for x in want]}")
        form = tuple(fv) if rng.random() < 0.5 else list(fv)
        got = [Fraction(x) for x in m.seq_mapper(form)]
        if got != want:
            bad.append(f"{label}: seq_mapper at {fv} gives {[str(x) for x in got]}, expected {[str(x) for x in want]}")
        for wrong in (fv + [1.0], fv[:-1]):
            if len(wrong) == len(fv):
                continue
            try:
                m.seq_mapper(wrong)
                bad.append(f"{label}: seq_mapper accepted {len(wrong)} values for {len(fv)} parameters")
            except ValueError:
                pass
        t = _spec_trivial(len(ins), fns)
        if t is not None and bool(m.is_trivial_mapping) != t:
            bad.append(f"{label}: is_trivial_mapping is {m.is_trivial_mapping}, expected {t}")
        # get_derivatives: one mapping per input parameter, over the same parameters, holding only constants — the
        # coefficient of that parameter in every function that mentions it (a function that does not mention it may be
        # left out or be zero)
        ds = list(m.get_derivatives())
        if len(ds) != len(ins):
            bad.append(f"{label}: get_derivatives() has {len(ds)} entries for {len(ins)} input parameters")
        for i, dm in enumerate(ds[: len(ins)]):
            if len(dm.in_params) != len(ins) or len(dm.out_params) != len(outs):
                bad.append(f"{label}: derivative {i} has {len(dm.in_params)} in / {len(dm.out_params)} out parameters")
                break
            for o, f in zip(outs, fns):
                coef = (Fraction(1) if f[1] == i else Fraction(0)) if f[0] == "P" else f[1].get(i, Fraction(0))
                ent = dm.mapping.get(o)
                if ent is None:
                    got_c = Fraction(0)
                elif hasattr(ent, "items"):
                    if any(k != CONST for k in ent):
                        got_c = "a non-constant function"
                    else:
                        got_c = sum((Fraction(x) for x in ent.values()), Fraction(0))
                else:
                    got_c = "a bare parameter"
                if got_c != coef:
                    bad.append(f"{label}: d(output {outs.index(o)})/d(input {i}) is {got_c}, expected {coef}")
                    break
    except Exception as e:  # noqa: BLE001
        bad.append(f"{label}: raised {type(e).__name__}: {e}")
    return bad


def oracle_mapping_api(ctx: Ctx, cases: int):
    from quri_parts.circuit import CONST, LinearParameterMapping, Parameter

    rng = ctx.rng

    def build(fns, ins, outs):
        """caller-side dictionaries for the functions (returned so that they can be altered after the call)"""
        top, inner = {}, []
        for o, f in zip(outs, fns):
            if f[0] == "P":
                top[o] = ins[f[1]]
            else:
                d = {(CONST if k == "C" else ins[k]): (int(c) if c.denominator == 1 and rng.random() < 0.4 else float(c))
                     for k, c in f[1].items()}
                inner.append(d)
                top[o] = d
        return top, inner

    def spoil(top, inner, *lists):
        for d in inner:
            for k in list(d):
                d[k] = 99.0
            d[Parameter("late")] = 1.0
        top[Parameter("late-out")] = {CONST: 1.0}
        for x in lists:
            if isinstance(x, list):
                x.append(Parameter("late"))

    for i in range(cases):
        kin = rng.randint(0, 4)
        mode = rng.choice(["random", "random", "perm", "identity", "near-trivial"])
        ins = [Parameter("p") for _ in range(kin)]
        if mode == "random":
            fns = [_rnd_fn(rng, kin) for _ in range(rng.randint(0, 4))]
        else:
            perm = list(range(kin))
            if mode != "identity":
                rng.shuffle(perm)
            fns = [("P", k) if rng.random() < 0.5 else ("F", {k: Fraction(1)}) for k in perm]
            if mode == "near-trivial" and fns:
                j = rng.randrange(len(fns))
                fns[j] = rng.choice([("F", {perm[j]: Fraction(1), "C": Fraction(1, 2)}), ("F", {perm[j]: Fraction(-1)}),
                                     ("P", perm[(j + 1) % len(perm)]), ("F", {perm[j]: Fraction(2)})])
        outs = [Parameter("") for _ in fns]

        def show(fs):
            return [[f[0], f[1] if f[0] == "P" else {str(k): str(c) for k, c in f[1].items()}] for f in fs]

        desc = {"in_params": kin, "functions (keys: input positions / C)": show(fns)}
        ctx.count("mapping_api", mode)
        top, inner = build(fns, ins, outs)
        in_c = list(ins) if rng.random() < 0.5 else tuple(ins)
        out_c = list(outs) if rng.random() < 0.5 else tuple(outs)
        try:
            x = rng.random()
            if x < 0.4:
                m = LinearParameterMapping(in_c, out_c, top)
                how = "LinearParameterMapping(in, out, mapping)"
            elif x < 0.7:
                m = LinearParameterMapping(in_params=in_c, out_params=out_c, mapping=top)
                how = "LinearParameterMapping(in_params=, out_params=, mapping=)"
            else:
                m = LinearParameterMapping().with_data_updated(in_params_addition=in_c, out_params_addition=out_c, mapping_update=top)
                how = "LinearParameterMapping().with_data_updated(...)"
            spoil(top, inner, in_c, out_c)  # the caller's containers are altered after the call
            bad = check_mapping(m, ins, outs, fns, rng, how + ", caller's containers altered afterwards")
            # with_data_updated: new object, old one as before
            k2 = rng.randint(0, 2)
            ins2 = ins + [Parameter("p") for _ in range(k2)]
            fns2 = fns + [_rnd_fn(rng, len(ins2)) for _ in range(rng.randint(0, 2))]
            outs2 = outs + [Parameter("") for _ in fns2[len(fns):]]
            top2, inner2 = build(fns2[len(fns):], ins2, outs2[len(outs):])
            desc["with_data_updated"] = {"in_params_addition": k2, "added functions": show(fns2[len(fns):])}
            add_in = ins2[kin:] if rng.random() < 0.5 else tuple(ins2[kin:])
            m2 = m.with_data_updated(in_params_addition=add_in, out_params_addition=outs2[len(outs):], mapping_update=top2)
            spoil(top2, inner2, add_in)
            if not bad:
                bad = check_mapping(m2, ins2, outs2, fns2, rng, how + " then with_data_updated")
            if not bad:
                bad = check_mapping(m, ins, outs, fns, rng, how + " (the object with_data_updated was called on)")
            # combine with a mapping over other parameters
            kin3 = rng.randint(0, 2)
            ins3 = [Parameter("p") for _ in range(kin3)]
            fns3 = [_rnd_fn(rng, kin3) for _ in range(rng.randint(0, 2))]
            outs3 = [Parameter("") for _ in fns3]
            top3, _ = build(fns3, ins3, outs3)
            desc["combine(other)"] = {"in_params": kin3, "functions": show(fns3)}
            m3 = LinearParameterMapping(ins3, outs3, top3)
            mc = m2.combine(m3)

            def shift(f):  # parameter positions of the second operand follow those of the first
                if f[0] == "P":
                    return ("P", f[1] + len(ins2))
                return ("F", {(k if k == "C" else k + len(ins2)): c for k, c in f[1].items()})

            if not bad:
                bad = check_mapping(mc, ins2 + ins3, outs2 + outs3, fns2 + [shift(f) for f in fns3], rng, how + " … combine(other)")
            if not bad:
                bad = check_mapping(m3, ins3, outs3, fns3, rng, "the argument of combine, afterwards")
        except Exception as e:  # noqa: BLE001
            bad = [f"raised {type(e).__name__}: {e}"]
        for b in bad[:1]:
            ctx.witness("mapping-api", b[:900], desc, None)
    ctx.evaluations += cases
    ctx.extra.setdefault("oracle", {})["mapping_api_cases"] = cases


# ---------------------------------------------------------------------------------------------
# (D) fixed entry-point cases that the random histories do not draw
# ---------------------------------------------------------------------------------------------
def fixed_api_checks(ctx: Ctx):
    import quri_parts.circuit.transpile as T
    from oracle import dense
    from quri_parts.circuit import CONST, LinearMappedParametricQuantumCircuit, ParametricQuantumCircuit, QuantumCircuit, gates

    def run(f):
        try:
            return ("ok", f())
        except Exception as e:  # noqa: BLE001
            return ("err", type(e).__name__)

    # 1. extend / + with a parametric circuit whose parameter mapping is not a LinearParameterMapping: rejected, nothing changes
    from quri_parts.circuit import ImmutableLinearMappedParametricQuantumCircuit as _Imm

    class Foreign(_Imm):
        """a parametric circuit (every protocol member inherited) whose parameter mapping is of an unknown type"""

        @property
        def param_mapping(self):
            class M:
                in_params = ()
                out_params = ()
                mapping = {}
            return M()

    try:
        c = LinearMappedParametricQuantumCircuit(2)
        x = c.add_parameter("x")
        c.add_ParametricRX_gate(0, {x: 2.0})
        other = LinearMappedParametricQuantumCircuit(2)
        y = other.add_parameter("y")
        other.add_ParametricRY_gate(1, y)
        st = run(lambda: c.extend(Foreign(other)))
        state = (c.parameter_count, len(c.gates))
        ctx.count("fixed_api", "foreign-mapping-type")
        if st[0] == "ok" or state != (1, 1):
            ctx.witness("foreign-mapping-type", f"extend with a parametric circuit whose param_mapping is not a LinearParameterMapping: "
                        f"{st}; (parameter_count, gate count) afterwards {state}, expected a rejection and (1, 1)",
                        {"case": "LinearMapped(2) with RX(2x) .extend(object forwarding to a LinearMapped circuit but with a foreign param_mapping)"})
        st = run(lambda: c + Foreign(other))
        if st[0] == "ok":
            ctx.witness("foreign-mapping-type", f"`+` with such a circuit returned {type(st[1]).__name__} instead of being rejected",
                        {"case": "c + Foreign(other)"})
    except Exception as e:  # noqa: BLE001 — building x = add_parameter(); RX(2x); y; RY(y) must succeed
        ctx.witness("fixed-case-raises", f"a valid construction raised {type(e).__name__}: {e}",
                    {"case": "c = LinearMapped(2); x = c.add_parameter('x'); c.add_ParametricRX_gate(0, {x: 2.0}); "
                             "other = LinearMapped(2); y = other.add_parameter('y'); other.add_ParametricRY_gate(1, y)"})

    # 2. Pauli ids outside {1,2,3}: accepted at construction; decomposing such a rotation is rejected by both T̂ and T
    for bad_id in (0, 4):
        for mk in ("L", "P"):
            ctx.count("fixed_api", "pauli-id-out-of-range")
            if mk == "L":
                pc = LinearMappedParametricQuantumCircuit(2)
                a = pc.add_parameters("a")[0]
                s0 = run(lambda: pc.add_ParametricPauliRotation_gate([0, 1], [3, bad_id], {a: 1.0, CONST: 0.5}))
            else:
                pc = ParametricQuantumCircuit(2)
                s0 = run(lambda: pc.add_ParametricPauliRotation_gate([0, 1], [3, bad_id]))
            if s0[0] != "ok":
                continue
            hat = run(lambda: T.ParametricPauliRotationDecomposeTranspiler()(pc))
            bound = run(lambda: pc.bind_parameters([0.25]))
            if bound[0] != "ok":
                continue
            plain = run(lambda: T.PauliRotationDecomposeTranspiler()(QuantumCircuit(2, gates=list(bound[1].gates))))
            if (hat[0] == "ok") != (plain[0] == "ok"):
                ctx.witness("pauli-id-out-of-range", f"ParametricPauliRotation with pauli id {bad_id}: parametric decomposition "
                            f"{hat[0] if hat[0] == 'ok' else hat}, non-parametric decomposition of the bound circuit "
                            f"{plain[0] if plain[0] == 'ok' else plain}", {"pauli_ids": [3, bad_id], "circuit": mk})

    # 3. a circuit with classical bits (no measurement): transpilers and binding still commute
    for name, mk_hat, mk in (("rx", T.ParametricRX2RZHTranspiler, T.RX2RZHTranspiler), ("ry", T.ParametricRY2RZHTranspiler, T.RY2RZHTranspiler),
                             ("pauli", T.ParametricPauliRotationDecomposeTranspiler, T.PauliRotationDecomposeTranspiler),
                             ("w.fuse", lambda: T.ParametricTranspiler(T.FuseRotationTranspiler()), T.FuseRotationTranspiler)):
        ctx.count("fixed_api", "cbit-circuit")
        try:
            cc = LinearMappedParametricQuantumCircuit(3, 2)
            u, v = cc.add_parameters("u", "v")
            cc.add_H_gate(0)
            cc.add_ParametricRX_gate(0, {u: 0.5, v: -1.0})
            cc.add_RZ_gate(1, 0.375)
            cc.add_RZ_gate(1, 0.25)
            cc.add_ParametricRY_gate(1, v)
            cc.add_ParametricPauliRotation_gate((2, 0, 1), (2, 1, 3), {u: 1.0, CONST: 0.125})
            cc.add_CNOT_gate(2, 1)
            tc = mk_hat()(cc)
            vals = [0.75, -1.5]
            ua = dense.circuit_unitary(3, tc.bind_parameters(vals).gates)
            b0 = cc.bind_parameters(vals)
            ub = dense.circuit_unitary(3, mk()(QuantumCircuit(3, gates=list(b0.gates))).gates)
            u0 = dense.circuit_unitary(3, b0.gates)
            d = max(dense.phase_dist(ua, ub), dense.phase_dist(ua, u0))
            ip = list(tc.param_mapping.in_params)
            if d > 1e-7 or len(ip) != 2 or ip[0] != u or ip[1] != v:
                ctx.witness("transpile-bind:" + name, f"circuit with cbit_count=2: bind∘T̂ and T∘bind differ by {d:.3g} / in_params {ip}",
                            {"case": "LinearMapped(3, cbit_count=2): H0 PRX0(u/2-v) RZ1 RZ1 PRY1(v) PPauliRot(2,0,1;Y,X,Z)(u+1/8) CNOT(2,1)", "values": vals})
        except Exception as e:  # noqa: BLE001
            ctx.witness("transpile-raises:" + name, f"circuit with cbit_count=2: {type(e).__name__}: {e}", {"case": "LinearMapped(3, cbit_count=2)"})
    ctx.evaluations += 13


def replay_f6(ctx: Ctx):
    """the witness of Props/C10.lean `combine_shared_counterexample`, on the real code"""
    ops = F6_HISTORY.split(" | ")
    real, opres, _ = real_run(ops, [])
    if [x.split(":")[0] for x in opres] != ["ok"] * len(ops):
        ctx.notes.append(f"F6 witness history no longer runs: {opres}")
        return
    c = real.circs[1]
    ip = list(c.param_mapping.in_params)
    dup = len(ip) == 2 and ip[0] == ip[1]
    g = [canon_real_gate(x) for x in c.bind_parameters([1.0, 3.0]).gates] if c.parameter_count == 2 else None
    ctx.extra["f6_replay"] = {"parameter_count": c.parameter_count, "in_params_duplicated": dup, "bind[1,3]": g}
    if dup:
        ctx.witness(KEY_F6, F6_TEXT, {"ops": ops, "request": request_line(ops, ["obs:1", "bind:1:1/1,3/1"])},
                    {"parameter_count": c.parameter_count, "bind([1.0, 3.0])": g})


# ---------------------------------------------------------------------------------------------
def gen(ctx: Ctx):
    with ctx.timed("translate"):
        txt, n, info = c10gen.emit()
        ctx.write_generated("C10Tables", txt)
        ctx.generated_entries += n
        ctx.extra["translator"] = {"unparsed": info["unparsed"], "rust_digests": info.get("rust_digests")}
        return info


def run_replay(ctx: Ctx, path: str):
    d = json.load(open(path))
    batch = []
    for x in d.get("disagreements", []):
        inp = x.get("input", {})
        if "ops" in inp:
            batch.append((inp["ops"], inp.get("queries", []), inp.get("entry_point_variant_seed")))
    compare_batch(ctx, batch, "replay")
    from oracle import c10ref

    for w in d.get("witnesses", []):
        inp = w.get("input", {})
        if "ops" in inp and "transpilers" not in inp:
            try:
                check_against_reference(ctx, c10ref, [dec_op(s) for s in inp["ops"]], ctx.rng, probe_p=1.0,
                                        vseed=inp.get("entry_point_variant_seed"))
            except Exception as e:  # noqa: BLE001
                ctx.notes.append(f"replay of witness failed: {e}")


def run(ctx: Ctx, replay=None) -> int:
    ctx.rule = ("case = one operation history (new / add_parameters / add_gate / add_Parametric*_gate / extend / + / radd / "
                "parametric transpilers) plus queries (observation of in/out params, mapping and raw gate list with parameter "
                "identities, bind list/dict, seq_mapper, is_trivial_mapping, parameter_count); real objects vs Lean model, "
                "compared exactly after renaming parameter identities by first appearance; most histories are run a second "
                "time through equivalent public entry points / argument forms (VariantReal: aliases, explicit optional "
                "arguments, add_parameter, add_<Name>_gate, add_gate(g, index), keyword arguments, Mapping/tuple/numpy/int "
                "containers, +=, combine, frozen operands, queries on freeze()/get_mutable_copy(), mutation redirected to a "
                "mutable copy, freeze-then-mutate) against the same model answer; distinct = distinct request lines "
                "(× variant seed) containing at least one parametric gate and one combining/transpiling operation. "
                "Oracles: (A) reference semantics incl. add_gate at a position, bindings interleaved with mutations, three "
                "bindings per circuit in different forms, gates/depth; (B) transpile/bind commutation for the three rewriting "
                "transpilers and ParametricTranspiler around every circuit transpiler of transpile/gateset.py and the generic "
                "combinators, reused transpiler objects, frozen inputs, functions of the parametric gates kept, input "
                "untouched; (C) LinearParameterMapping used directly (constructor / with_data_updated / combine / mapper / "
                "seq_mapper / is_trivial_mapping / get_derivatives, caller containers altered afterwards); (D) fixed cases: "
                "foreign mapping type rejected, Pauli ids outside 1..3, circuits with classical bits")
    ctx.trusted = TRUSTED
    ctx.assumptions = [
        "coefficients and parameter values are dyadic rationals of small height, so Python's float arithmetic is exact",
        "quri_parts.rust is the installed 0.27 binary (binary_is_not_built_from_repo: true)",
        "operation histories avoid measurement gates / classical bits and plain.extend(itself) (Rust borrow panic)",
    ]
    ctx.extra["binary_is_not_built_from_repo"] = True
    gen(ctx)
    ok = ctx.prove(LEAN_TARGETS + (["QuriVerif.Props.C10Deep"] if not ctx.quick() else []),
                   [PROPS, LIFT, GENMOD] + (["QuriVerif.Props.C10Deep"] if not ctx.quick() else []))
    if ok:
        names = [f"QV.Props.C10.{n}" for _, n, _ in ctx.count_obligations([PROPS])]
        names += [f"QV.Props.C10Lift.{n}" for _, n, _ in ctx.count_obligations([LIFT])]
        ctx.audit(names, [PROPS, LIFT, "QuriVerif.Driver.C10"])
    driver_ok = ok or _driver_builds(ctx)
    if replay:
        run_replay(ctx, replay)
    with ctx.timed("correspond"):
        if driver_ok:
            correspond(ctx)
        else:
            ctx.notes.append("driver does not build: correspondence skipped, oracle search budget raised")
    broken = (not ok) or bool(ctx.disagreements)
    with ctx.timed("oracle"):
        replay_f6(ctx)
        scale = 4 if broken else 1
        ctx.search_budget_s = ctx.n(8, 90) * scale * 2
        oracle_bind(ctx, ctx.n(8, 90) * scale, ctx.n(150, 3000))
        oracle_transpile(ctx, ctx.n(8, 90) * scale, ctx.n(120, 2500))
        oracle_mapping_api(ctx, ctx.n(400, 6000) * scale)
        fixed_api_checks(ctx)
    # the replay file keeps the first few witnesses: put the ones that are not the known F6 shape first
    ctx.witnesses.sort(key=lambda w: w["key"] == KEY_F6)
    ctx.extra["witness_keys"] = sorted({w["key"] for w in ctx.witnesses})
    return ctx.finish()


def _driver_builds(ctx: Ctx) -> bool:
    ok, _ = ctx.lake_build(["QuriVerif.Driver.C10"])
    return ok
